from pyxform.xls2xform import convert
from pyxform.errors import PyXFormError
cases = {
 "select_multiple ${q} (K1)": "| survey | | | |\n| | type | name | label |\n| | begin repeat | r | R |\n| | text | q | Q |\n| | end repeat | | |\n| | select_multiple ${q} | s | S |\n",
 "select_one_external without choice_filter (K1)": "| survey | | | |\n| | type | name | label |\n| | select_one_external states | s | S |\n| external_choices | | | |\n| | list_name | name | label |\n| | states | a | A |\n",
 "table-list with select from ${ref} (K1)": "| survey | | | | |\n| | type | name | label | appearance |\n| | begin repeat | r | R | |\n| | text | q | Q | |\n| | end repeat | | | |\n| | begin group | g | G | table-list |\n| | select_one ${q} | s | S | |\n| | end group | | | |\n",
 "osm with unknown tag list (K2)": "| survey | | | |\n| | type | name | label |\n| | osm nolist | o | O |\n| osm | | | |\n| | list_name | name | label |\n| | other | building | B |\n",
 "empty group (K2)": "| survey | | | |\n| | type | name | label |\n| | begin group | g | G |\n| | end group | | |\n",
 "loop with % in label (K4)": "| survey | | | |\n| | type | name | label |\n| | begin loop over c | l | L |\n| | text | q | 100% of %(label)s |\n| | end loop | | |\n| choices | | | |\n| | list_name | name | label |\n| | c | a | A |\n",
 "bind::nodeset column (K8)": "| survey | | | | |\n| | type | name | label | bind::nodeset |\n| | text | q | Q | x |\n",
 "control::nodeset on repeat (K8)": "| survey | | | | |\n| | type | name | label | control::nodeset |\n| | begin repeat | r | R | x |\n| | text | q | Q | |\n| | end repeat | | | |\n",
}
for name, md in cases.items():
    try:
        convert(md); print(f"{name}: converted")
    except PyXFormError as e:
        print(f"{name}: PyXFormError {str(e)[:70]}")
    except Exception as e:
        print(f"{name}: INTERNAL {type(e).__name__}: {str(e)[:80]}")
