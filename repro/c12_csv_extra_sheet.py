from pyxform.xls2xform import convert
csv_extra = 'survey\n,type,name,label\n,text,q,Q\nnotes\n,a,b\n,1,2\n'
md_extra = "| survey |\n| | type | name | label |\n| | text | q | Q |\n| notes |\n| | a | b |\n| | 1 | 2 |\n"
for name, data, ft in (("md", md_extra, "md"), ("csv", csv_extra, "csv")):
    try:
        convert(data, file_type="." + ft); print(name, "extra sheet: converts")
    except Exception as e:
        print(name, "extra sheet:", type(e).__name__, str(e)[:90])
csv_single = 'Sheet1\n,type,name,label\n,text,q,Q\n'
md_single = "| Sheet1 |\n| | type | name | label |\n| | text | q | Q |\n"
for name, data, ft in (("md", md_single, "md"), ("csv", csv_single, "csv")):
    try:
        convert(data, file_type="." + ft); print(name, "single unnamed sheet: converts")
    except Exception as e:
        print(name, "single unnamed sheet:", type(e).__name__, str(e)[:90])
