"""bytes that are not UTF-8 (e.g. a cp1252 csv export) given without / with a text file_type: the md and csv readers
decoded them outside their handlers -> UnicodeDecodeError instead of the library's error.
Run from a pyxform tree: cd <tree> && /venv/bin/python /verif/repro/c17_non_utf8_bytes.py"""
import os, sys
sys.path.insert(0, os.getcwd())
from pyxform.errors import PyXFormError
from pyxform.xls2xform import convert
rc = 0
data = "survey,,,\n,type,name,label\n,text,q,caf\xe9\n".encode("cp1252")
for ft in (None, ".csv", ".md"):
    try:
        convert(xlsform=data, file_type=ft)
        got = "converted"
    except PyXFormError as e:
        got = "PyXFormError"
    except Exception as e:  # noqa: BLE001
        got = type(e).__name__
    print(("PASS" if got == "PyXFormError" else "FAIL"), ft, "->", got)
    rc |= got != "PyXFormError"
sys.exit(rc)
