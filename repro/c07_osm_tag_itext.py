from pyxform.xls2xform import convert
import re
md = """
| survey | | | |
| | type | name | label::en |
| | osm building_tags | o | OSM |
| osm | | | |
| | list_name | name | label::en |
| | building_tags | building | Building |
"""
r = convert(md)
refs = set(re.findall(r"jr:itext\('([^']+)'\)", r.xform))
ids = set(re.findall(r'<text id="([^"]+)"', r.xform))
print("dangling:", sorted(refs - ids))
