"""A `bind::nodeset` column (or `control::nodeset` on a repeat) was passed to node() next to the element's own nodeset
keyword -> TypeError 'multiple values for keyword argument'.
Run from a pyxform tree: cd <tree> && /venv/bin/python /verif/repro/c17_nodeset_column.py"""
import os, re, sys
sys.path.insert(0, os.getcwd())
from pyxform.errors import PyXFormError
from pyxform.xls2xform import convert
rc = 0
for desc, md, want in (("bind::nodeset column", """
| survey |
| | type | name | label | bind::nodeset |
| | text | q | Q | /data/other |
""", '<bind nodeset="/data/q"'), ("control::nodeset column on a repeat", """
| survey |
| | type | name | label | control::nodeset |
| | begin repeat | r | R | /data/x |
| | text | q | Q | |
| | end repeat | | | |
""", '<repeat nodeset="/data/r"')):
    try:
        x = convert(xlsform=md, file_type=".md").xform
        got = "ok" if want in x else "converted, but the element's own path is not in the output"
    except PyXFormError:
        got = "ok"
    except Exception as e:  # noqa: BLE001
        got = f"{type(e).__name__}: {e}"
    print("PASS" if got == "ok" else "FAIL", desc, "->", got[:120]); rc |= got != "ok"
sys.exit(rc)
