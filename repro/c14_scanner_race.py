import sys, threading
sys.setswitchinterval(1e-6)
from pyxform.parsing import expression as ex
texts = [f"${{q{i}}} + {i} * (instance('x')/root/item[name = 'v{i}']/label) and something{i}" for i in range(400)]
expected = {}
for t in texts:
    toks, _ = ex._EXPRESSION_LEXER.scan(t) if not hasattr(ex, "_EXPRESSION_LEXER_LOCK") else ex.parse_expression.__wrapped__(t)
    expected[t] = [(k.name, k.start, k.end) for k in toks]
bad = [0]
def work(k):
    for rnd in range(10):
        for t in texts[k::8]:
            toks, _ = ex.parse_expression.__wrapped__(t)
            if [(x.name, x.start, x.end) for x in toks] != expected[t]:
                bad[0] += 1
ths = [threading.Thread(target=work, args=(k,)) for k in range(8)]
[t.start() for t in ths]; [t.join() for t in ths]
print("corrupted scans:", bad[0], "of", 8 * 10 * 50)
