from pyxform.xls2xform import convert
d = {"survey": [{"type": "text", "name": "q", "label": "Q"}],
     "settings": [{"form_id": "a", "id_string": "b"}], "settings_header": [{"form_id": None, "id_string": None}]}
r1 = convert(d); r2 = convert(d)
print(len(r1.warnings), len(r2.warnings)); print(d["settings"])
