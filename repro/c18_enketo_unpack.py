"""Enketo validator wrapper: check_xform / install_ok unpack the PopenResult object as a 4-tuple -> TypeError.
Run from a pyxform tree: cd <tree> && /venv/bin/python /verif/repro/c18_enketo_unpack.py  (exit 0 = defect absent)."""
import os, stat, sys, tempfile
sys.path.insert(0, os.getcwd())
from pyxform.validators import enketo_validate

d = tempfile.mkdtemp()
try:
    fake = os.path.join(d, "validate")
    with open(fake, "w") as f:
        f.write("#!/bin/sh\necho 'Error: bad form' 1>&2\nexit 1\n")
    os.chmod(fake, os.stat(fake).st_mode | stat.S_IEXEC)
    enketo_validate.ENKETO_VALIDATE_PATH = fake
    enketo_validate._call_validator.__defaults__ = (fake,)
    xf = os.path.join(d, "x.xml")
    open(xf, "w").write("<x/>")
    try:
        enketo_validate.check_xform(xf)
        print("FAIL: a rejected form was accepted"); rc = 1
    except enketo_validate.EnketoValidateError as e:
        print("PASS: rejected with EnketoValidateError:", str(e).splitlines()[-1]); rc = 0
    except TypeError as e:
        print("FAIL: TypeError instead of the verdict:", e); rc = 1
    try:
        ok = enketo_validate.install_ok(bin_file_path=fake)
        print("install_ok ->", ok)
        rc = rc or (0 if ok is False else 1)
    except TypeError as e:
        print("FAIL: install_ok TypeError:", e); rc = 1
finally:
    import shutil; shutil.rmtree(d, ignore_errors=True)
sys.exit(rc)
