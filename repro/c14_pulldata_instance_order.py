import subprocess, sys, hashlib
code = r'''
from pyxform.xls2xform import convert
md = """
| survey | | | | | | |
| | type | name | label | calculation | constraint | relevant |
| | text | q | Q | pulldata('fa', 'x', 'k', 1) | pulldata('fb', 'x', 'k', 1) | pulldata('fc', 'x', 'k', 1) |
"""
r = convert(md)
import re
print(re.findall(r'<instance id="(f.)"', r.xform))
md2 = """
| survey | | | | | |
| | type | name | label::en | hint::en | guidance_hint::en | label::fr |
| | text | q | Q | H | G | Qf |
| | text | q2 | Q2 | | | Q2f |
"""
r = convert(md2)
i = r.xform.index("q:hint"); print(re.findall(r'<value[^>]*>', r.xform[i:i+200]) , hash("x") % 7)
'''
seen = set()
for seed in range(1, 9):
    out = subprocess.run([sys.executable, "-c", code], env={"PYTHONHASHSEED": str(seed), "PATH": "/usr/bin"}, capture_output=True, text=True)
    print(seed, out.stdout.strip().replace("\n", " | "), out.stderr[-200:])
