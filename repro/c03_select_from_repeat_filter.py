"""select_one ${name} (choices from a repeat) with a choice_filter: the repeat's path was replaced by '.' with
str.replace, so a reference whose path merely STARTS WITH the repeat's path as a string was mangled
(/data/rep_other -> ._other, /data/rep2/z -> .2/z).
Run from a pyxform tree: cd <tree> && /venv/bin/python /verif/repro/c03_select_from_repeat_filter.py"""
import os, re, sys
sys.path.insert(0, os.getcwd())
from pyxform.xls2xform import convert

MD = """
| survey |
| | type | name | label | choice_filter |
| | integer | rep_other | Other | |
| | begin repeat | rep | Rep | |
| | text | name | Name | |
| | integer | age | Age | |
| | end repeat | | | |
| | begin repeat | rep2 | Rep2 | |
| | text | z | Z | |
| | select_one ${name} | pick2 | Pick 2 | ${z} = ${name} |
| | end repeat | | | |
| | select_one ${name} | pick | Pick | ${rep_other} = 1 and ${age} > 18 |
"""
x = convert(xlsform=MD, file_type=".md").xform
ns = re.findall(r'<itemset nodeset="([^"]*)"', x)
print(ns)
bad = [n for n in ns if "._other" in n or ".2/z" in n]
ok = any("/data/rep_other" in n and "./age" in n for n in ns)
print("FAIL" if bad or not ok else "PASS")
sys.exit(1 if bad or not ok else 0)
