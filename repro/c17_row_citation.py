from pyxform.xls2xform import convert
from pyxform.errors import PyXFormError
def form(typ, params, extra_cols="", extra_vals="", choices=""):
    return f"""
| survey | | | | | {extra_cols}
| | type | name | label | parameters | {extra_cols}
| | text | q0 | Q0 | | {extra_vals}
| | {typ} | {"audit" if typ == "audit" else "q1"} | Q1 | {params} | {extra_vals}
{choices}
"""
CH = "| choices | | | |\n| | list_name | name | label |\n| | l | a | A |\n| | l | b c | B |\n"
cases = {
 "geopoint warning-accuracy=abc": form("geopoint", "warning-accuracy=abc"),
 "geopoint capture-accuracy=abc": form("geopoint", "capture-accuracy=abc"),
 "geopoint allow-mock-accuracy=maybe": form("geopoint", "allow-mock-accuracy=maybe"),
 "audio quality=foo": form("audio", "quality=foo"),
 "background-audio quality=foo": form("background-audio", "quality=foo"),
 "photo max-pixels=abc": form("photo", "max-pixels=abc"),
 "select seed without randomize": form("select_one l", "seed=1", choices=CH.replace("b c", "bc")),
 "select seed=abc": form("select_one l", "randomize=true seed=abc", choices=CH.replace("b c", "bc")),
 "select randomize=maybe": form("select_one l", "randomize=maybe", choices=CH.replace("b c", "bc")),
 "select_multiple choice name with space": form("select_multiple l", "", choices=CH),
 "audit partial location": form("audit", "location-priority=balanced"),
 "audit max-age < min-interval": form("audit", "location-priority=balanced location-min-interval=10 location-max-age=5"),
 "audit max-age=-1": form("audit", "location-priority=balanced location-min-interval=10 location-max-age=-1"),
 "audit max-age=x": form("audit", "location-priority=balanced location-min-interval=10 location-max-age=x"),
 "audit min-interval=-1": form("audit", "location-priority=balanced location-min-interval=-1 location-max-age=5"),
 "audit min-interval=x": form("audit", "location-priority=balanced location-min-interval=x location-max-age=5"),
 "audit location-priority=foo": form("audit", "location-priority=foo location-min-interval=1 location-max-age=5"),
 "audit track-changes=maybe": form("audit", "track-changes=maybe"),
 "audit identify-user=maybe": form("audit", "identify-user=maybe"),
 "audit track-changes-reasons=foo": form("audit", "track-changes-reasons=foo"),
 "parameters without '='": form("text", "rows"),
 "unknown parameter": form("text", "foo=1"),
 "range start=abc": form("range", "start=abc"),
 "range unknown parameter": form("range", "foo=1"),
}
for name, md in cases.items():
    try:
        convert(md); print(f"{name}: CONVERTED?!")
    except PyXFormError as e:
        m = str(e).replace("\n", " ")
        print(f"{name}: cites row: {'[row :' in m} | {m[:80]}")
    except Exception as e:
        print(f"{name}: {type(e).__name__} {e}")
