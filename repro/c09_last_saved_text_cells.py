#!/usr/bin/env python3
"""C09.R4 known finding: ${last-saved#name} written in a text cell (label, hint, constraint message, instance::
attribute) is expanded to instance('__last-saved')/..., but the __last-saved instance is only declared when the
reference sits in default / choice_filter / a logic bind (or, since 736e43f, a group's relevant / repeat_count).
Run: /venv/bin/python repro/c09_last_saved_text_cells.py   (prints one line per cell kind)"""
import os, sys
sys.path.insert(0, os.environ.get("PYXFORM_REPO", "/repo"))
from pyxform.xls2xform import convert

for col, val in (("label", "Last time: ${last-saved#a}"), ("hint", "was ${last-saved#a}"), ("constraint_message", "not ${last-saved#a}"), ("instance::x", "${last-saved#a}")):
    if col == "label":
        md = f"| survey |\n| | type | name | label |\n| | text | a | A |\n| | text | b | {val} |\n"
    else:
        md = f"| survey |\n| | type | name | label | {col} |\n| | text | a | A | |\n| | text | b | B | {val} |\n"
    x = convert(xlsform=md, file_type=".md").xform
    print(f"{col:20s} references instance('__last-saved'): {'instance(' + chr(39) + '__last-saved' in x}   declares it: {'id=' + chr(34) + '__last-saved' in x}")
