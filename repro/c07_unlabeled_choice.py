"""C07: a choice with no label inside a translated list keeps its itextId but gets no <text> entry.
Run from a pyxform tree root."""
import os, re, sys
sys.path.insert(0, os.getcwd())
from pyxform.xls2xform import convert
md = """
| survey | | | | |
| | type | name | label::en | label::fr |
| | select_one l | q | Q | Qf |
| choices | | | | |
| | list_name | name | label::en | label::fr |
| | l | a | A | Af |
| | l | b |  |  |
"""
x = convert(md).xform
items = set(re.findall(r"<itextId>(.*?)</itextId>", x))
texts = set(re.findall(r'<text id="(l-[0-9]+)">', x))
print("itextIds", sorted(items), "text ids", sorted(texts))
sys.exit(0 if items <= texts else 1)
