from pyxform.xls2xform import convert
md = """
| survey | | | |
| | type | name | label |
| | text | q | Q |
| | select_one c | s | instance('c')/root/item[v < ${q} and n = 'a&b']/label |
| choices | | | | |
| | list_name | name | label | v |
| | c | x | X | 1 |
"""
r = convert(md)
import re
print([l for l in re.findall(r'<output[^>]*>', r.xform)])
md2 = """
| survey | | | |
| | type | name | label |
| | text | q | Q |
| | select_one c | s | S |
| choices | | | | |
| | list_name | name | label | media::a<b |
| | c | x | X | x${q}.png |
"""
try:
    r = convert(md2); print('converted'); print(re.findall(r'<value[^>]*>[^<]*', r.xform))
except Exception as e:
    print(type(e).__name__, str(e)[:100])
