"""clean_text_values = no: the choices checks read option['__row'], which only the text cleaner wrote -> KeyError.
Run from a pyxform tree: cd <tree> && /venv/bin/python /verif/repro/c17_choices_row_numbers.py (exit 0 = defect absent)."""
import os, sys
sys.path.insert(0, os.getcwd())
from pyxform.errors import PyXFormError
from pyxform.xls2xform import convert

BASE = """
| survey |
| | type | name | label |
| | select_one l | q | Q |
| choices |
| | list_name | name | label |
| | l | a | A |
{row}
| settings |
| | clean_text_values |
| | no |
"""
rc = 0
for desc, row, want in (("choice without a name", "| | l |   | B |", "error"), ("repeated name", "| | l | a | B |", "error"), ("choice without a label", "| | l | b |  |", "warning")):
    try:
        r = convert(xlsform=BASE.format(row=row), file_type=".md")
        got = "warning" if any("[row : 3]" in w for w in r.warnings) else "accepted"
    except PyXFormError as e:
        got = "error" if "[row : 3]" in str(e) else f"error without row: {e}"
    except Exception as e:  # noqa: BLE001
        got = f"{type(e).__name__}: {e}"
    print(("PASS" if got == want else "FAIL"), desc, "->", got)
    rc |= got != want
sys.exit(rc)
