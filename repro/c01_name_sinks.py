from pyxform.xls2xform import convert
from xml.dom.minidom import parseString
import xml.parsers.expat as ex
def t(name, md):
    try:
        r = convert(md)
    except Exception as e:
        print(name, '-> conversion error', type(e).__name__, str(e)[:80]); return
    try:
        parseString(r.xform.encode()); print(name, '-> parses OK')
    except Exception as e:
        print(name, '-> OUTPUT NOT WELL-FORMED:', type(e).__name__, str(e)[:60])
t('choice column', """
| survey | | | |
| | type | name | label |
| | select_one l | q | Q |
| choices | | | | |
| | list_name | name | label | a&b |
| | l | x | X | 1 |
""")
t('bind::', """
| survey | | | | |
| | type | name | label | bind::a b |
| | text | q | Q | 1 |
""")
t('control::', """
| survey | | | | |
| | type | name | label | control::a b |
| | text | q | Q | 1 |
""")
t('control::tag', """
| survey | | | | |
| | type | name | label | control::tag |
| | text | q | Q | x y |
""")
t('instance::', """
| survey | | | | |
| | type | name | label | instance::a b |
| | text | q | Q | 1 |
""")
t('instance:: group', """
| survey | | | | |
| | type | name | label | instance::a b |
| | begin group | g | G | 1 |
| | text | q | Q | |
| | end group | | | |
""")
t('attribute::', """
| survey | | | |
| | type | name | label |
| | text | q | Q |
| settings | | |
| | attribute::a b |
| | 1 |
""")
t('namespaces', """
| survey | | | |
| | type | name | label |
| | text | q | Q |
| settings | | |
| | namespaces |
| | a&b="http://x" |
""")
t('action::name', """
| survey | | | | |
| | type | name | label | action::name |
| | text | q | Q | x y |
""")
t('action::k', """
| survey | | | | |
| | type | name | label | action::a b |
| | background-audio | q | Q | 1 |
""")
t('repeat control::', """
| survey | | | | |
| | type | name | label | control::a b |
| | begin repeat | g | G | 1 |
| | text | q | Q | |
| | end repeat | | | |
""")
t('group control::', """
| survey | | | | |
| | type | name | label | control::a b |
| | begin group | g | G | 1 |
| | text | q | Q | |
| | end group | | | |
""")
t('C0 control', "| survey | | | |\n| | type | name | label |\n| | text | q | A\x01B |\n")
