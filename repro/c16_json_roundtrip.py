import json
from pyxform.xls2xform import convert
from pyxform.builder import create_survey_element_from_dict
md = """
| survey | | | | |
| | type | name | label | relevant |
| | text | a | A | |
| | begin group | g | G | ${a} = 'x' |
| | select_one l | s | S | |
| | end group | | | |
| choices | | | | |
| | list_name | name | label | region |
| | l | x | X | r1 |
"""
r = convert(md)
d = json.loads(json.dumps(r._survey.to_json_dict()))
x2 = create_survey_element_from_dict(d).to_xml(validate=False, pretty_print=False)
print("group bind kept:", 'nodeset="/data/g"' in r.xform, "->", 'nodeset="/data/g"' in x2)
print("choice extra column kept:", "<region>" in r.xform, "->", "<region>" in x2)
md2 = """
| survey | | | | |
| | type | name | label | appearance |
| | select_one l | s | S | search('fruits') |
| choices | | | |
| | list_name | name | label |
| | l | name_col | label_col |
"""
r = convert(md2)
try:
    create_survey_element_from_dict(json.loads(json.dumps(r._survey.to_json_dict())))
    print("search select reload ok")
except Exception as e:
    print("search select reload:", type(e).__name__, e)
