"""A column of the form named like a keyword the builder passes next to **row made Python raise TypeError
('got multiple values for keyword argument'): a choice list with a `type` column used by `begin loop over`, and a survey
column named question_type_dictionary.
Run from a pyxform tree: cd <tree> && /venv/bin/python /verif/repro/c17_keyword_collisions.py"""
import os, sys
sys.path.insert(0, os.getcwd())
from pyxform.errors import PyXFormError
from pyxform.xls2xform import convert
FORMS = {"loop over a list that has a `type` column": """
| survey |
| | type | name | label |
| | begin loop over l | lp | Loop |
| | text | q | Q %(label)s |
| | end loop | | |
| choices |
| | list_name | name | label | type |
| | l | a | A | big |
""", "survey column named question_type_dictionary": """
| survey |
| | type | name | label | question_type_dictionary |
| | text | q | Q | abc |
"""}
rc = 0
for desc, md in FORMS.items():
    try:
        convert(xlsform=md, file_type=".md"); got = "converted"
    except PyXFormError: got = "PyXFormError"
    except Exception as e: got = f"{type(e).__name__}: {e}"  # noqa: BLE001
    ok = got in ("converted", "PyXFormError")
    print("PASS" if ok else "FAIL", desc, "->", got[:120]); rc |= not ok
sys.exit(rc)
