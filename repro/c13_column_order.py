"""C13 (also C08): a translated column placed BEFORE the unsuffixed column of the same field loses the translation.
Run from a pyxform tree root:  python /verif/repro/c13_column_order.py"""
import os, sys
sys.path.insert(0, os.getcwd())
from pyxform.xls2xform import convert
A = """
| survey | | | | |
| | type | name | label | label::French (fr) |
| | text | q1 | Hello | Bonjour |
"""
B = """
| survey | | | | |
| | type | name | label::French (fr) | label |
| | text | q1 | Bonjour | Hello |
"""
xa, xb = convert(A).xform, convert(B).xform
print("order label, label::French (fr): Bonjour in output:", "Bonjour" in xa)
print("order label::French (fr), label: Bonjour in output:", "Bonjour" in xb)
sys.exit(0 if ("Bonjour" in xa) == ("Bonjour" in xb) else 1)
