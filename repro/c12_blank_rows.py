from pyxform.xls2xform import convert
import openpyxl, io
rows = [["type", "name", "label"], ["text", "q1", "Q1"], [None, None, None], ["begin group", "g", None], ["text", "q2", "Q2"], ["end group", None, None]]
wb = openpyxl.Workbook(); ws = wb.active; ws.title = "survey"
for r in rows: ws.append(r)
b = io.BytesIO(); wb.save(b)
md = "| survey |\n| | type | name | label |\n| | text | q1 | Q1 |\n| | | | |\n| | begin group | g | |\n| | text | q2 | Q2 |\n| | end group | | |\n"
csv = 'survey\n,type,name,label\n,text,q1,Q1\n,,,\n,begin group,g,\n,text,q2,Q2\n,end group,,\n'
for name, data, ft in (("xlsx", b.getvalue(), ".xlsx"), ("md", md, ".md"), ("csv", csv, ".csv")):
    r = convert(data, file_type=ft)
    print(name, [w[:12] for w in r.warnings if "no label" in w])
