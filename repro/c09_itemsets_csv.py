import subprocess, sys
code = r'''
from pyxform.xls2xform import convert
md = """
| survey | | | | |
| | type | name | label | choice_filter |
| | text | region | R | |
| | select_one_external states | s | S | region=${region} |
| choices | | | |
| | list_name | name | label |
| | x | a | A |
| external_choices | | | | |
| | list_name | name | label | region |
| | states | a | A | r1 |
| | states | b | | r2 |
"""
r = convert(md)
print(r.itemsets.replace("\r\n", " / "))
d = {"survey": [{"type": "text", "name": "region", "label": "R"}, {"type": "select_one_external states", "name": "s", "label": "S", "choice_filter": "region=${region}"}],
     "external_choices": [{"list_name": "states", "name": "a", "label": "A", "region": "r1"}]}
r = convert(d)
print(r.itemsets.replace("\r\n", " / "))
'''
outs = {}
for seed in range(1, 8):
    out = subprocess.run([sys.executable, "-c", code], env={"PYTHONHASHSEED": str(seed), "PATH": "/usr/bin"}, capture_output=True, text=True)
    outs.setdefault(out.stdout.strip() + out.stderr[-300:], []).append(seed)
for k, v in outs.items():
    print(v); print(k)
