import subprocess, sys
code = r'''
from pyxform.xls2xform import convert
import re
md2 = """
| survey | | | | | | |
| | type | name | label::en | hint::en | guidance_hint::en | label::fr |
| | text | q | Q | H | G | Qf |
"""
r = convert(md2)
fr = r.xform[r.xform.index('lang="fr"'):]
i = fr.index("q:hint"); print(re.findall(r'<value[^>]*>', fr[i:i+120]))
'''
outs = {}
for seed in range(1, 12):
    out = subprocess.run([sys.executable, "-c", code], env={"PYTHONHASHSEED": str(seed), "PATH": "/usr/bin"}, capture_output=True, text=True)
    outs.setdefault(out.stdout.strip(), []).append(seed)
for k, v in outs.items():
    print(v, k)
print("DETERMINISTIC" if len(outs) == 1 else "SEED-DEPENDENT")
