"""A date / dateTime / geo default whose expression has the hyphen BEFORE the call or reference ('1 - today()') was
classified static: the expression text was written into the instance as literal content and no setvalue was emitted.
Run from a pyxform tree: cd <tree> && /venv/bin/python /verif/repro/c10_hyphen_before_call.py"""
import os, re, sys
sys.path.insert(0, os.getcwd())
from pyxform.xls2xform import convert
MD = """
| survey |
| | type | name | label | default |
| | integer | n | N | |
| | date | d1 | D1 | today() - 1 |
| | date | d2 | D2 | 1 - today() |
| | dateTime | d3 | D3 | 3600 - now() |
| | date | d4 | D4 | 2022-03-14 |
"""
x = convert(xlsform=MD, file_type=".md").xform
rc = 0
for name, dyn in (("d1", True), ("d2", True), ("d3", True), ("d4", False)):
    literal = re.search(rf"<{name}>([^<]*)</{name}>", x)
    has_sv = re.search(rf'<setvalue [^>]*ref="/data/{name}"', x) is not None
    ok = (has_sv and literal is None) if dyn else (literal is not None and not has_sv)
    print("PASS" if ok else "FAIL", name, "literal:", literal.group(1) if literal else None, "setvalue:", has_sv)
    rc |= not ok
sys.exit(rc)
