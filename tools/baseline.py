#!/usr/bin/env python3
"""Run the pinned suite in /repo and compare with /root/.vp/BASELINE.json's stable_pass list."""
import json, subprocess, sys, tempfile, os
import xml.etree.ElementTree as ET

repo = sys.argv[1] if len(sys.argv) > 1 else "/repo"
base = json.load(open("/root/.vp/BASELINE.json"))
want = set(base["stable_pass"])
with tempfile.TemporaryDirectory() as d:
    out = os.path.join(d, "j.xml")
    subprocess.run(["/venv/bin/python", "-m", "pytest", "-ra", "-q", "-p", "no:cacheprovider", "--timeout=900",
                    "--continue-on-collection-errors", f"--junitxml={out}"], cwd=repo, stdout=subprocess.DEVNULL, stderr=subprocess.DEVNULL)
    passed = set()
    for tc in ET.parse(out).getroot().iter("testcase"):
        if not any(ch.tag in ("failure", "error", "skipped") for ch in tc):
            passed.add(f"{tc.get('classname')}::{tc.get('name')}")
missing = sorted(want - passed)
print(f"stable_pass={len(want)} passed_now={len(passed)} missing={len(missing)}")
for m in missing[:20]:
    print("  NOT PASSING:", m)
sys.exit(1 if missing else 0)
