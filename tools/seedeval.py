#!/usr/bin/env python3
"""Run every check against every independently seeded change under /verif/seeded (and, with --benign DIR, against
behaviour-preserving patches, which must stay silent).  The patch is applied to a scratch copy of /repo's pyxform
package under $TMPDIR (never to /repo); the copy is removed straight afterwards.

usage: tools/seedeval.py [--only C01_a1,...] [--benign /tmp/benign_out] [--props C01,C02]
writes seeded/RESULTS.json (or prints only, for --benign)
"""
import argparse
import json
import os
import shutil
import subprocess
import sys
import tempfile
from concurrent.futures import ThreadPoolExecutor

HERE = os.path.dirname(os.path.dirname(os.path.abspath(__file__)))
sys.path.insert(0, HERE)
PY = sys.executable
ALL_PROPS = sorted(f[:-3].upper() for f in os.listdir(os.path.join(HERE, "sa", "checks")) if f.startswith("c") and f.endswith(".py"))


def make_copy(patch):
    d = tempfile.mkdtemp(prefix="pyxform-sa-ext-")
    shutil.copytree("/repo/pyxform", os.path.join(d, "pyxform"), ignore=shutil.ignore_patterns("__pycache__", "*.jar"))
    if os.path.exists("/repo/pyproject.toml"):
        shutil.copy("/repo/pyproject.toml", d)
    r = subprocess.run(["patch", "-p1", "-s", "-d", d, "-i", patch], capture_output=True, text=True)
    if r.returncode != 0:
        shutil.rmtree(d, ignore_errors=True)
        return None, r.stdout[-300:] + r.stderr[-300:]
    return d, ""


def run_check(prop, d):
    ev = os.path.join(d, "_evidence_" + prop)
    env = dict(os.environ, VERIF_EVIDENCE_DIR=ev, VERIF_TIER="quick")
    r = subprocess.run([PY, "-B", "-m", "sa.run", prop, "--tier", "quick", "--repo", d], cwd=HERE, env=env, capture_output=True, text=True, timeout=900)
    viol = []
    vp = os.path.join(ev, f"{prop}.violations.json")
    if os.path.exists(vp):
        for o in json.load(open(vp))["violations"]:
            viol.append({"rule": o["rule"], "construct": o["construct"], "what": o["what"][:300], "loc": o.get("loc", "")})
    return r.returncode, viol, r.stdout[-600:]


def main():
    ap = argparse.ArgumentParser()
    ap.add_argument("--only", default="")
    ap.add_argument("--benign", default="")
    ap.add_argument("--props", default="")
    args = ap.parse_args()
    props = [p for p in args.props.split(",") if p] or ALL_PROPS
    base = args.benign or os.path.join(HERE, "seeded")
    names = sorted(n for n in os.listdir(base) if os.path.exists(os.path.join(base, n, "patch.diff")))
    if args.only:
        names = [n for n in names if n in args.only.split(",")]
    copies = {}
    for n in names:
        d, err = make_copy(os.path.join(base, n, "patch.diff"))
        if d is None:
            print(f"{n}: patch does not apply to /repo's current tree: {err}")
            continue
        copies[n] = d
    results = {n: {} for n in copies}
    try:
        with ThreadPoolExecutor(max_workers=16) as ex:
            futs = {(n, p): ex.submit(run_check, p, d) for n, d in copies.items() for p in props}
            for (n, p), f in futs.items():
                code, viol, tail = f.result()
                if code != 0:
                    results[n][p] = {"exit": code, "violations": viol, **({"tail": tail} if code == 2 else {})}
    finally:
        for d in copies.values():
            shutil.rmtree(d, ignore_errors=True)
    caught = 0
    for n in sorted(results):
        r = results[n]
        hits = {p: sorted({v["rule"] for v in x["violations"]}) for p, x in r.items() if x["exit"] == 1}
        errs = [p for p, x in r.items() if x["exit"] == 2]
        own = n.split("_")[0]
        status = "caught" if hits else ("ANALYSIS-ERROR" if errs else "silent")
        if hits:
            caught += 1
        print(f"{n:22s} {status:15s} {json.dumps(hits) if hits else ''} {'errors=' + ','.join(errs) if errs else ''}"
              + ("" if not hits or own in hits or args.benign else "   (only by other properties' checks)"))
    print(f"{'flagged' if args.benign else 'caught'} {caught}/{len(results)}")
    if not args.benign and not args.only and not args.props:
        json.dump(results, open(os.path.join(base, "RESULTS.json"), "w"), indent=1, sort_keys=True)
    return 0


if __name__ == "__main__":
    sys.exit(main())
