#!/usr/bin/env python3
"""Freeze the local-variable signatures of the tree the rules were written against (sa/roles.json).
Run against the pinned /repo HEAD only:  tools/gen_roles.py [/repo]"""
import json, os, sys
HERE = os.path.dirname(os.path.dirname(os.path.abspath(__file__)))
sys.path.insert(0, HERE)
from sa.loader import Repo
from sa.roles import TABLE, build_table
repo = Repo(sys.argv[1] if len(sys.argv) > 1 else "/repo")
t = build_table(repo)
json.dump(t, open(TABLE, "w"), indent=0, sort_keys=True)
print(TABLE, len(t), "functions", sum(len(v) for v in t.values()), "locals")
