#!/usr/bin/env python3
"""Run checks against a scratch copy of /repo's package with one `fix:` commit reverted (the defect 'returns'):
the named checks must report it again.  usage: tools/revcheck.py <commit> C17[,C20...]
The copy lives under $TMPDIR and is removed afterwards; /repo is never touched."""
import json, os, shutil, subprocess, sys, tempfile
HERE = os.path.dirname(os.path.dirname(os.path.abspath(__file__)))
commit, props = sys.argv[1], sys.argv[2].split(",")
d = tempfile.mkdtemp(prefix="pyxform-sa-rev-")
try:
    shutil.copytree("/repo/pyxform", os.path.join(d, "pyxform"), ignore=shutil.ignore_patterns("__pycache__", "*.jar"))
    shutil.copy("/repo/pyproject.toml", d)
    diff = subprocess.run(["git", "-C", "/repo", "show", "--format=", commit, "--", "pyxform"], capture_output=True, text=True).stdout
    r = subprocess.run(["patch", "-R", "-p1", "-s", "-d", d], input=diff, capture_output=True, text=True)
    if r.returncode:
        print("revert failed:", r.stdout, r.stderr); sys.exit(2)
    for p in props:
        ev = os.path.join(d, "_ev_" + p)
        env = dict(os.environ, VERIF_EVIDENCE_DIR=ev, VERIF_TIER="quick")
        r = subprocess.run([sys.executable, "-B", "-m", "sa.run", p, "--tier", "quick", "--repo", d], cwd=HERE, env=env, capture_output=True, text=True)
        print(p, "exit", r.returncode)
        vp = os.path.join(ev, f"{p}.violations.json")
        if os.path.exists(vp):
            for o in json.load(open(vp))["violations"]:
                print("   ", o["rule"], o["construct"][:100], "|", o["what"][:120])
        elif r.returncode:
            print(r.stdout[-800:])
finally:
    shutil.rmtree(d, ignore_errors=True)
