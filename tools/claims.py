"""What MANIFEST.json claims, per property (edited by hand; tools/gen_manifest.py writes the manifest)."""

NOTE_COMMON = ("Trusted base: CPython's ast module; the engine's own CFG construction and abstract evaluator; the curated "
               "stdlib facts listed in DESIGN.md §2.5. Decides the named structural clauses for every input; value-level "
               "behaviour is NOT decided (see the evidence file's not_decided).")

CLAIMS = {
    "C01": {
        "technique": "construction-site census + provenance of XML names; abstract skeleton tree; writer path language",
        "text": "Static analysis, sound for the named clauses: every program-written prefix is declared; no author text reaches an element/attribute name position except at the recorded known findings; the html/head/title/model/body skeleton and model child order hold on every path of Survey.xml/xml_model; the root always carries the form id; the element writer's write language is balanced. These are necessary conditions for well-formedness of every output, which no finite test sample establishes. Also: each prefix of the author's namespaces setting is declared whatever its URI (evaluated table); an element is constructed only by the factory and only from its tag argument (constructor census); the text writer writes the escaper's own result (nothing rewritten after escaping); choice headers other than blank / spaced ones are kept. Round d: is_xml_tag evaluated on names around the edges of the Name production; the standard namespace prefixes (ev, xsd, jr, orx, odk) are always bound.",
        "note": NOTE_COMMON,
    },
    "C02": {
        "technique": "provenance of nodeset/ref (single path source); class table; who-may-write of cache/parent/name/children; must-call dominance of validation; abstract evaluation of the uniqueness checks",
        "text": "Static analysis: every bind/control/repeat/setvalue/action path attribute is get_xpath() of the element that builds the instance node; every element class the builder can place builds an instance node named after itself or is skipped and emits no bind; the xpath cache has a closed set of writers and is reset on re-parenting; validate() dominates generation and must-calls the sibling/section uniqueness checks, which reject equal and case-different names on the abstract name domain. Also: the builder retains no element it has built (no memoised sections: an element has one parent link but sits in every children list it was added to). Round d: trees with groups / repeats without rows.",
        "note": NOTE_COMMON,
    },
    "C03": {
        "technique": "sanitizer-dominance of the reference substituter; check-before-use dominance; regex syntax tree vs group use",
        "text": "PARTIAL. Decides: every reference-bearing field reaches XML only through insert_xpaths/insert_output_values (reasoned exceptions checked); unknown/ambiguous names raise before any map read; top-level decision of the replacement function (unknown, ambiguous, last-saved, relative, absolute) by abstract evaluation; regex groups vs consumers; last-saved id/URI agreement; current() requested exactly at predicates. NOT decided: that the relative path computed by share_same_repeat_parent/_relative_path reaches the target (value-level tree arithmetic). Also, on the bounded trees: the reference inside arithmetic, twice in one expression, inside a predicate over a secondary instance (id in single / double quotes / padded -> current()), as ${last-saved#x}, and before / between / after indexed-repeat() calls resolves as the bare reference does. Round d: each reference pattern matches a reference to every kind of valid name; the substitution context of every call in an element method is the element itself (accepted table of 4).",
        "note": NOTE_COMMON,
    },
    "C04": {
        "technique": "dataflow over the row-loop CFG (append-sequence lattice); stack typestate by dominance; table exhaustiveness; folded type table vs independent spec table",
        "text": "PARTIAL. Decides: on every path of the row loop a row is appended exactly once (helpers in documented position), skip paths are the documented ones; begin/end frames alias the group's children list and pops are dominated by the match check; children/choices are traversed in list order; all 112 types map to a class whose control-building matches its tag; the type table equals an independent XLSForm spec table; parameter wiring and allowed-parameter tuples equal the spec. NOT decided: run-time nesting of arbitrary interleavings beyond the discipline; loop expansion. Also: the row-loop prologue (disabled column in every truth spelling, empty rows, comment rows, rows without type) and the table-list label helper are evaluated as blocks over their documented shapes; Question.xml_control over all 32 type x calculation x trigger x label x hint combinations; the 28 metadata (preload) types against an independent table; rows handed to the loop are fresh dicts. Round d: photo / audio / background-audio / geopoint branches evaluated as blocks (parameter subsets x existing bind / control); the meta block tail evaluated through the final return with audit / entity (C04.R8).",
        "note": NOTE_COMMON,
    },
    "C05": {
        "technique": "folded alias/conversion tables vs spec; abstract evaluation of xml_bindings as a key-preserving map; alias analysis of the type table",
        "text": "PARTIAL. Decides: column aliases target the prescribed bind attribute; xml_bindings emits exactly one bind on the row's own xpath with exactly the row's keys, values = substituter(original | converted truth value | itext redirect), over representative bind dicts; conversion tables; type-table defaults are copied before merging; parameter->bind wiring. NOT decided: placement of cell values under nested keys by process_row/merge_dicts. Also: no function on the way from header grouping to the JSON form deletes a cell from a row (accepted table of 7 deletions); the type table's preload binds equal an independent table; a question's values never leak into the shared type table (two constructions in one evaluator state). Round d: the same branch evaluation for parameter-derived bind attributes.",
        "note": NOTE_COMMON,
    },
    "C06": {
        "technique": "string typestate raw/escaped/markup; who-may-assemble-markup census; flag/text tuple correlation; abstract evaluation of the substituter and the node factory",
        "text": "Static typestate analysis: markup is assembled from strings only at five confirmed roles; the parse flag and the text are the two halves of one insert_output_values call at every site; insert_output_values escapes before substituting and returns only (markup,True)/(argument,False); the text writer escapes; the escaper table is the XML one and single-pass; no escaped value reaches an escaping sink except the recorded finding; the node factory parses text only under flag True. Also: static defaults (23 adversarial texts: quoted, markup-like, entity-like, padded) are the instance node's and the repeat template's content character for character; the text writer's written value is the escaper's own result. Round d: a text normalised / transformed before escaping is not the cell text (derived values); sparse extra choice columns in all 24 row orders.",
        "note": NOTE_COMMON,
    },
    "C07": {
        "technique": "emit=>register decision tables by finite-domain abstract evaluation; must-call order; sentinel and id-format agreement; traversal coverage",
        "text": "PARTIAL. Decides, exhaustively over label x media x hint x guidance (320 combinations for questions, 20 each for groups and repeats) and 48 message combinations: every jr:itext id emitted by the body/bind emitters is registered by the collectors; padding gives every language every id and form and runs before serialisation; one translation per language with the default marked once; choice ids agree across instance, registration and search redirect. NOT decided: text content per language (C08). Also: emit => register on whole trees with the real traversals and path function (names repeated across groups, media-only labels); in-line items of a search() select reference itext exactly when the list's texts are registered. Round d: bind messages for groups, repeats, osm and select elements; unsuffixed messages with references filed under the survey's default language; mixed plain / translated labels in a search() list.",
        "note": NOTE_COMMON,
    },
    "C08": {
        "technique": "bounded-exhaustive abstract evaluation of the text-to-language mapping functions (question display texts, choice id enumeration, padder over 256 presence patterns, header grouping over column permutations, default-language resolution)",
        "text": "PARTIAL, and the property itself is NOT decided: C08 is a value-level bijection over every workbook. Decides five necessary conditions exhaustively over small enumerated domains: every text a question carries is filed under its own language or written inline (320 label x media x hint x guidance shapes); each choice finds its own label under the id its item carries, also around an unlabelled choice; the padder writes '-' exactly where nothing was written and touches nothing else (all 256 presence patterns of 2 languages x 2 ids x 2 forms); the language a cell lands under does not depend on column order (every permutation of mixed plain/translated/nested column sets); unsuffixed cells are grouped under the very language the survey marks as default (setting x argument combinations). Breaking one of these shows some language another text or none; holding all of them does not prove the property. Also: loop templates are filled per language with that language's choice label (4 cases); texts are collected afresh on every render of the same survey object (render - edit - render); a header-less spacer column does not shift cells under another language's header. Round d: shares the default-language filing and the search() item obligations.",
        "note": NOTE_COMMON,
    },
    "C09": {
        "technique": "order-preserving-flow and per-item emission by abstract evaluation; instance de-duplication table; URI convention table; receiver-field provenance of the itemset; writer/reader agreement of itemsets.csv",
        "text": "PARTIAL. Decides on representative rows: grouping / cleaning / Itemset construction keep order, size and duplicates; each choice item emits [itextId] name [label] extras in column order; instances are declared once per (id, URI), clashes raise, search-only lists are inline, choices come last; every producer's URI follows the jr:// convention; the select control reads its own list/filter/randomize/seed/value/label (11 variants) and the external query its own; or_other literals; itemsets.csv writes every cell under its own header. NOT decided: grouping of arbitrary sheets at run time. Also: choice-filter predicates of selects and external selects ask for current()-prefixed paths; itemsets.csv loses no cell under alias spellings of the list column; the itemsets decision finds an external select at any depth; extra choice columns with non-ASCII / dotted / dashed headers are kept. Round d: the choices mapping is threaded through every recursive builder call; two files with one stem are rejected; sparse extra columns.",
        "note": NOTE_COMMON,
    },
    "C11": {
        "technique": "slot->sink wiring by abstract evaluation with one symbol per setting; alias table; evaluation of the defaults / meta slices of workbook_to_json over presence combinations; def-use of the fallback name; sibling call-site agreement for default_language",
        "text": "PARTIAL. Decides: every setting lands in exactly its own output position (title, style, id, version, xmlns, prefix, delimiter, attribute::, the 16 submission combinations); settings aliases; documented defaults and 'settings override defaults' over 48 combinations; instanceID/instanceName/omit_instanceID/public_key over 64 combinations; fallback form name from the file stem; default_language plumbing. NOT decided: verbatim survival of arbitrary values through text cleaning. Also: the legacy reader entry point reads by path when it has one (file-name fallback for id / title); author namespaces declared whatever their URI. Round d: settings headers written with capitals / spaces are read as their own setting (column set of the call site evaluated); the meta tail with audit / entity.",
        "note": NOTE_COMMON,
    },
    "C12": {
        "technique": "sibling cross-check of the four container backends (feature vectors by abstract evaluation); writer/reader schema agreement with DefinitionData; empty-run scanners at their limits; dispatch exhaustiveness",
        "text": "PARTIAL, and the headline clause is NOT decided: equality of outputs across containers is value-level. Decides the structural agreement of the pyxform-side adapters: result keys are DefinitionData fields; all four backends lower-case, filter, fall back, record names, emit headers alike (blank-row handling differs: recorded finding); typed-cell normalisers agree on every value class; runs of <=20 empty columns / <=60 empty rows never truncate; every input kind of convert() is dispatched and normalised to BytesIO. Also: processors are tried with the csv reader last (it refuses nothing with commas); the dict channel keeps every DefinitionData field including the *_header rows; header-less spacer columns; Markdown sheets without rows and rows longer than the header; typed header cells. Round d: the caller's explicit file_type wins; '#' inside a Markdown cell is cell text; nothing on the file-reading path is memoised; text without a Markdown table is refused by the Markdown reader.",
        "note": NOTE_COMMON,
    },
    "C13": {
        "technique": "alias closure on folded tables; regex syntax trees and constant folding of the row-type patterns over every documented spelling; abstract evaluation of header normalisation; numbering census",
        "text": "PARTIAL. Decides: each documented equivalence class of spellings maps to one canonical value; RE_BEGIN/END_CONTROL and RE_SELECT accept exactly the alias-table spellings with space or underscore; process_header normalises each documented header shape to the documented tokens and leaves unknown columns untouched; smart quotes / whitespace cleaning on every cleaned sheet; rows are numbered by sheet position with blank rows skipped, not removed. NOT decided: commutation of the normalisations with the whole pipeline. Also: column permutations are evaluated with the default language unset and set (the plain column belongs to the default language in every order). Round d: advisory census (C13.R8); select-from-file spellings by guard evaluation; delimiter choice by evaluation.",
        "note": NOTE_COMMON,
    },
    "C16": {
        "technique": "dump table (abstract evaluation of to_json_dict per class) vs XML-read-set (AST) per class; constructor-field agreement; generation-writes intersect dump",
        "text": "PARTIAL. Decides per element class: every slot read by XML generation survives to_json_dict with the same value or is in the explicit derivable table (two recorded findings: group bind, choice extra_data); dumped keys are constructor fields; constructor defaults are falsy; nothing non-JSON is stored in the intermediate form; generation does not clobber dumped slots (one recorded finding: search-select itemset). NOT decided: byte equality of regenerated XForms. Also: the survey-level dump carries every setting whatever else is set (20 settings x 3 entity-feature states) and the children of every element kind (list and tuple); the builder does not consume the dict it builds from. Round d: dumping leaves the survey's nested dicts untouched and returns a dict computed from the current fields (no stored dump); builder dispatch by evaluation.",
        "note": NOTE_COMMON,
    },
    "C17": {
        "technique": "raise-type census; row-citation dataflow; must-call of validators; guard analysis for a frozen list of implicit-exception shapes (K1, K2, K4, K8)",
        "text": "PARTIAL. Decides: every raise on the conversion path is a PyXFormError (validator path excluded); which row-loop errors are built from the row number (every deviation listed as a finding); validators are on every successful path; four shapes of implicit exceptions are guarded or listed as reproduced findings (8 reproduced internal exceptions). NOT decided: absence of all internal exceptions (undecidable in general). Also: K11 (a comprehension subscripts a key before the filter that tests for it); K2 is now state-based (None is a state of the slot only if something assigns None); duplicate choice names rejected on every list shape of <= 3 choices; rows without a type rejected / comment rows skipped (row prologue evaluated as a block). Round d: file-name suffix table for select-from-file; K12 sibling traversals skip ExternalInstance; K4 one finding per function.",
        "note": NOTE_COMMON,
    },
    "C20": {
        "technique": "write-only (non-interference) of the warnings list; guard-scope census; exhaustive abstract evaluation of the translation check over 512 header sets; threshold/constant checks with oracles",
        "text": "PARTIAL. Decides: no library code reads the warnings list (so warnings cannot alter results); each warning's guard governs only the warning (documented exceptions listed); row-level warnings cite the row; the missing-translation map is correct for all 512 subsets of {label,hint,image}x{default,en,fr}; misspelling filter (<=2, exclusions), Levenshtein on reference pairs, IANA check exclusions; wiring and order of the checks. NOT decided: the iff for row-level triggers in arbitrary forms. Also: one warning per unlabeled choice on every list shape of <= 3 choices x allow_choice_duplicates; the deprecated-disabled warning on every truth spelling (row prologue evaluated as a block). Round d: advisory census (C20.R6); exact sheet names are never suggested as misspellings; max-pixels advisory by branch evaluation.",
        "note": NOTE_COMMON,
    },
    "C10": {
        "technique": "complementary guards and placement by abstract evaluation on abstract defaults and small concrete trees; call-site census; tuple-index agreement",
        "text": "PARTIAL. Decides: literal vs setvalue are complementary for every default class and both consult the classifier with (default,type); exactly two placements partitioned by repeat ancestry (evaluated on a tree with nested groups/repeats), with the right events; trigger bookkeeping tuple/map/event agreement and nesting in the triggering control. NOT decided: the lexer's classification of free text. Also: several targets behind one trigger in every order each get their own ref and only their own value; the builder only reads the dict it builds from (a second build sees the same calculation); static defaults verbatim (shared with C06.R13). Round d: select / range classes for the static-dynamic complement; trigger rows with read_only / relevance / appearance; a repeat of hidden rows keeps its body element and its setvalues.",
        "note": NOTE_COMMON,
    },
    "C14": {
        "technique": "effect analysis (who writes module state), memoisation purity, unordered-iteration flow, release-on-all-exits, shared-singleton census",
        "text": "Static effect analysis over the whole package: no function writes a module-level mutable object; lru_cache'd functions are pure in their keys and their shared results are not mutated; generation-time writes to element state are idempotent; every iteration over a set ends in an order-insensitive consumer, sorted(), or a reasoned exception; temp files are released on all exits; the shared re.Scanner is used under a lock. These are exactly the sources of seed/history/thread dependence a test run under one seed cannot see. Also: a memoised function builds no XML node / InstanceInfo (a DOM node has one parent); process_row returns a new dict (the assumption behind 'rebound by a call = no longer the caller's'). Round d: the validators' temp file is uniquely named and released (shared with C18.R1).",
        "note": NOTE_COMMON,
    },
    "C15": {
        "technique": "non-interference (taint) of the formatting parameters in the XML writers, by abstract evaluation over all child shapes",
        "text": "Static non-interference argument: both modes run the same writexml; formatting parameters never influence a branch, never reach mixed-content context, and appear only adjacent to tag boundaries in element-only content; the two serialisers differ in whitespace literals only. Holds for every form because it is a statement about the writer's code on every child shape. The element-writer model now provides firstChild / lastChild, so a writer that measures its text child is evaluated rather than refused. Round d: a serialiser performs no DOM operation besides serialising (it would happen in one mode only).",
        "note": NOTE_COMMON,
    },
    "C18": {
        "technique": "release-on-all-exits over the CFG; dominance of convert() over writes; finite decision tables by abstract evaluation",
        "text": "Static analysis: temp-file unlink post-dominates creation on normal and exceptional exits; file writes are dominated by convert(); check_xform / CLI / _validator_args_logic decision tables are enumerated exhaustively over their abstract domains. Partial: the cleaner's regex behaviour on arbitrary stderr is not decided. Also: the itemsets decision (has_external_choices) at any depth; the error cleaner on multi-line reports (only adjacent repeats are dropped). Round d: decode_stream returns text for every byte sequence; unique temp name; the CLI wrapper's writes by evaluation with a recording open.",
        "note": NOTE_COMMON,
    },
    "C19": {
        "technique": "16-row decision table by finite-domain abstract evaluation; must-call dominance; same-guard checks",
        "text": "Exhaustive over the 16 presence/absence combinations (the property's own quantifier) by abstract evaluation of the parser, constructor and XML generators, compared with the documented table; save_to / dataset validation enumerated over every guard outcome; CFG must-pass-through of the save_to validator before every row append. Also: save_to on concrete row types (a question whose type merely contains 'group' / 'repeat' is accepted, begin-group / repeat spellings rejected); author namespaces that alias a standard URI. Round d: unknown entities columns rejected with the call site's own arguments; rows without list_name; save_to validated for the meta (audit) append too.",
        "note": NOTE_COMMON,
    },
}

PENDING = "check not yet implemented in this revision (design in DESIGN.md §4); will be claimed when its checker lands"
NOT_APPLICABLE = {}
for _p in ["C02", "C03", "C04", "C05", "C06", "C07", "C09", "C10", "C11", "C12", "C13", "C14", "C16", "C17", "C20"]:
    if _p not in CLAIMS:
        NOT_APPLICABLE[_p] = PENDING

NOTES = ("All checks are static analyses of /repo's current working tree (python ast; no import or execution of pyxform). "
         "Exit 0 = all obligations discharged or matched by /verif/known_findings.json (KNOWN-FINDING lines); exit 1 = "
         "VIOLATION; exit 2 = ANALYSIS-ERROR (vanished anchor / unsupported syntax; never a verdict).")
