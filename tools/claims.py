"""What MANIFEST.json claims, per property (edited by hand; tools/gen_manifest.py writes the manifest)."""

NOTE_COMMON = ("Trusted base: CPython's ast module; the engine's own CFG construction and abstract evaluator; the curated "
               "stdlib facts listed in DESIGN.md §2.5. Decides the named structural clauses for every input; value-level "
               "behaviour is NOT decided (see the evidence file's not_decided).")

CLAIMS = {
    "C01": {
        "technique": "construction-site census + provenance of XML names; abstract skeleton tree; writer path language",
        "text": "Static analysis, sound for the named clauses: every program-written prefix is declared; no author text reaches an element/attribute name position except at the recorded known findings; the html/head/title/model/body skeleton and model child order hold on every path of Survey.xml/xml_model; the root always carries the form id; the element writer's write language is balanced. These are necessary conditions for well-formedness of every output, which no finite test sample establishes.",
        "note": NOTE_COMMON,
    },
    "C02": {
        "technique": "provenance of nodeset/ref (single path source); class table; who-may-write of cache/parent/name/children; must-call dominance of validation; abstract evaluation of the uniqueness checks",
        "text": "Static analysis: every bind/control/repeat/setvalue/action path attribute is get_xpath() of the element that builds the instance node; every element class the builder can place builds an instance node named after itself or is skipped and emits no bind; the xpath cache has a closed set of writers and is reset on re-parenting; validate() dominates generation and must-calls the sibling/section uniqueness checks, which reject equal and case-different names on the abstract name domain.",
        "note": NOTE_COMMON,
    },
    "C03": {
        "technique": "sanitizer-dominance of the reference substituter; check-before-use dominance; regex syntax tree vs group use",
        "text": "PARTIAL. Decides: every reference-bearing field reaches XML only through insert_xpaths/insert_output_values (reasoned exceptions checked); unknown/ambiguous names raise before any map read; top-level decision of the replacement function (unknown, ambiguous, last-saved, relative, absolute) by abstract evaluation; regex groups vs consumers; last-saved id/URI agreement; current() requested exactly at predicates. NOT decided: that the relative path computed by share_same_repeat_parent/_relative_path reaches the target (value-level tree arithmetic).",
        "note": NOTE_COMMON,
    },
    "C04": {
        "technique": "dataflow over the row-loop CFG (append-sequence lattice); stack typestate by dominance; table exhaustiveness; folded type table vs independent spec table",
        "text": "PARTIAL. Decides: on every path of the row loop a row is appended exactly once (helpers in documented position), skip paths are the documented ones; begin/end frames alias the group's children list and pops are dominated by the match check; children/choices are traversed in list order; all 112 types map to a class whose control-building matches its tag; the type table equals an independent XLSForm spec table; parameter wiring and allowed-parameter tuples equal the spec. NOT decided: run-time nesting of arbitrary interleavings beyond the discipline; loop expansion.",
        "note": NOTE_COMMON,
    },
    "C05": {
        "technique": "folded alias/conversion tables vs spec; abstract evaluation of xml_bindings as a key-preserving map; alias analysis of the type table",
        "text": "PARTIAL. Decides: column aliases target the prescribed bind attribute; xml_bindings emits exactly one bind on the row's own xpath with exactly the row's keys, values = substituter(original | converted truth value | itext redirect), over representative bind dicts; conversion tables; type-table defaults are copied before merging; parameter->bind wiring. NOT decided: placement of cell values under nested keys by process_row/merge_dicts.",
        "note": NOTE_COMMON,
    },
    "C06": {
        "technique": "string typestate raw/escaped/markup; who-may-assemble-markup census; flag/text tuple correlation; abstract evaluation of the substituter and the node factory",
        "text": "Static typestate analysis: markup is assembled from strings only at five confirmed roles; the parse flag and the text are the two halves of one insert_output_values call at every site; insert_output_values escapes before substituting and returns only (markup,True)/(argument,False); the text writer escapes; the escaper table is the XML one and single-pass; no escaped value reaches an escaping sink except the recorded finding; the node factory parses text only under flag True.",
        "note": NOTE_COMMON,
    },
    "C07": {
        "technique": "emit=>register decision tables by finite-domain abstract evaluation; must-call order; sentinel and id-format agreement; traversal coverage",
        "text": "PARTIAL. Decides, exhaustively over label x media x hint x guidance (320 combinations for questions, 20 each for groups and repeats) and 48 message combinations: every jr:itext id emitted by the body/bind emitters is registered by the collectors; padding gives every language every id and form and runs before serialisation; one translation per language with the default marked once; choice ids agree across instance, registration and search redirect. NOT decided: text content per language (C08).",
        "note": NOTE_COMMON,
    },
    "C10": {
        "technique": "complementary guards and placement by abstract evaluation on abstract defaults and small concrete trees; call-site census; tuple-index agreement",
        "text": "PARTIAL. Decides: literal vs setvalue are complementary for every default class and both consult the classifier with (default,type); exactly two placements partitioned by repeat ancestry (evaluated on a tree with nested groups/repeats), with the right events; trigger bookkeeping tuple/map/event agreement and nesting in the triggering control. NOT decided: the lexer's classification of free text.",
        "note": NOTE_COMMON,
    },
    "C14": {
        "technique": "effect analysis (who writes module state), memoisation purity, unordered-iteration flow, release-on-all-exits, shared-singleton census",
        "text": "Static effect analysis over the whole package: no function writes a module-level mutable object; lru_cache'd functions are pure in their keys and their shared results are not mutated; generation-time writes to element state are idempotent; every iteration over a set ends in an order-insensitive consumer, sorted(), or a reasoned exception; temp files are released on all exits; the shared re.Scanner is used under a lock. These are exactly the sources of seed/history/thread dependence a test run under one seed cannot see.",
        "note": NOTE_COMMON,
    },
    "C15": {
        "technique": "non-interference (taint) of the formatting parameters in the XML writers, by abstract evaluation over all child shapes",
        "text": "Static non-interference argument: both modes run the same writexml; formatting parameters never influence a branch, never reach mixed-content context, and appear only adjacent to tag boundaries in element-only content; the two serialisers differ in whitespace literals only. Holds for every form because it is a statement about the writer's code on every child shape.",
        "note": NOTE_COMMON,
    },
    "C18": {
        "technique": "release-on-all-exits over the CFG; dominance of convert() over writes; finite decision tables by abstract evaluation",
        "text": "Static analysis: temp-file unlink post-dominates creation on normal and exceptional exits; file writes are dominated by convert(); check_xform / CLI / _validator_args_logic decision tables are enumerated exhaustively over their abstract domains. Partial: the cleaner's regex behaviour on arbitrary stderr is not decided.",
        "note": NOTE_COMMON,
    },
    "C19": {
        "technique": "16-row decision table by finite-domain abstract evaluation; must-call dominance; same-guard checks",
        "text": "Exhaustive over the 16 presence/absence combinations (the property's own quantifier) by abstract evaluation of the parser, constructor and XML generators, compared with the documented table; save_to / dataset validation enumerated over every guard outcome; CFG must-pass-through of the save_to validator before every row append.",
        "note": NOTE_COMMON,
    },
}

PENDING = "check not yet implemented in this revision (design in DESIGN.md §4); will be claimed when its checker lands"
NOT_APPLICABLE = {
    "C08": "value-level bijection (row x column x language -> itext value) computed by recursive dict merging on run-time header tokens; no sound static argument in reach bounds it (DESIGN.md §5); its structural necessary conditions are decided under C07 and C11",
}
for _p in ["C02", "C03", "C04", "C05", "C06", "C07", "C09", "C10", "C11", "C12", "C13", "C14", "C16", "C17", "C20"]:
    if _p not in CLAIMS:
        NOT_APPLICABLE[_p] = PENDING

NOTES = ("All checks are static analyses of /repo's current working tree (python ast; no import or execution of pyxform). "
         "Exit 0 = all obligations discharged or matched by /verif/known_findings.json (KNOWN-FINDING lines); exit 1 = "
         "VIOLATION; exit 2 = ANALYSIS-ERROR (vanished anchor / unsupported syntax; never a verdict).")
