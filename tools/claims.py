"""What MANIFEST.json claims, per property (edited by hand; tools/gen_manifest.py writes the manifest)."""

NOTE_COMMON = ("Trusted base: CPython's ast module; the engine's own CFG construction and abstract evaluator; the curated "
               "stdlib facts listed in DESIGN.md §2.5. Decides the named structural clauses for every input; value-level "
               "behaviour is NOT decided (see the evidence file's not_decided).")

CLAIMS = {
    "C01": {
        "technique": "construction-site census + provenance of XML names; abstract skeleton tree; writer path language",
        "text": "Static analysis, sound for the named clauses: every program-written prefix is declared; no author text reaches an element/attribute name position except at the recorded known findings; the html/head/title/model/body skeleton and model child order hold on every path of Survey.xml/xml_model; the root always carries the form id; the element writer's write language is balanced. These are necessary conditions for well-formedness of every output, which no finite test sample establishes.",
        "note": NOTE_COMMON,
    },
    "C15": {
        "technique": "non-interference (taint) of the formatting parameters in the XML writers, by abstract evaluation over all child shapes",
        "text": "Static non-interference argument: both modes run the same writexml; formatting parameters never influence a branch, never reach mixed-content context, and appear only adjacent to tag boundaries in element-only content; the two serialisers differ in whitespace literals only. Holds for every form because it is a statement about the writer's code on every child shape.",
        "note": NOTE_COMMON,
    },
    "C18": {
        "technique": "release-on-all-exits over the CFG; dominance of convert() over writes; finite decision tables by abstract evaluation",
        "text": "Static analysis: temp-file unlink post-dominates creation on normal and exceptional exits; file writes are dominated by convert(); check_xform / CLI / _validator_args_logic decision tables are enumerated exhaustively over their abstract domains. Partial: the cleaner's regex behaviour on arbitrary stderr is not decided.",
        "note": NOTE_COMMON,
    },
    "C19": {
        "technique": "16-row decision table by finite-domain abstract evaluation; must-call dominance; same-guard checks",
        "text": "Exhaustive over the 16 presence/absence combinations (the property's own quantifier) by abstract evaluation of the parser, constructor and XML generators, compared with the documented table; save_to / dataset validation enumerated over every guard outcome; CFG must-pass-through of the save_to validator before every row append.",
        "note": NOTE_COMMON,
    },
}

PENDING = "check not yet implemented in this revision (design in DESIGN.md §4); will be claimed when its checker lands"
NOT_APPLICABLE = {
    "C08": "value-level bijection (row x column x language -> itext value) computed by recursive dict merging on run-time header tokens; no sound static argument in reach bounds it (DESIGN.md §5); its structural necessary conditions are decided under C07 and C11",
}
for _p in ["C02", "C03", "C04", "C05", "C06", "C07", "C09", "C10", "C11", "C12", "C13", "C14", "C16", "C17", "C20"]:
    if _p not in CLAIMS:
        NOT_APPLICABLE[_p] = PENDING

NOTES = ("All checks are static analyses of /repo's current working tree (python ast; no import or execution of pyxform). "
         "Exit 0 = all obligations discharged or matched by /verif/known_findings.json (KNOWN-FINDING lines); exit 1 = "
         "VIOLATION; exit 2 = ANALYSIS-ERROR (vanished anchor / unsupported syntax; never a verdict).")
