#!/bin/sh
# Run every quick check against /repo's current tree; print only those that do not exit 0.
cd "$(dirname "$0")/.." || exit 2
bad=0
for p in $(seq -w 1 20); do
  ./check C$p --tier quick > /tmp/.allchecks_C$p.out 2>&1
  rc=$?
  if [ $rc -ne 0 ]; then bad=1; echo "C$p exit=$rc"; grep -v "^KNOWN-FINDING" /tmp/.allchecks_C$p.out | tail -4 | cut -c1-300; fi
done
[ $bad -eq 0 ] && echo "all 20 checks exit 0"
exit $bad
