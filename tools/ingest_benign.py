#!/usr/bin/env python3
"""Confirm a candidate behaviour-preserving patch (pinned suite green + identical behaviour snapshot) and file it
under /verif/benign/<name>/.  usage: tools/ingest_benign.py /tmp/benign_out/b1_1 ..."""
import json, os, shutil, subprocess, sys
from concurrent.futures import ThreadPoolExecutor
HERE = os.path.dirname(os.path.dirname(os.path.abspath(__file__)))
PY = "/venv/bin/python"

def snap(wt):
    r = subprocess.run([PY, os.path.join(HERE, "tools", "diffharness.py")], cwd=wt, capture_output=True, text=True,
                       env=dict(os.environ, PYTHONHASHSEED="0"), timeout=1800)
    if r.returncode:
        return None, r.stderr[-500:]
    return json.loads(r.stdout), ""

def confirm(src):
    name = os.path.basename(src.rstrip("/"))
    wt = f"/tmp/wt_confirm_{name}"
    subprocess.run(["git", "-C", "/repo", "worktree", "remove", "--force", wt], capture_output=True)
    subprocess.run(["git", "-C", "/repo", "worktree", "add", "-q", "--detach", wt, "HEAD"], check=True)
    try:
        r = subprocess.run(["git", "-C", wt, "apply", "--whitespace=nowarn", os.path.join(src, "patch.diff")], capture_output=True, text=True)
        if r.returncode:
            return name, False, "patch does not apply " + r.stderr[-200:]
        s, err = snap(wt)
        if s is None:
            return name, False, "harness failed: " + err
        if s != REF:
            diff = [k for k in REF if REF[k] != s.get(k)]
            return name, False, f"behaviour snapshot differs on {len(diff)} conversions, e.g. {diff[:3]}"
        b = subprocess.run([PY, os.path.join(HERE, "tools", "baseline.py"), wt], capture_output=True, text=True, timeout=1800)
        if b.returncode:
            return name, False, "pinned suite not green: " + b.stdout[-300:]
        return name, True, f"{len(s)} conversions identical; {b.stdout.strip().splitlines()[0]}"
    finally:
        subprocess.run(["git", "-C", "/repo", "worktree", "remove", "--force", wt], capture_output=True)
        shutil.rmtree(wt, ignore_errors=True)

def main(argv):
    global REF
    REF, err = snap("/repo")
    assert REF, err
    print("reference snapshot:", len(REF), "conversions")
    with ThreadPoolExecutor(max_workers=6) as ex:
        res = list(ex.map(confirm, argv))
    for src, (name, ok, why) in zip(argv, res):
        print(name, "CONFIRMED-BENIGN" if ok else "REJECTED", why)
        if ok:
            dst = os.path.join(HERE, "benign", name)
            os.makedirs(dst, exist_ok=True)
            shutil.copy(os.path.join(src, "patch.diff"), dst)
            meta = {}
            if os.path.exists(os.path.join(src, "meta.json")):
                try: meta = json.load(open(os.path.join(src, "meta.json")))
                except Exception: pass
            meta["confirmed_by_main_session"] = why
            json.dump(meta, open(os.path.join(dst, "meta.json"), "w"), indent=1)

if __name__ == "__main__":
    main(sys.argv[1:])
