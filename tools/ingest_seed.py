#!/usr/bin/env python3
"""Confirm a sub-agent's seeded change independently and, if confirmed, file it under /verif/seeded/<name>/.

usage: tools/ingest_seed.py /tmp/seed_out/C01_a1 [...]

For each directory (patch.diff, demo.py, meta.json) this makes a scratch git worktree of /repo's HEAD under /tmp,
and checks, itself:
  1. demo.py PASSES (exit 0) on the unchanged tree,
  2. the patch applies and every touched file still compiles,
  3. the pinned suite still has all BASELINE stable_pass tests passing with the patch (tools/baseline.py),
  4. demo.py FAILS (exit != 0) with the patch.
Only then is the change kept.  The worktree is removed afterwards.  Nothing is ever applied to /repo.
"""
import json
import os
import shutil
import subprocess
import sys
from concurrent.futures import ThreadPoolExecutor

HERE = os.path.dirname(os.path.dirname(os.path.abspath(__file__)))
PY = "/venv/bin/python"


def sh(cmd, cwd=None, timeout=1200):
    r = subprocess.run(cmd, cwd=cwd, capture_output=True, text=True, timeout=timeout)
    return r.returncode, (r.stdout + r.stderr)[-1500:]


def confirm(src):
    name = os.path.basename(src.rstrip("/"))
    wt = f"/tmp/wt_confirm_{name}"
    ran = []
    subprocess.run(["git", "-C", "/repo", "worktree", "remove", "--force", wt], capture_output=True)
    code, out = sh(["git", "-C", "/repo", "worktree", "add", "-q", "--detach", wt, "HEAD"])
    if code:
        return name, False, f"worktree: {out}", ran
    try:
        demo = os.path.join(src, "demo.py")
        patch = os.path.join(src, "patch.diff")
        if not (os.path.exists(demo) and os.path.exists(patch)):
            return name, False, "missing demo.py or patch.diff", ran
        env_cmd = [PY, demo]
        c0, o0 = sh(env_cmd, cwd=wt, timeout=600)
        ran.append({"cmd": f"cd <clean worktree> && {PY} demo.py", "exit": c0, "tail": o0[-200:]})
        if c0 != 0:
            return name, False, f"demo does not pass on the clean tree (exit {c0}): {o0[-300:]}", ran
        c, o = sh(["git", "-C", wt, "apply", "--whitespace=nowarn", patch])
        ran.append({"cmd": "git apply patch.diff", "exit": c})
        if c:
            return name, False, f"patch does not apply: {o}", ran
        c, o = sh(["git", "-C", wt, "diff", "--name-only"])
        files = [f for f in o.split() if f.endswith(".py")]
        if any(not f.startswith("pyxform/") for f in o.split()):
            return name, False, f"patch touches files outside pyxform/: {o}", ran
        for f in files:
            c, o2 = sh([PY, "-m", "py_compile", os.path.join(wt, f)])
            if c:
                return name, False, f"{f} does not compile: {o2}", ran
        c1, o1 = sh(env_cmd, cwd=wt, timeout=600)
        ran.append({"cmd": f"cd <patched worktree> && {PY} demo.py", "exit": c1, "tail": o1[-300:]})
        if c1 == 0:
            return name, False, "demo still passes with the patch", ran
        cb, ob = sh([PY, os.path.join(HERE, "tools", "baseline.py"), wt], timeout=1800)
        ran.append({"cmd": "tools/baseline.py <patched worktree>", "exit": cb, "tail": ob.strip()[-300:]})
        if cb != 0:
            return name, False, f"pinned suite not green with the patch: {ob[-400:]}", ran
        return name, True, "confirmed", ran
    finally:
        subprocess.run(["git", "-C", "/repo", "worktree", "remove", "--force", wt], capture_output=True)
        shutil.rmtree(wt, ignore_errors=True)


def main(argv):
    with ThreadPoolExecutor(max_workers=6) as ex:
        results = list(ex.map(confirm, argv))
    for src, (name, ok, why, ran) in zip(argv, results):
        print(f"{name}: {'CONFIRMED' if ok else 'REJECTED'} {why if not ok else ''}")
        if not ok:
            continue
        dst = os.path.join(HERE, "seeded", name)
        os.makedirs(dst, exist_ok=True)
        shutil.copy(os.path.join(src, "patch.diff"), dst)
        shutil.copy(os.path.join(src, "demo.py"), dst)
        meta = {}
        mp = os.path.join(src, "meta.json")
        if os.path.exists(mp):
            try:
                meta = json.load(open(mp))
            except Exception as e:  # noqa: BLE001
                meta = {"meta_unreadable": str(e)}
        meta.setdefault("property", name.split("_")[0])
        meta["confirmed_by_main_session"] = ran
        json.dump(meta, open(os.path.join(dst, "meta.json"), "w"), indent=1)
    return 0


if __name__ == "__main__":
    sys.exit(main(sys.argv[1:]))
