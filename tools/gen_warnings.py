#!/usr/bin/env python3
"""Freeze the set of advisory-warning message skeletons of /repo's current tree into sa/warnings.json (re-run after a
`fix:` commit that legitimately adds or rewords a warning; the table is the reference any later change is held to)."""
import json, os, sys
HERE = os.path.dirname(os.path.dirname(os.path.abspath(__file__)))
sys.path.insert(0, HERE)
from sa.context import Context
from sa.warncensus import warning_skeletons
ctx = Context("/repo", "quick")
sk = warning_skeletons(ctx)
json.dump({"skeletons": sorted(sk), "opaque_sites": len(sk.get("{}", []))}, open(os.path.join(HERE, "sa", "warnings.json"), "w"), indent=1, ensure_ascii=False)
print(len(sk), "warning message skeletons")
for k in sorted(sk):
    print("  ", k[:110])
