#!/usr/bin/env python3
"""Regenerates /verif/MANIFEST.json from the table below (kept in one place so
the manifest stays valid and in step with the implemented checks)."""
import json
import os

HERE = os.path.dirname(os.path.dirname(os.path.abspath(__file__)))

CHECKS = {
    # id: (technique, level text, level note, design ref)
}

def load():
    import importlib.util
    spec = importlib.util.spec_from_file_location("claims", os.path.join(HERE, "tools", "claims.py"))
    m = importlib.util.module_from_spec(spec)
    spec.loader.exec_module(m)
    return m

def main():
    m = load()
    checks = []
    for pid, c in sorted(m.CLAIMS.items()):
        checks.append({
            "property_id": pid,
            "quick_cmd": f"./check {pid} --tier quick",
            "thorough_cmd": f"./check {pid} --tier thorough",
            "evidence_file": f"/verif/evidence/{pid}.json",
            "replay_cmd_template": f"./check {pid} --tier quick  # violations listed in {{path}}",
            "engine": "sa",
            "level_claimed": {"category": "other", "text": c["text"], "design_ref": f"DESIGN.md §4 {pid}"},
            "level_note": c["note"],
            "technique": c["technique"],
        })
    manifest = {
        "version": 1,
        "setup_cmd": "true",
        "hooks": {
            "guard": "PYXFORM_VERIF",
            "enable": "none needed: every check is a static analysis of /repo's source; no hook commits exist",
            "baseline_off_cmd": "cd /repo && /venv/bin/python -m pytest -ra -q -p no:cacheprovider --timeout=900 --continue-on-collection-errors",
            "source_commits": [],
            "add_only": True,
        },
        "engines": [{
            "name": "sa",
            "path": "/verif/sa",
            "serves_properties": sorted(m.CLAIMS),
            "kind_free_text": "repository-specific static analysis over Python ASTs: constant folding of tables, statement CFG with exceptional edges and dominators, provenance/typestate of values reaching XML sinks, class-hierarchy call graph, effect analysis, and finite-domain abstract evaluation of guards (the analyser's own evaluator; pyxform is never imported or executed, nothing is handed to a solver)",
        }],
        "checks": checks,
        "notes": m.NOTES,
        "not_applicable": [{"property_id": k, "reason": v} for k, v in sorted(m.NOT_APPLICABLE.items())],
    }
    with open(os.path.join(HERE, "MANIFEST.json"), "w") as f:
        json.dump(manifest, f, indent=1)
    print("MANIFEST.json:", len(checks), "checks,", len(m.NOT_APPLICABLE), "not applicable")

if __name__ == "__main__":
    main()
