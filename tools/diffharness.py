#!/usr/bin/env python3
"""Behaviour snapshot of a pyxform tree: run from the tree's root; prints a digest per conversion.  Used only by
tools/ingest_benign.py to confirm that a candidate *benign* patch leaves observable behaviour unchanged (it is not part
of any check)."""
import hashlib, json, os, sys, glob
sys.path.insert(0, os.getcwd())
import pyxform
assert os.path.dirname(os.path.dirname(os.path.abspath(pyxform.__file__))) == os.getcwd(), pyxform.__file__
from pyxform.xls2xform import convert
out = {}
files = sorted(glob.glob("tests/example_xls/*") + glob.glob("tests/bug_example_xls/*") + glob.glob("tests/validators/data/*"))
for f in files:
    if not os.path.isfile(f) or os.path.splitext(f)[1].lower() not in (".xls", ".xlsx", ".xlsm", ".csv", ".md"):
        continue
    for pp in (False, True):
        try:
            r = convert(xlsform=f, pretty_print=pp, validate=False)
            js = json.dumps(r._pyxform, sort_keys=True, default=str) if getattr(r, "_pyxform", None) is not None else ""
            try:
                dump = json.dumps(r._survey.to_json_dict(), sort_keys=True, default=str)
            except Exception as e:  # noqa
                dump = f"DUMP-ERR {type(e).__name__}: {e}"
            v = ("ok", r.xform, r.warnings, r.itemsets, js, dump)
        except Exception as e:  # noqa
            v = ("err", type(e).__name__, str(e))
        out[f"{f}|{pp}"] = hashlib.sha256(json.dumps(v, default=str).encode()).hexdigest()
json.dump(out, sys.stdout, indent=0, sort_keys=True)
