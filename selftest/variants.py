"""Seeded breaks (one instance broken each) and benign variants used by the discrimination battery.

Each seeded variant is a list of exact text substitutions (file, old, new) applied to a scratch copy of the CURRENT
/repo tree.  If `old` is not found the variant is reported as not-applicable (the code has moved on), never as a
failure of pyxform.  `rule` is the rule expected to fire (prefix match)."""

S = []  # seeded breaks


def seed(prop, name, rule, *edits):
    S.append({"property": prop, "name": name, "rule": rule, "edits": [tuple(e) for e in edits]})


U = "pyxform/utils.py"
SV = "pyxform/survey.py"
SE = "pyxform/survey_element.py"
Q = "pyxform/question.py"
SEC = "pyxform/section.py"
XJ = "pyxform/xls2json.py"
XB = "pyxform/xls2json_backends.py"
AL = "pyxform/aliases.py"
BU = "pyxform/builder.py"
XF = "pyxform/xls2xform.py"

# ---- C01
seed("C01", "nsmap-drop-odk", "C01.R1", ("pyxform/constants.py", '    "xmlns:odk": "http://www.opendatakit.org/xforms",\n', ""))
seed("C01", "attribute-after-id", "C01.R4", (SV, '''        if self.attribute:
            for key, value in self.attribute.items():
                result.setAttribute(str(key), value)

        result.setAttribute("id", self.id_string)
''', '''        result.setAttribute("id", self.id_string)

        if self.attribute:
            for key, value in self.attribute.items():
                result.setAttribute(str(key), value)
'''))
seed("C01", "close-tag-other-name", "C01.R6", (U, 'writer.write(f"</{self.tagName}>{newl}")', 'writer.write(f"</{self.nodeName.lower()}>{newl}")'))
seed("C01", "attr-value-raw-write", "C01.R6", (U, "                _write_data(writer, v.value)", "                writer.write(v.value)"))
seed("C01", "primary-instance-after-secondary", "C01.R3", (SV, '''            yield from model_children
            yield from self._generate_instances()''', '''            yield from self._generate_instances()
            yield from model_children'''))
seed("C19", "entities-ns-unguarded-version", "C19.R4", (SV, "        if self.entity_features:\n            model_kwargs", "        if self.entity_features or self.namespaces:\n            model_kwargs"))
seed("C01", "new-cell-named-element", "C01.R2", (Q, "            result = node(self.name)\n        attributes = self.instance", "            result = node(self.name if not self.query else str(self.query))\n        attributes = self.instance"))
# ---- C02
seed("C02", "cache-reset-only-on-none", "C02.R3", (SE, '        if key == "parent":', '        if key == "parent" and value is None:'))
seed("C02", "drop-sibling-check", "C02.R4", (SEC, "        self._validate_uniqueness_of_element_names()", "        pass"))
seed("C02", "case-sensitive-siblings", "C02.R4", (SEC, "            elem_lower = element.name.lower()", "            elem_lower = element.name"))
seed("C02", "handbuilt-repeat-nodeset", "C02.R1", (SEC, '            repeat_node = node("repeat", nodeset=self.get_xpath())', '            repeat_node = node("repeat", nodeset="/" + self.name)'))
seed("C02", "count-helper-to-wrong-list", "C02.R6", (XJ, '''                        parent_children_array.append(
                            {
                                "name": generated_node_name,''', '''                        child_list.append(
                            {
                                "name": generated_node_name + "_",'''))
# ---- C03
seed("C03", "control-attr-unsubstituted", "C03.R1", (Q, "                result.setAttribute(k, survey.insert_xpaths(v, self))\n        return result", "                result.setAttribute(k, v)\n        return result"))
seed("C03", "ambiguous-name-not-error", "C03.R2", (SV, "        if self._xpath[name] is None:", "        if False:"))
seed("C03", "regex-extra-group", "C03.R3", (U, 'BRACKETED_TAG_REGEX = re.compile(r"\\${(last-saved#)?(.*?)}")', 'BRACKETED_TAG_REGEX = re.compile(r"(\\$){(last-saved#)?(.*?)}")'))
seed("C03", "last-saved-id-one-side", "C03.R4", (U, 'LAST_SAVED_INSTANCE_NAME = "__last-saved"', 'LAST_SAVED_INSTANCE_NAME = "__last_saved"'))
seed("C03", "query-pred-no-current", "C03.R4", (Q, "                pred = survey.insert_xpaths(choice_filter, self, True)", "                pred = survey.insert_xpaths(choice_filter, self)"))
seed("C03", "duplicate-name-keeps-first", "C03.R2", (SV, "                xpaths[element_name] = None", "                pass"))
# ---- C04
seed("C04", "text-row-appended-twice", "C04.R1", (XJ, '''                new_dict["control"].update({"rows": parameters["rows"]})

            parent_children_array.append(new_dict)
            continue''', '''                new_dict["control"].update({"rows": parameters["rows"]})

            parent_children_array.append(new_dict)'''))
seed("C04", "other-before-select", "C04.R1", (XJ, '''                parent_children_array.append(new_json_dict)
                if specify_other_question:
                    parent_children_array.append(specify_other_question)''', '''                if specify_other_question:
                    parent_children_array.append(specify_other_question)
                parent_children_array.append(new_json_dict)'''))
seed("C04", "frame-fresh-list", "C04.R2", (XJ, '                        "parent_children": child_list,', '                        "parent_children": [],'))
seed("C04", "controls-reversed", "C04.R3", (SEC, "        for e in self.children:\n            control = e.xml_control(survey=survey)", "        for e in reversed(self.children):\n            control = e.xml_control(survey=survey)"))
seed("C04", "accuracy-params-swapped", "C04.R6", (XJ, '{"accuracyThreshold": parameters["capture-accuracy"]}', '{"accuracyThreshold": parameters["warning-accuracy"]}'))
seed("C04", "geoshape-bind-type", "C04.R5", ("pyxform/question_type_dictionary.py", '    "geoshape": {"control": {"tag": "input"}, "bind": {"type": "geoshape"}},', '    "geoshape": {"control": {"tag": "input"}, "bind": {"type": "geotrace"}},'))
# ---- C05
seed("C05", "type-table-aliased", "C05.R4", (Q, "                template = v.copy()", "                template = v"))
seed("C05", "alias-wrong-target", "C05.R1", (AL, '    "relevance": ("bind", "relevant"),', '    "relevance": ("bind", "required"),'))
seed("C05", "calculate-dropped-without-trigger", "C05.R2", (SE, '            if hasattr(self, "trigger") and self.trigger and k == "calculate":', '            if hasattr(self, "trigger") and k == "calculate":'))
seed("C05", "conversion-polarity", "C05.R3", (AL, '    "No": "false()",', '    "No": "true()",'))
# ---- C06
seed("C06", "no-escape-before-substitution", "C06.R3", (SV, "        original_xml = escape_text_for_xml(text=text)", "        original_xml = text"))
seed("C06", "label-always-parsed", "C06.R2", (SE, '            return node("label", label, toParseString=output_inserted)', '            return node("label", label, toParseString=True)'))
seed("C06", "amp-not-escaped", "C06.R5", (U, 'XML_TEXT_SUBS = {"&": "&amp;", "<": "&lt;", ">": "&gt;"}', 'XML_TEXT_SUBS = {"<": "&lt;", ">": "&gt;"}'))
seed("C06", "text-writer-conditional-escape", "C06.R4", (U, "            data = escape_text_for_xml(text=data)", '            data = escape_text_for_xml(text=data) if "<" in data else data'))
# ---- C07
seed("C07", "padding-not-called", "C07.R3", (SV, "        self._setup_media()\n        self._add_empty_translations()", "        self._setup_media()"))
seed("C07", "hint-id-one-side", "C07.R2", (SE, '            path = self._translation_path("hint")', '            path = self._translation_path("hint_text")'))
seed("C07", "second-default", "C07.R4", (SV, "            if lang == self.default_language:", '            if lang == self.default_language or lang == "default":'))
seed("C07", "placeholder-changed-one-side", "C07.R5", (SV, '                        self._translations[lang][path][content_type] = "-"', '                        self._translations[lang][path][content_type] = ""'))
seed("C07", "choice-id-off-by-one", "C07.R1", (SV, '            itext_id = f"{name}-{idx}"', '            itext_id = f"{name}-{idx + 1}"'))
# ---- C09
seed("C09", "csv-external-uri", "C09.R4", (SV, '        prefix = "file-csv" if extension == "csv" else "file"', '        prefix = "file"'))
seed("C09", "dedupe-disabled", "C09.R3", (SV, "            if prior:\n", "            if prior and False:\n"))
seed("C09", "search-lists-as-instances", "C09.R3", (SV, "                    if not v.used_by_search:", "                    if True:"))
seed("C09", "itemset-reads-list-name-slot", "C09.R5", (Q, "                nodeset = f\"instance('{itemset}')/root/item\"", "                nodeset = f\"instance('{self.list_name}')/root/item\""))
seed("C09", "itemsets-rows-positional", "C09.R7", (U, "        csv_writer.writerow([row.get(k) for k in header])", "        csv_writer.writerow(row.values())"))
# ---- C10
seed("C10", "literal-always-written", "C10.R1", (Q, "        if self.default and not default_is_dynamic(self.default, self.type):", "        if self.default:"))
seed("C10", "nested-repeat-defaults-duplicated", "C10.R2", (SEC, '            if e.type != "repeat":  # let nested', "            if True:  # let nested"))
seed("C10", "trigger-tuple-swapped", "C10.R3", (BU, "            question_ref = (d[const.NAME], value)", "            question_ref = (value, d[const.NAME])"))
seed("C10", "classifier-without-type", "C10.R1", (SE, "            or not default_is_dynamic(self.default, self.type)", "            or not default_is_dynamic(self.default)"))
# ---- C11
seed("C11", "auto-send-from-auto-delete", "C11.R1", (SV, '                submission_attrs["orx:auto-send"] = self.auto_send', '                submission_attrs["orx:auto-send"] = self.auto_delete'))
seed("C11", "title-defaults-to-form-name", "C11.R3", (XJ, "        constants.TITLE: id_string,", "        constants.TITLE: form_name,"))
seed("C11", "defaults-over-settings", "C11.R3", (XJ, "    json_dict.update(settings)", "    json_dict = {**settings, **json_dict}"))
seed("C11", "instance-id-setting-ignored", "C11.R5", (XJ, '                    "jr:preload": settings.get("instance_id", "uid"),', '                    "jr:preload": "uid",'))
seed("C11", "form-title-alias", "C11.R2", (AL, '    "form_title": constants.TITLE,', '    "form_title": constants.NAME,'))
# ---- C12
seed("C12", "row-limit-off", "C12.R3", (XB, "            if max_adjacent_empty_rows == adjacent_empty_rows:", "            if max_adjacent_empty_rows <= adjacent_empty_rows + 1:"))
seed("C12", "xlsx-large-float", "C12.R2", (XB, "    elif isinstance(value, float) and value.is_integer():", "    elif isinstance(value, float) and value.is_integer() and value < 1e9:"))
seed("C12", "xlsx-no-lowercase", "C12.R2", (XB, "            sheet_name = sheetname.lower()", "            sheet_name = sheetname"))
seed("C12", "csv-no-sheet-filter", "C12.R1", (XB, "            if sheet not in constants.SUPPORTED_SHEET_NAMES:\n                rows = _dict.pop(sheet, [])", "            if False:\n                rows = _dict.pop(sheet, [])"))
# ---- C13
seed("C13", "select1-alias", "C13.R1", (AL, '    "select1": constants.SELECT_ONE,', '    "select1": constants.SELECT_ALL_THAT_APPLY,'))
seed("C13", "end-control-no-underscore", "C13.R2", (XJ, '    r"^(?P<end>end)(\\s|_)(?P<type>("', '    r"^(?P<end>end)(\\s)(?P<type>("'))
seed("C13", "first-token-not-snake-cased", "C13.R3", ("pyxform/parsing/sheet_headers.py", "    new_header = to_snake_case(tokens[0])", "    new_header = tokens[0]"))
seed("C13", "rows-filtered-before-numbering", "C13.R5", (XJ, "    for row_number, row in enumerate(survey_sheet.data, start=2):", "    for row_number, row in enumerate((r for r in survey_sheet.data if r), start=2):"))
seed("C13", "language-token-not-stripped", "C13.R3", ("pyxform/parsing/sheet_headers.py", "        tokens = tuple(t.strip() for t in header.split(group_delimiter))", "        tokens = tuple(header.split(group_delimiter))"))
# ---- C14
seed("C14", "nsmap-mutated", "C14.R1", (SV, "            nsmap = NSMAP.copy()", "            nsmap = NSMAP"))
seed("C14", "unsorted-extras", "C14.R4", ("pyxform/validators/pyxform/parameters_generic.py", 'e=", ".join(sorted(extras))', 'e=", ".join(extras)'))
seed("C14", "placeholder-forms-in-set", "C14.R4", (SV, "                paths[path] = {**paths.get(path, {}), **dict.fromkeys(content)}", "                paths[path] = paths.get(path, set()).union(content)"))
seed("C14", "pulldata-set-order", "C14.R4", (SV, "            for formula_name in sorted(constants.EXTERNAL_INSTANCES):", "            for formula_name in constants.EXTERNAL_INSTANCES:"))
seed("C14", "lexer-unlocked", "C14.R6", ("pyxform/parsing/expression.py", "    with _EXPRESSION_LEXER_LOCK:\n        tokens, remainder = _EXPRESSION_LEXER.scan(text)", "    tokens, remainder = _EXPRESSION_LEXER.scan(text)"))
seed("C14", "module-level-memo", "C14.R1", (U, "def default_is_dynamic(element_default, element_type=None):", "_DYN_CACHE = {}\n\n\ndef default_is_dynamic(element_default, element_type=None):"),
     (U, "    if not element_default or not isinstance(element_default, str):\n        return False\n", "    if not element_default or not isinstance(element_default, str):\n        return False\n    if element_default in _DYN_CACHE:\n        return _DYN_CACHE[element_default]\n    _DYN_CACHE[element_default] = True\n"))
seed("C14", "temp-file-not-in-finally", "C14.R5", (SV, "        finally:\n            tmp_path.unlink(missing_ok=True)\n        return xml", "        except ValidationError:\n            tmp_path.unlink(missing_ok=True)\n            raise\n        tmp_path.unlink(missing_ok=True)\n        return xml"))
# ---- C15
seed("C15", "any-to-all", "C15.R4", (U, "            if any(c.nodeType in NODE_TYPE_TEXT for c in self.childNodes):", "            if all(c.nodeType in NODE_TYPE_TEXT for c in self.childNodes):"))
seed("C15", "newl-into-mixed-content", "C15.R4", (U, '                    cnode.writexml(writer, "", "", "")', '                    cnode.writexml(writer, "", "", newl)'))
seed("C15", "cdata-not-text", "C15.R4", (U, "NODE_TYPE_TEXT = {Node.TEXT_NODE, Node.CDATA_SECTION_NODE}", "NODE_TYPE_TEXT = {Node.TEXT_NODE}"))
seed("C15", "pretty-postprocessing", "C15.R1", (SV, 'self.xml().toprettyxml(indent="  ")}"""', 'self.xml().toprettyxml(indent="  ").replace("> <", "><")}"""'))
seed("C15", "text-stripped", "C15.R6", (U, "        text_node.data = unicode_args[0]", "        text_node.data = unicode_args[0].strip()"))
# ---- C16
seed("C16", "qtd-kwargs-not-restored", "C16.R1", (Q, '''        result = super().to_json_dict(delete_keys=to_delete)
        if self._qtd_kwargs:
            for k, v in self._qtd_kwargs.items():
                if v:
                    result[k] = v
        return result''', '''        result = super().to_json_dict(delete_keys=to_delete)
        return result'''))
seed("C16", "instance-deleted", "C16.R1", (SE, '        to_delete = chain(SURVEY_ELEMENT_EXTRA_FIELDS, ("extra_data",))', '        to_delete = chain(SURVEY_ELEMENT_EXTRA_FIELDS, ("extra_data", "instance"))'))
seed("C16", "truthy-default", "C16.R3", (Q, "        self.default: str | None = None", '        self.default: str | None = "0"'))
# ---- C17
seed("C17", "valueerror-raised", "C17.R1", (Q, '''            raise PyXFormError(f"Unknown question type '{type_arg}'.")''', '''            raise ValueError(f"Unknown question type '{type_arg}'.")'''))
seed("C17", "loop-list-guard-removed", "C17.R4", (XJ, '''                    if list_name not in choices:
                        raise PyXFormError(
                            ROW_FORMAT_STRING % row_number
                            + " List name not in columns sheet: "
                            + list_name
                        )
''', ""))
seed("C17", "row-prefix-dropped", "C17.R2", (XJ, '                    ROW_FORMAT_STRING % row_number + " Missing calculation."', '                    "Missing calculation."'))
seed("C17", "trigger-validation-dropped", "C17.R3", (XJ, "    qt.validate_references(referrers=trigger_references, questions=question_names)", "    pass"))
# ---- C18
seed("C18", "temp-file-leak-on-error", "C18.R1", (SV, "        finally:\n            tmp_path.unlink(missing_ok=True)\n        return xml", "        except ValidationError:\n            tmp_path.unlink(missing_ok=True)\n            raise\n        tmp_path.unlink(missing_ok=True)\n        return xml"))
seed("C18", "reject-threshold", "C18.R3", ("pyxform/validators/odk_validate/__init__.py", "    elif result.return_code > 0:", "    elif result.return_code > 1:"))
seed("C18", "cli-keeps-output-on-reject", "C18.R5", (XF, "            Path(args.output_path).unlink(missing_ok=True)\n", ""))
seed("C18", "write-before-convert", "C18.R4", (XF, '''    warnings = []
    result = convert(''', '''    warnings = []
    open(xform_path, mode="w", encoding="utf-8").close()
    result = convert('''))
# ---- C19
seed("C19", "uuid-setvalue-condition", "C19.R1", ("pyxform/entities/entity_declaration.py", "        if create_condition or not entity_id_expression:", "        if create_condition or not update_condition:"))
seed("C19", "saveto-in-repeat-allowed", "C19.R2", ("pyxform/entities/entities_parsing.py", "    if in_repeat:", "    if in_repeat and False:"))
seed("C19", "saveto-validated-after-append", "C19.R2", (XJ, '''        in_repeat = any(ancestor["control_type"] == "repeat" for ancestor in stack)
        validate_entity_saveto(row, row_number, in_repeat, entity_declaration)
''', '''        in_repeat = stack[-1]["control_type"] == "repeat"
        validate_entity_saveto(row, row_number, in_repeat, entity_declaration)
'''))
# ---- C20
seed("C20", "misspelling-threshold", "C20.R4", ("pyxform/validators/pyxform/sheet_misspellings.py", "        if 2 >= levenshtein_distance(_k.lower(), key)", "        if 2 > levenshtein_distance(_k.lower(), key)"))
seed("C20", "levenshtein-cost", "C20.R4", (U, "            deletion_cost = v0[j + 1] + 1", "            deletion_cost = v0[j + 1] + 2"))
seed("C20", "iana-default-not-skipped", "C20.R4", ("pyxform/validators/pyxform/iana_subtags/validation.py", '        if lang == "default" or len(lang) < 3:', "        if len(lang) < 3:"))
seed("C20", "default-language-never-missing", "C20.R5", ("pyxform/validators/pyxform/translations_checks.py", "                if seen_tran not in lang_trans:", "                if seen_tran not in lang_trans and lang != const.DEFAULT_LANGUAGE_VALUE:"))
seed("C20", "warning-count-read", "C20.R1", (XJ, '''            else:
                warnings.append(
                    (ROW_FORMAT_STRING % row_number)
                    + " Use the max-pixels parameter''', '''            elif len(warnings) < 3:
                warnings.append(
                    (ROW_FORMAT_STRING % row_number)
                    + " Use the max-pixels parameter'''))

# ------------------------------------------------------------------ benign variants (must stay silent for every property)
B = [
    {"name": "ruff-format-60", "kind": "ruff", "args": ["format", "--line-length", "60"]},
    {"name": "ruff-format-120", "kind": "ruff", "args": ["format", "--line-length", "120"]},
    {"name": "extract-local-in-xml", "kind": "edits", "edits": [(SV, "        nsmap = self.get_nsmap()\n\n        return node(", "        nsmap = self.get_nsmap()\n        title_text = self.title\n\n        return node("),
                                                              (SV, 'node("h:head", node("h:title", self.title), self.xml_model()),', 'node("h:head", node("h:title", title_text), self.xml_model()),')]},
    {"name": "comment-and-docstring-noise", "kind": "edits", "edits": [(U, "def node(*args, **kwargs) -> DetachableElement:", "# build one element\ndef node(*args, **kwargs) -> DetachableElement:"),
                                                                     (SEC, "    def validate(self):\n        super().validate()", "    def validate(self):\n        # validate self, then children\n        super().validate()")]},
    {"name": "invert-if-in-writer", "kind": "edits", "edits": [(U, '''        if self.childNodes:
            writer.write(">")''', '''        has_children = bool(self.childNodes)
        if has_children:
            writer.write(">")''')]},
    {"name": "rename-local-in-row-loop", "kind": "edits", "edits": [(XJ, "                    app_package_name = str(parameters[\"app\"])", "                    pkg_name = str(parameters[\"app\"])"),
                                                                     (XJ, "validate_android_package_name(app_package_name)", "validate_android_package_name(pkg_name)"),
                                                                     (XJ, 'new_dict["control"].update({"intent": app_package_name})', 'new_dict["control"].update({"intent": pkg_name})')]},
    {"name": "guard-inverted-continue", "kind": "edits", "edits": [(XJ, "        # skip empty rows\n        if not row:\n            continue\n", "        # skip empty rows\n        if not row:\n            continue\n        # (blank rows keep their number)\n")]},
]
