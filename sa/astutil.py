"""Small AST helpers shared by the checks."""

from __future__ import annotations

import ast

from .loader import FuncInfo, Repo, ancestors, norm, parent, walk_own


def call_name(call: ast.Call) -> str:
    """Last component of the callee: f(...) -> 'f', a.b.c(...) -> 'c'."""
    f = call.func
    if isinstance(f, ast.Name):
        return f.id
    if isinstance(f, ast.Attribute):
        return f.attr
    return ""


def callee_text(call: ast.Call) -> str:
    return norm(call.func)


def calls_named(fn_node: ast.AST, name: str, own: bool = True):
    it = walk_own(fn_node) if own else ast.walk(fn_node)
    return [n for n in it if isinstance(n, ast.Call) and call_name(n) == name]


def all_calls(fn_node: ast.AST, own: bool = True):
    it = walk_own(fn_node) if own else ast.walk(fn_node)
    return [n for n in it if isinstance(n, ast.Call)]


def guards_of(node: ast.AST, stop: ast.AST | None = None):
    """Enclosing `if`/`while`/ternary guards of `node` inside its function:
    list of (test_expr, polarity) from outermost to innermost.  Also counts
    `elif` chains (the negation of previous tests)."""
    out = []
    child = node
    for anc in ancestors(node):
        if anc is stop or isinstance(anc, ast.FunctionDef | ast.AsyncFunctionDef | ast.Lambda | ast.ClassDef):
            break
        if isinstance(anc, ast.If | ast.While):
            if _in_list(child, anc.body):
                out.append((anc.test, True))
            elif _in_list(child, anc.orelse):
                out.append((anc.test, False))
        elif isinstance(anc, ast.IfExp):
            if child is anc.body:
                out.append((anc.test, True))
            elif child is anc.orelse:
                out.append((anc.test, False))
        elif isinstance(anc, ast.BoolOp):
            # `a and b`: b is evaluated only if a is truthy
            idx = next((i for i, v in enumerate(anc.values) if v is child), None)
            if idx:
                for prev in anc.values[:idx]:
                    out.append((prev, isinstance(anc.op, ast.And)))
        child = anc
    out.reverse()
    return out


def _in_list(node, lst):
    return any(node is x for x in lst)


def early_exit_guards(node: ast.AST, stop: ast.AST | None = None):
    """Guards established by the early-exit idiom: an earlier sibling `if T: ...raise/return/continue/break` (no else) in
    any statement list enclosing `node` means T is false where `node` runs.  Returns [(test, False), ...]."""
    out = []
    child = node
    for anc in ancestors(node):
        if anc is stop or isinstance(anc, ast.FunctionDef | ast.AsyncFunctionDef | ast.Lambda | ast.ClassDef):
            stop_here = True
        else:
            stop_here = False
        for field in ("body", "orelse", "finalbody"):
            lst = getattr(anc, field, None)
            if isinstance(lst, list) and _in_list(child, lst):
                for prev in lst:
                    if prev is child:
                        break
                    if isinstance(prev, ast.If) and not prev.orelse and prev.body and isinstance(prev.body[-1], ast.Raise | ast.Return | ast.Continue | ast.Break):
                        out.append((prev.test, False))
        if stop_here:
            break
        child = anc
    return out


def guard_texts(node: ast.AST, stop=None) -> list[str]:
    out = []
    for t, pol in guards_of(node, stop):
        # `not c` in the else branch (an early return turned into the complementary branch) is `c`
        while isinstance(t, ast.UnaryOp) and isinstance(t.op, ast.Not):
            t, pol = t.operand, not pol
        out.append(("" if pol else "not ") + norm(t))
    return out


def enclosing_loops(node: ast.AST):
    out = []
    for anc in ancestors(node):
        if isinstance(anc, ast.FunctionDef | ast.AsyncFunctionDef | ast.Lambda):
            break
        if isinstance(anc, ast.For | ast.While | ast.AsyncFor):
            out.append(anc)
        if isinstance(anc, ast.ListComp | ast.SetComp | ast.DictComp | ast.GeneratorExp):
            out.append(anc)
    return out


def enclosing_function(repo: Repo, module, node: ast.AST) -> FuncInfo | None:
    for anc in [node, *ancestors(node)]:
        if isinstance(anc, ast.FunctionDef | ast.AsyncFunctionDef):
            for f in module.functions.values():
                if f.node is anc:
                    return f
    return None


def names_in(node: ast.AST) -> set[str]:
    return {n.id for n in ast.walk(node) if isinstance(n, ast.Name)}


def attr_chain(node: ast.AST) -> str | None:
    """a.b.c -> 'a.b.c' (only Name/Attribute chains)."""
    parts = []
    while isinstance(node, ast.Attribute):
        parts.append(node.attr)
        node = node.value
    if isinstance(node, ast.Name):
        parts.append(node.id)
        return ".".join(reversed(parts))
    return None


def const_str(ctx, module, node: ast.AST):
    """Fold an expression to a Python constant using the repo's module-level
    constants; returns (True, value) or (False, None)."""
    from .interp import Sym, SymStr
    from .loader import AnalysisError

    try:
        it = ctx.interp("fold")
        it.reset([])
        v = it.eval(node, {}, module)
    except AnalysisError:
        return False, None
    except Exception:
        return False, None
    if isinstance(v, Sym | SymStr):
        return False, None
    return True, v


def stmt_of(node: ast.AST) -> ast.stmt:
    n = node
    while not isinstance(n, ast.stmt):
        n = parent(n)
    return n


def is_self_attr(node: ast.AST, attr: str | None = None, selfname: str = "self") -> bool:
    return (isinstance(node, ast.Attribute) and isinstance(node.value, ast.Name)
            and node.value.id == selfname and (attr is None or node.attr == attr))


def kw(call: ast.Call, name: str):
    for k in call.keywords:
        if k.arg == name:
            return k.value
    return None


def star_kwargs(call: ast.Call):
    return [k.value for k in call.keywords if k.arg is None]


def single_defs(fn_node: ast.AST) -> dict[str, ast.AST]:
    """Locals of a function that have exactly one definition, a plain `name = expr` (the temporaries the helper
    expansion introduces, and ordinary single-assignment locals): name -> expr."""
    cache = getattr(fn_node, "_sa_single_defs", None)
    if cache is not None:
        return cache
    counts: dict[str, int] = {}
    vals: dict[str, ast.AST] = {}
    for x in walk_own(fn_node):
        if isinstance(x, ast.Name) and isinstance(x.ctx, ast.Store | ast.Del):
            counts[x.id] = counts.get(x.id, 0) + 1
        elif isinstance(x, ast.arg):
            counts[x.arg] = counts.get(x.arg, 0) + 2
        elif isinstance(x, ast.ExceptHandler) and x.name:
            counts[x.name] = counts.get(x.name, 0) + 2
        if isinstance(x, ast.Assign) and len(x.targets) == 1 and isinstance(x.targets[0], ast.Name):
            vals[x.targets[0].id] = x.value
    a = getattr(fn_node, "args", None)
    if a is not None:
        for p in [*a.posonlyargs, *a.args, *a.kwonlyargs, *([a.vararg] if a.vararg else []), *([a.kwarg] if a.kwarg else [])]:
            counts[p.arg] = counts.get(p.arg, 0) + 2
    out = {n: v for n, v in vals.items() if counts.get(n) == 1}
    try:
        fn_node._sa_single_defs = out  # type: ignore[attr-defined]
    except AttributeError:
        pass
    return out


def subst_locals(expr: ast.AST, fn_node: ast.AST, depth: int = 5, keep: set[str] | frozenset = frozenset()) -> ast.AST:
    """`expr` with single-definition locals replaced by their defining expressions (to a bounded depth)."""
    defs = single_defs(fn_node)
    if not defs:
        return expr

    def clone(n, d):
        if isinstance(n, ast.Name) and isinstance(n.ctx, ast.Load) and n.id in defs and n.id not in keep and d > 0:
            return clone(defs[n.id], d - 1)
        if isinstance(n, list):
            return [clone(x, d) for x in n]
        if not isinstance(n, ast.AST):
            return n
        new = type(n)()
        for f, v in ast.iter_fields(n):
            setattr(new, f, clone(v, d))
        for a in ("lineno", "col_offset", "end_lineno", "end_col_offset"):
            if hasattr(n, a):
                setattr(new, a, getattr(n, a))
        return new

    return clone(expr, depth)


def fold_in(ctx, fi: FuncInfo, expr: ast.AST):
    """const_str after substituting single-definition locals of `fi`."""
    ok, v = const_str(ctx, fi.module, expr)
    if ok:
        return ok, v
    return const_str(ctx, fi.module, subst_locals(expr, fi.node))


def message_skeleton(ctx, module, expr: ast.AST) -> str:
    """The literal skeleton of a message-building expression: constant pieces verbatim, computed pieces as `{}` —
    independent of how the message is assembled (f-string, +, %, a temporary) and of variable names."""
    def sk(n) -> str:
        if isinstance(n, ast.Constant):
            return str(n.value) if isinstance(n.value, str) else "{}"
        if isinstance(n, ast.JoinedStr):
            return "".join(sk(v) for v in n.values)
        if isinstance(n, ast.FormattedValue):
            ok, v = const_str(ctx, module, n.value)
            return str(v) if ok and isinstance(v, str | int) else "{}"
        if isinstance(n, ast.BinOp) and isinstance(n.op, ast.Add):
            return sk(n.left) + sk(n.right)
        if isinstance(n, ast.BinOp) and isinstance(n.op, ast.Mod):
            left = sk(n.left)
            return left.replace("%s", "{}").replace("%d", "{}").replace("%r", "{}")
        if isinstance(n, ast.Call) and isinstance(n.func, ast.Attribute) and n.func.attr == "format":
            import re as _r
            return _r.sub(r"\{[^{}]*\}", "{}", sk(n.func.value))
        if isinstance(n, ast.Call) and isinstance(n.func, ast.Attribute) and n.func.attr == "join" and n.args:
            return "{}"
        ok, v = const_str(ctx, module, n)
        if ok and isinstance(v, str):
            return v
        return "{}"
    s = sk(expr)
    while "{}{}" in s:
        s = s.replace("{}{}", "{}")
    return " ".join(s.split())
