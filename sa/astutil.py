"""Small AST helpers shared by the checks."""

from __future__ import annotations

import ast

from .loader import FuncInfo, Repo, ancestors, norm, parent, walk_own


def call_name(call: ast.Call) -> str:
    """Last component of the callee: f(...) -> 'f', a.b.c(...) -> 'c'."""
    f = call.func
    if isinstance(f, ast.Name):
        return f.id
    if isinstance(f, ast.Attribute):
        return f.attr
    return ""


def callee_text(call: ast.Call) -> str:
    return norm(call.func)


def calls_named(fn_node: ast.AST, name: str, own: bool = True):
    it = walk_own(fn_node) if own else ast.walk(fn_node)
    return [n for n in it if isinstance(n, ast.Call) and call_name(n) == name]


def all_calls(fn_node: ast.AST, own: bool = True):
    it = walk_own(fn_node) if own else ast.walk(fn_node)
    return [n for n in it if isinstance(n, ast.Call)]


def guards_of(node: ast.AST, stop: ast.AST | None = None):
    """Enclosing `if`/`while`/ternary guards of `node` inside its function:
    list of (test_expr, polarity) from outermost to innermost.  Also counts
    `elif` chains (the negation of previous tests)."""
    out = []
    child = node
    for anc in ancestors(node):
        if anc is stop or isinstance(anc, ast.FunctionDef | ast.AsyncFunctionDef | ast.Lambda | ast.ClassDef):
            break
        if isinstance(anc, ast.If | ast.While):
            if _in_list(child, anc.body):
                out.append((anc.test, True))
            elif _in_list(child, anc.orelse):
                out.append((anc.test, False))
        elif isinstance(anc, ast.IfExp):
            if child is anc.body:
                out.append((anc.test, True))
            elif child is anc.orelse:
                out.append((anc.test, False))
        elif isinstance(anc, ast.BoolOp):
            # `a and b`: b is evaluated only if a is truthy
            idx = next((i for i, v in enumerate(anc.values) if v is child), None)
            if idx:
                for prev in anc.values[:idx]:
                    out.append((prev, isinstance(anc.op, ast.And)))
        child = anc
    out.reverse()
    return out


def _in_list(node, lst):
    return any(node is x for x in lst)


def guard_texts(node: ast.AST, stop=None) -> list[str]:
    return [("" if pol else "not ") + norm(t) for t, pol in guards_of(node, stop)]


def enclosing_loops(node: ast.AST):
    out = []
    for anc in ancestors(node):
        if isinstance(anc, ast.FunctionDef | ast.AsyncFunctionDef | ast.Lambda):
            break
        if isinstance(anc, ast.For | ast.While | ast.AsyncFor):
            out.append(anc)
        if isinstance(anc, ast.ListComp | ast.SetComp | ast.DictComp | ast.GeneratorExp):
            out.append(anc)
    return out


def enclosing_function(repo: Repo, module, node: ast.AST) -> FuncInfo | None:
    for anc in [node, *ancestors(node)]:
        if isinstance(anc, ast.FunctionDef | ast.AsyncFunctionDef):
            for f in module.functions.values():
                if f.node is anc:
                    return f
    return None


def names_in(node: ast.AST) -> set[str]:
    return {n.id for n in ast.walk(node) if isinstance(n, ast.Name)}


def attr_chain(node: ast.AST) -> str | None:
    """a.b.c -> 'a.b.c' (only Name/Attribute chains)."""
    parts = []
    while isinstance(node, ast.Attribute):
        parts.append(node.attr)
        node = node.value
    if isinstance(node, ast.Name):
        parts.append(node.id)
        return ".".join(reversed(parts))
    return None


def const_str(ctx, module, node: ast.AST):
    """Fold an expression to a Python constant using the repo's module-level
    constants; returns (True, value) or (False, None)."""
    from .interp import Sym, SymStr
    from .loader import AnalysisError

    try:
        it = ctx.interp("fold")
        it.reset([])
        v = it.eval(node, {}, module)
    except AnalysisError:
        return False, None
    except Exception:
        return False, None
    if isinstance(v, Sym | SymStr):
        return False, None
    return True, v


def stmt_of(node: ast.AST) -> ast.stmt:
    n = node
    while not isinstance(n, ast.stmt):
        n = parent(n)
    return n


def is_self_attr(node: ast.AST, attr: str | None = None, selfname: str = "self") -> bool:
    return (isinstance(node, ast.Attribute) and isinstance(node.value, ast.Name)
            and node.value.id == selfname and (attr is None or node.attr == attr))


def kw(call: ast.Call, name: str):
    for k in call.keywords:
        if k.arg == name:
            return k.value
    return None


def star_kwargs(call: ast.Call):
    return [k.value for k in call.keywords if k.arg is None]
