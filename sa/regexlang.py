"""Character-level facts about a regular expression, read off its syntax tree (re._parser): which characters can
occur anywhere in a match, and which can occur first.  Parsing only - the pattern is never matched against data."""

from __future__ import annotations

import re._parser as sre_parse  # type: ignore
import re._constants as sre_c  # type: ignore

EVERYTHING = [(0, 0x10FFFF)]


def _class_ranges(items):
    neg = False
    out = []
    for op, av in items:
        opn = str(op)
        if opn == "NEGATE":
            neg = True
        elif opn == "LITERAL":
            out.append((av, av))
        elif opn == "RANGE":
            out.append((av[0], av[1]))
        elif opn == "CATEGORY":
            return EVERYTHING  # \w, \d ...: not enumerated; treated as unknown (everything)
    if neg:
        return EVERYTHING
    return out


def universe(pattern: str, flags: int = 0):
    """Ranges of code points that can occur at some position of some match."""
    tree = sre_parse.parse(pattern, flags)
    out = []

    def walk(t):
        for op, av in t:
            opn = str(op)
            if opn == "LITERAL":
                out.append((av, av))
            elif opn in ("NOT_LITERAL", "ANY"):
                out.extend(EVERYTHING)
            elif opn == "IN":
                out.extend(_class_ranges(av))
            elif opn == "BRANCH":
                for alt in av[1]:
                    walk(alt)
            elif opn == "SUBPATTERN":
                walk(av[3])
            elif opn in ("MAX_REPEAT", "MIN_REPEAT", "POSSESSIVE_REPEAT"):
                walk(av[2])
            elif opn in ("ASSERT", "ASSERT_NOT"):
                pass
            elif opn == "ATOMIC_GROUP":
                walk(av)
            elif opn == "GROUPREF_EXISTS":
                walk(av[1])
                if av[2] is not None:
                    walk(av[2])
    walk(tree)
    return out


def first_set(pattern: str, flags: int = 0):
    """Ranges of code points that can be the first character of a match (anchors ignored)."""
    tree = sre_parse.parse(pattern, flags)

    def fs(t):
        """-> (ranges, can_be_empty)"""
        acc = []
        for op, av in t:
            opn = str(op)
            if opn == "AT":
                continue
            if opn == "LITERAL":
                return acc + [(av, av)], False
            if opn in ("NOT_LITERAL", "ANY"):
                return acc + EVERYTHING, False
            if opn == "IN":
                return acc + _class_ranges(av), False
            if opn == "BRANCH":
                empty_any = False
                for alt in av[1]:
                    r, e = fs(alt)
                    acc += r
                    empty_any = empty_any or e
                if not empty_any:
                    return acc, False
                continue
            if opn == "SUBPATTERN":
                r, e = fs(av[3])
                acc += r
                if not e:
                    return acc, False
                continue
            if opn in ("MAX_REPEAT", "MIN_REPEAT", "POSSESSIVE_REPEAT"):
                lo = av[0]
                r, e = fs(av[2])
                acc += r
                if lo > 0 and not e:
                    return acc, False
                continue
            if opn in ("ASSERT", "ASSERT_NOT"):
                continue
            return acc + EVERYTHING, False
        return acc, True

    return fs(tree)[0]


def subtract(ranges, allowed):
    """Parts of `ranges` not covered by `allowed` (both lists of inclusive (lo, hi))."""
    allowed = sorted(allowed)
    bad = []
    for lo, hi in ranges:
        cur = lo
        for a, b in allowed:
            if b < cur:
                continue
            if a > hi:
                break
            if a > cur:
                bad.append((cur, min(hi, a - 1)))
            cur = max(cur, b + 1)
            if cur > hi:
                break
        if cur <= hi:
            bad.append((cur, hi))
    # merge
    bad.sort()
    out = []
    for lo, hi in bad:
        if out and lo <= out[-1][1] + 1:
            out[-1] = (out[-1][0], max(out[-1][1], hi))
        else:
            out.append((lo, hi))
    return out


# XML 1.0 (fifth edition) productions [4] NameStartChar and [4a] NameChar, without ':' (Namespaces in XML: NCName)
NCNAME_START = [(0x41, 0x5A), (0x5F, 0x5F), (0x61, 0x7A), (0xC0, 0xD6), (0xD8, 0xF6), (0xF8, 0x2FF), (0x370, 0x37D), (0x37F, 0x1FFF),
                (0x200C, 0x200D), (0x2070, 0x218F), (0x2C00, 0x2FEF), (0x3001, 0xD7FF), (0xF900, 0xFDCF), (0xFDF0, 0xFFFD), (0x10000, 0xEFFFF)]
NCNAME_CHAR = NCNAME_START + [(0x2D, 0x2E), (0x30, 0x39), (0xB7, 0xB7), (0x300, 0x36F), (0x203F, 0x2040)]


def fmt(ranges):
    return ", ".join(f"U+{a:04X}" if a == b else f"U+{a:04X}-U+{b:04X}" for a, b in ranges[:6]) + (" ..." if len(ranges) > 6 else "")
