"""Provenance (string typestate) of expressions, with local def-use and
depth-bounded interprocedural summaries; census of XML construction sites.

Tags (strings):
  LIT            literal / folded constant
  VNAME          `.name` of a survey element (validated XML name, see C02.R4)
  XPATH          result of get_xpath() (or a string built around it)
  SUBST          result of the reference substituter insert_xpaths
  ESC            result of escape_text_for_xml
  OUTTEXT#n / OUTFLAG#n   the two components of insert_output_values call n
  NODE           an XML element object
  IDX            an integer index / counter
  CELL:<field>   author-controlled value read from element field <field>
  CELLKEY:<field>  a *key* of an author-controlled dict field
  PARAM:<f>.<p>  parameter that could not be resolved through call sites
  UNK:<text>     unclassified
Joins are unions; rules state which tags a sink accepts, so imprecision can
only produce a report, never hide one."""

from __future__ import annotations

import ast

from .astutil import call_name, const_str
from .loader import FuncInfo, norm, parent, walk_own
from .loader import ancestors as _ancestors

ROLE_CALLS = {
    "get_xpath": "XPATH",
    "insert_xpaths": "SUBST",
    "escape_text_for_xml": "ESC",
    "node": "NODE",
}
STR_PASS = {"strip", "lower", "upper", "lstrip", "rstrip", "replace", "format", "capitalize", "partition", "split",
            "rsplit", "splitlines", "copy", "title", "encode", "decode", "groups", "group", "groupdict"}

ELEMENT_SELF_NAMES = {"self"}


class Prov:
    def __init__(self, ctx, max_depth: int = 6):
        self.ctx = ctx
        self.repo = ctx.repo
        self.max_depth = max_depth
        self._memo = {}
        self._callsites = None
        self.out_calls = {}  # id(call node) -> index

    # ------------------------------------------------------------ helpers
    def _assignments(self, fi: FuncInfo, name: str):
        """All bindings of local `name` in fi: list of (kind, node, extra)."""
        key = ("assign", fi.fq, name)
        if key in self._memo:
            return self._memo[key]
        out = []
        for x in walk_own(fi.node):
            if isinstance(x, ast.Assign):
                for t in x.targets:
                    self._bind_target(t, x.value, name, out, "assign")
            elif isinstance(x, ast.AnnAssign) and x.value is not None:
                self._bind_target(x.target, x.value, name, out, "assign")
            elif isinstance(x, ast.AugAssign):
                if isinstance(x.target, ast.Name) and x.target.id == name:
                    out.append(("aug", x.value, None))
            elif isinstance(x, ast.For | ast.comprehension):
                self._bind_target(x.target, x.iter, name, out, "iter")
            elif isinstance(x, ast.With):
                for it in x.items:
                    if it.optional_vars is not None:
                        self._bind_target(it.optional_vars, it.context_expr, name, out, "assign")
            elif isinstance(x, ast.NamedExpr) and x.target.id == name:
                out.append(("assign", x.value, None))
            elif isinstance(x, ast.ExceptHandler) and x.name == name:
                out.append(("exc", x, None))
        self._memo[key] = out
        return out

    def _bind_target(self, target, value, name, out, kind):
        if isinstance(target, ast.Name):
            if target.id == name:
                out.append((kind, value, None))
        elif isinstance(target, ast.Tuple | ast.List):
            for i, e in enumerate(target.elts):
                if isinstance(e, ast.Name) and e.id == name:
                    out.append((kind, value, i))
                elif isinstance(e, ast.Tuple | ast.List):
                    for j, e2 in enumerate(e.elts):
                        if isinstance(e2, ast.Name) and e2.id == name:
                            out.append((kind, value, (i, j)))

    def callsites(self):
        if self._callsites is None:
            cs = {}
            for fi in self.repo.all_functions():
                for c in walk_own(fi.node):
                    if isinstance(c, ast.Call):
                        cs.setdefault(call_name(c), []).append((fi, c))
            self._callsites = cs
        return self._callsites

    def functions_named(self, name: str):
        return [f for f in self.repo.all_functions() if f.name == name]

    # ----------------------------------------------------------- classify
    def classify(self, expr: ast.AST, fi: FuncInfo, depth: int = 0, env=None) -> frozenset:
        """env: optional {param name: frozenset} for interprocedural summaries."""
        if expr is None:
            return frozenset({"LIT"})
        has_call = any(isinstance(n, ast.Call) for n in ast.walk(expr))
        ok, v = const_str(self.ctx, fi.module, expr) if not has_call and (not isinstance(expr, ast.Name) or self._is_global(expr, fi)) else (False, None)
        if ok and not _has_local_names(expr, fi):
            return frozenset({"LIT"})
        m = getattr(self, "c_" + type(expr).__name__, None)
        if m is None:
            return frozenset({f"UNK:{norm(expr)[:60]}"})
        return m(expr, fi, depth, env or {})

    def _is_global(self, name: ast.Name, fi: FuncInfo) -> bool:
        return not _is_local(name.id, fi)

    def c_Constant(self, e, fi, d, env):
        return frozenset({"LIT"})

    def c_JoinedStr(self, e, fi, d, env):
        out = {"LIT"}
        for v in e.values:
            if isinstance(v, ast.FormattedValue):
                out |= self.classify(v.value, fi, d, env)
        return frozenset(out)

    def c_BinOp(self, e, fi, d, env):
        return self.classify(e.left, fi, d, env) | self.classify(e.right, fi, d, env)

    def c_BoolOp(self, e, fi, d, env):
        out = set()
        for v in e.values:
            out |= self.classify(v, fi, d, env)
        return frozenset(out)

    def c_IfExp(self, e, fi, d, env):
        return self.classify(e.body, fi, d, env) | self.classify(e.orelse, fi, d, env)

    def c_Compare(self, e, fi, d, env):
        return frozenset({"LIT"})

    def c_UnaryOp(self, e, fi, d, env):
        return frozenset({"LIT"}) if isinstance(e.op, ast.Not) else self.classify(e.operand, fi, d, env)

    def c_Tuple(self, e, fi, d, env):
        out = set()
        for v in e.elts:
            out |= self.classify(v.value if isinstance(v, ast.Starred) else v, fi, d, env)
        return frozenset(out or {"LIT"})

    c_List = c_Tuple
    c_Set = c_Tuple

    def c_Starred(self, e, fi, d, env):
        return self.classify(e.value, fi, d, env)

    def c_Dict(self, e, fi, d, env):
        out = set()
        for v in e.values:
            out |= self.classify(v, fi, d, env)
        return frozenset(out or {"LIT"})

    def c_Subscript(self, e, fi, d, env):
        base = self.classify(e.value, fi, d, env)
        out = set()
        for t in base:
            if t.startswith("CELL:") or t.startswith("CELLKEY:"):
                ok, k = const_str(self.ctx, fi.module, e.slice)
                out.add(f"{t}.{k}" if ok and isinstance(k, str) and t.count(".") == 0 else t)
            else:
                out.add(t)
        return frozenset(out)

    def c_Attribute(self, e, fi, d, env):
        # element field reads
        if isinstance(e.value, ast.Name) and not self._is_global(e.value, fi) or isinstance(e.value, ast.Attribute):
            base = self.classify(e.value, fi, d, env)
            if "ELEM" in base or (isinstance(e.value, ast.Name) and e.value.id in ELEMENT_SELF_NAMES and fi_is_element_method(self, fi)):
                if e.attr == "name":
                    return frozenset({"VNAME"})
                if e.attr in ("parent",):
                    return frozenset({"ELEM"})
                if e.attr in ("children", "options"):
                    return frozenset({"ELEMS"})
                return frozenset({f"CELL:{e.attr}"})
            if e.attr in ("options", "children") and any(t.startswith("CELL:") for t in base):
                return frozenset({"ELEMS"})
            if any(t.startswith("OUT") or t in ("NODE",) for t in base):
                return base
            return frozenset({f"{t}" if not t.startswith("UNK") else f"UNK:{norm(e)[:60]}" for t in base}) or frozenset({f"UNK:{norm(e)[:60]}"})
        ok, _ = const_str(self.ctx, fi.module, e)
        if ok:
            return frozenset({"LIT"})
        return frozenset({f"UNK:{norm(e)[:60]}"})

    def c_Name(self, e, fi, d, env):
        name = e.id
        if name in env:
            return env[name]
        if name in ELEMENT_SELF_NAMES and fi_is_element_method(self, fi):
            return frozenset({"ELEM"})
        if not _is_local(name, fi):
            from .loader import ancestors as _anc
            for a in _anc(e):
                if isinstance(a, ast.Lambda) and any(p.arg == name for p in a.args.args):
                    return frozenset({"LAMBDAPARAM"})
            # closure variable of an enclosing function?
            p = fi.parent
            while p is not None:
                if _is_local(name, p):
                    return self.c_Name(e, p, d, {})
                p = p.parent
            ok, _ = const_str(self.ctx, fi.module, e)
            return frozenset({"LIT"}) if ok else frozenset({f"UNK:{name}"})
        out = set()
        binds = self._assignments(fi, name)
        san = self._sanitised_use(e, fi, name)
        key = ("name", fi.fq, name, san is not None)
        if key in self._memo:
            return self._memo[key]
        self._memo[key] = frozenset({"LIT"})  # cycle guard (x = x + ...)
        if san is not None:
            # definitions before the guarded re-definition are killed for this (truthy) use
            binds = [b for b in binds if (getattr(b[1], "lineno", 0), getattr(b[1], "col_offset", 0)) >= (san.lineno, san.col_offset)]
        for kind, val, idx in binds:
            if kind in ("assign", "aug"):
                out |= self._component(val, idx, fi, d, env)
            elif kind == "iter":
                out |= self._iter_component(val, idx, fi, d, env)
            elif kind == "exc":
                out.add("UNK:exception")
        if _is_param(name, fi):
            out |= self._param(name, fi, d)
        res = frozenset(out or {f"UNK:{name}"})
        self._memo[key] = res
        return res

    def _sanitised_use(self, use: ast.Name, fi: FuncInfo, name: str):
        """Idiom `x = raw; if x: x = f(x)  ...  if x: use(x)`: at a use guarded by the
        truthiness of x, after the guarded re-definition, only that re-definition
        reaches with a truthy value.  Returns the re-definition's value expr or None."""
        from .astutil import guards_of
        if not any(isinstance(t, ast.Name) and t.id == name and pol for t, pol in guards_of(use, stop=fi.node)):
            return None
        for x in walk_own(fi.node):
            if isinstance(x, ast.If) and isinstance(x.test, ast.Name) and x.test.id == name and not x.orelse \
                    and (getattr(x, "end_lineno", 0), getattr(x, "end_col_offset", 0)) <= (getattr(use, "lineno", 0), getattr(use, "col_offset", 0)) \
                    and not any(a is x for a in _ancestors(use)):
                for st in x.body:
                    if isinstance(st, ast.Assign) and len(st.targets) == 1 and isinstance(st.targets[0], ast.Name) \
                            and st.targets[0].id == name and isinstance(st.value, ast.Call):
                        return st.value
        return None

    def _component(self, val, idx, fi, d, env):
        """Classification of component idx of the value of expression val."""
        if idx is None:
            return self.classify(val, fi, d, env)
        if isinstance(val, ast.Tuple) and isinstance(idx, int) and idx < len(val.elts):
            return self.classify(val.elts[idx], fi, d, env)
        if isinstance(val, ast.Call) and call_name(val) == "insert_output_values":
            n = self.out_calls.setdefault(id(val), len(self.out_calls))
            return frozenset({f"OUTTEXT#{n}" if idx == 0 else f"OUTFLAG#{n}"})
        if isinstance(val, ast.Call) and call_name(val) == "splitext":
            return self.classify(val.args[0], fi, d, env) if val.args else frozenset({"LIT"})
        return self.classify(val, fi, d, env)

    def _iter_component(self, it, idx, fi, d, env):
        """Element (component idx) of iterating expression `it`."""
        if isinstance(it, ast.Call):
            cn = call_name(it)
            if cn == "enumerate" and it.args:
                if idx == 0:
                    return frozenset({"IDX"})
                sub = idx[1] if isinstance(idx, tuple) else None
                return self._iter_component(it.args[0], sub, fi, d, env)
            if cn == "items" and isinstance(it.func, ast.Attribute):
                base = self.classify(it.func.value, fi, d, env)
                if idx == 0:
                    return frozenset({_key_tag(t) for t in base})
                return base
            if cn in ("keys",) and isinstance(it.func, ast.Attribute):
                return frozenset({_key_tag(t) for t in self.classify(it.func.value, fi, d, env)})
            if cn in ("values",) and isinstance(it.func, ast.Attribute):
                return self.classify(it.func.value, fi, d, env)
            if cn in ("range", "len"):
                return frozenset({"IDX"})
            if cn in ("iter_descendants", "iter_ancestors"):
                return frozenset({"ELEM"})
        base = self.classify(it, fi, d, env)
        out = set()
        for t in base:
            if t == "ELEMS":
                out.add("ELEM")
            elif t.startswith("CELL:"):
                # iterating a dict field yields its keys
                out.add(_key_tag(t) if idx is None else t)
            else:
                out.add(t)
        return frozenset(out)

    def _param(self, name, fi, d):
        if d >= self.max_depth:
            return frozenset({f"PARAM:{fi.qualname}.{name}"})
        args = fi.node.args
        params = [a.arg for a in [*args.posonlyargs, *args.args]]
        is_method = fi.cls is not None and params and params[0] in ("self", "cls")
        out = set()
        sites = [(cf, c) for cf, c in self.callsites().get(fi.name, [])]
        if name == "survey":
            return frozenset({"SURVEY"})
        if not sites:
            return frozenset({f"PARAM:{fi.qualname}.{name}"})
        pos = params.index(name) if name in params else None
        for cf, c in sites:
            arg = None
            for k in c.keywords:
                if k.arg == name:
                    arg = k.value
            if arg is None and pos is not None:
                p = pos - (1 if is_method and isinstance(c.func, ast.Attribute) else 0)
                if 0 <= p < len(c.args) and not any(isinstance(a, ast.Starred) for a in c.args[: p + 1]):
                    arg = c.args[p]
            if arg is None:
                # default value
                dflt = _default_of(fi, name)
                if dflt is not None:
                    out |= self.classify(dflt, fi, d + 1)
                elif name == (args.kwarg.arg if args.kwarg else None):
                    for k in c.keywords:
                        out |= self.classify(k.value, cf, d + 1)
                    out.add("LIT")
                continue
            out |= self.classify(arg, cf, d + 1)
        return frozenset(out or {f"PARAM:{fi.qualname}.{name}"})

    def c_Call(self, e, fi, d, env):
        cn = call_name(e)
        if cn in ROLE_CALLS:
            return frozenset({ROLE_CALLS[cn]})
        if cn == "insert_output_values":
            n = self.out_calls.setdefault(id(e), len(self.out_calls))
            return frozenset({f"OUTTEXT#{n}", f"OUTFLAG#{n}"})
        if cn in ("str", "int", "float", "bool", "list", "tuple", "dict", "sorted", "reversed", "coalesce", "chain", "next", "iter") or cn in STR_PASS:
            out = set()
            if isinstance(e.func, ast.Attribute) and cn in STR_PASS:
                out |= self.classify(e.func.value, fi, d, env)
            for a in e.args:
                out |= self.classify(a, fi, d, env)
            return frozenset(out or {"LIT"})
        if cn == "join" and isinstance(e.func, ast.Attribute):
            return self.classify(e.func.value, fi, d, env) | (self.classify(e.args[0], fi, d, env) if e.args else frozenset())
        if cn in ("get", "pop", "setdefault") and isinstance(e.func, ast.Attribute):
            base = self.c_Subscript(ast.Subscript(value=e.func.value, slice=e.args[0] if e.args else ast.Constant(value=""), ctx=ast.Load()), fi, d, env)
            if len(e.args) > 1:
                base |= self.classify(e.args[1], fi, d, env)
            return base
        if cn in ("items", "keys", "values", "copy") and isinstance(e.func, ast.Attribute):
            return self.classify(e.func.value, fi, d, env)
        if cn in ("len", "enumerate", "range", "id", "hash"):
            return frozenset({"IDX"})
        if cn in ("finditer", "search", "match", "findall", "fullmatch") and e.args:
            return self.classify(e.args[-1], fi, d, env)
        if cn == "sub" and len(e.args) >= 2:
            # re.sub(pattern, repl, string) / compiled.sub(repl, string)
            string = e.args[2] if len(e.args) >= 3 else e.args[1]
            repl = e.args[1] if len(e.args) >= 3 else e.args[0]
            out = set(self.classify(string, fi, d, env))
            if isinstance(repl, ast.Lambda):
                out |= self.classify(repl.body, fi, d, env)
            elif isinstance(repl, ast.Name):
                nested = self._resolve_call(ast.Call(func=repl, args=[], keywords=[]), fi)
                for cf in nested:
                    out |= self._returns(cf, ast.Call(func=repl, args=[], keywords=[]), fi, d, env)
            else:
                out |= self.classify(repl, fi, d, env)
            return frozenset(out)
        if cn in ("toxml", "toprettyxml"):
            return frozenset({"MARKUP"})
        if cn in ("isinstance", "hasattr", "any", "all", "callable", "startswith", "endswith", "search", "match"):
            return frozenset({"LIT"})
        if isinstance(e.func, ast.Name) and e.func.id in ("set", "frozenset"):
            return self.classify(e.args[0], fi, d, env) if e.args else frozenset({"LIT"})
        # package function: classify its return expressions with arguments bound
        if d < self.max_depth:
            cands = self._resolve_call(e, fi)
            if cands:
                out = set()
                for cf in cands:
                    out |= self._returns(cf, e, fi, d, env)
                return frozenset(out or {"LIT"})
        return frozenset({f"UNK:{norm(e.func)[:50]}()"})

    def _resolve_call(self, e: ast.Call, fi: FuncInfo):
        r = self.repo.resolve_dotted(fi.module, e.func) if not isinstance(e.func, ast.Attribute) or isinstance(e.func.value, ast.Name) and self._is_global(e.func.value, fi) else None
        if r and r[0] == "func":
            return [r[1]]
        if r and r[0] == "class":
            return []
        name = call_name(e)
        # nested function of the current (or enclosing) function
        p = fi
        while p is not None:
            nested = self.repo.find_func(f"{p.module.name}:{p.qualname}.{name}")
            if nested is not None and isinstance(e.func, ast.Name):
                return [nested]
            p = p.parent
        if isinstance(e.func, ast.Attribute):
            return [f for f in self.functions_named(name) if f.cls is not None][:6]
        return []

    def _returns(self, cf: FuncInfo, call: ast.Call, fi: FuncInfo, d, env):
        args = cf.node.args
        params = [a.arg for a in [*args.posonlyargs, *args.args]]
        is_method = cf.cls is not None and params and params[0] in ("self", "cls")
        benv = {}
        off = 1 if is_method and isinstance(call.func, ast.Attribute) else 0
        for i, a in enumerate(call.args):
            if isinstance(a, ast.Starred):
                break
            if i + off < len(params):
                benv[params[i + off]] = self.classify(a, fi, d, env)
        for k in call.keywords:
            if k.arg:
                benv[k.arg] = self.classify(k.value, fi, d, env)
        if is_method and isinstance(call.func, ast.Attribute):
            benv[params[0]] = self.classify(call.func.value, fi, d, env)
        out = set()
        for x in walk_own(cf.node):
            if isinstance(x, ast.Return) and x.value is not None:
                out |= self.classify(x.value, cf, d + 1, benv)
            elif isinstance(x, ast.Yield) and x.value is not None:
                out |= self.classify(x.value, cf, d + 1, benv)
            elif isinstance(x, ast.YieldFrom):
                out |= self.classify(x.value, cf, d + 1, benv)
        return out

    def c_ListComp(self, e, fi, d, env):
        return self.classify(e.elt, fi, d, env)

    c_GeneratorExp = c_ListComp
    c_SetComp = c_ListComp

    def c_DictComp(self, e, fi, d, env):
        return self.classify(e.value, fi, d, env)

    def c_Lambda(self, e, fi, d, env):
        return frozenset({"LIT"})

    def c_Await(self, e, fi, d, env):
        return self.classify(e.value, fi, d, env)

    # ------------------------------------------------- dict key provenance
    def _dict_keys_local(self, expr, name, fi, d):
        out = set()
        for kind, val, idx in self._assignments(fi, name):
            if kind == "assign" and idx is None:
                out |= self.dict_keys(val, fi, d)
        for x in walk_own(fi.node):
            # name[k] = v
            if isinstance(x, ast.Assign):
                for t in x.targets:
                    if isinstance(t, ast.Subscript) and isinstance(t.value, ast.Name) and t.value.id == name:
                        out |= self.classify(t.slice, fi, d)
            if isinstance(x, ast.Call) and call_name(x) == "update" and isinstance(x.func, ast.Attribute) \
                    and isinstance(x.func.value, ast.Name) and x.func.value.id == name:
                for a in x.args:
                    out |= self.dict_keys(a, fi, d)
                for k in x.keywords:
                    out |= self.dict_keys(k.value, fi, d) if k.arg is None else frozenset({"LIT"})
        if _is_param(name, fi):
            a = fi.node.args
            if d >= self.max_depth:
                out.add(f"PARAM:{fi.qualname}.{name}")
            elif a.kwarg and a.kwarg.arg == name:
                # **kwargs: keys are the keyword names at call sites
                for cf, c in self.callsites().get(fi.name, []):
                    for k in c.keywords:
                        if k.arg is None:
                            out |= self.dict_keys(k.value, cf, d + 1)
                        elif k.arg not in [p.arg for p in [*a.args, *a.kwonlyargs]]:
                            out.add("LIT")
                out.add("LIT")
            else:
                out.add(f"PARAM:{fi.qualname}.{name}")
        return frozenset(out or {"LIT"})

    def dict_keys(self, expr: ast.AST, fi: FuncInfo, d: int = 0) -> frozenset:
        """Provenance of the *keys* of a dict-valued expression."""
        if isinstance(expr, ast.Dict):
            out = set()
            for k, v in zip(expr.keys, expr.values):
                if k is None:
                    out |= self.dict_keys(v, fi, d)
                else:
                    out |= self.classify(k, fi, d)
            return frozenset(out or {"LIT"})
        if isinstance(expr, ast.DictComp):
            return self.classify(expr.key, fi, d)
        if isinstance(expr, ast.Call):
            cn = call_name(expr)
            if cn in ("copy", "dict") and (expr.args or isinstance(expr.func, ast.Attribute)):
                src = expr.args[0] if expr.args else expr.func.value
                out = set(self.dict_keys(src, fi, d))
                for k in expr.keywords:
                    if k.arg is None:
                        out |= self.dict_keys(k.value, fi, d)
                    else:
                        out.add("LIT")
                return frozenset(out)
            if cn == "dict":
                return frozenset({"LIT"})
            if d < self.max_depth:
                cands = self._resolve_call(expr, fi)
                out = set()
                for cf in cands:
                    for x in walk_own(cf.node):
                        if isinstance(x, ast.Return) and x.value is not None:
                            out |= self.dict_keys(x.value, cf, d + 1)
                if out:
                    return frozenset(out)
            return frozenset({f"UNK:keys({norm(expr)[:40]})"})
        if isinstance(expr, ast.Name) and _is_local(expr.id, fi):
            out = set()
            name = expr.id
            busy = self.__dict__.setdefault("_dk_busy", set())
            bkey = (id(fi.node), name)
            if bkey in busy:
                return frozenset()  # cyclic definition (x = f(x)): the other definitions contribute the keys
            busy.add(bkey)
            try:
                return self._dict_keys_local(expr, name, fi, d)
            finally:
                busy.discard(bkey)
        if isinstance(expr, ast.IfExp):
            return self.dict_keys(expr.body, fi, d) | self.dict_keys(expr.orelse, fi, d)
        if isinstance(expr, ast.BoolOp):
            out = set()
            for v in expr.values:
                out |= self.dict_keys(v, fi, d)
            return frozenset(out)
        ok, v = const_str(self.ctx, fi.module, expr)
        if ok and isinstance(v, dict):
            return frozenset({"LIT"})
        base = self.classify(expr, fi, d)
        return frozenset({_key_tag(t) for t in base})


def _key_tag(t: str) -> str:
    if t.startswith("CELL:"):
        return "CELLKEY:" + t[5:]
    if t == "LIT":
        return "LIT"
    return t


def _is_param(name: str, fi: FuncInfo) -> bool:
    a = fi.node.args
    names = [x.arg for x in [*a.posonlyargs, *a.args, *a.kwonlyargs]]
    if a.vararg:
        names.append(a.vararg.arg)
    if a.kwarg:
        names.append(a.kwarg.arg)
    return name in names


def _default_of(fi: FuncInfo, name: str):
    a = fi.node.args
    params = [*a.posonlyargs, *a.args]
    defaults = [None] * (len(params) - len(a.defaults)) + list(a.defaults)
    for p, dflt in zip(params, defaults):
        if p.arg == name:
            return dflt
    for p, dflt in zip(a.kwonlyargs, a.kw_defaults):
        if p.arg == name:
            return dflt
    return None


_LOCALS = {}


def _local_names(fi: FuncInfo) -> set[str]:
    key = id(fi.node)
    if key not in _LOCALS:
        names = set()
        a = fi.node.args
        for x in [*a.posonlyargs, *a.args, *a.kwonlyargs]:
            names.add(x.arg)
        if a.vararg:
            names.add(a.vararg.arg)
        if a.kwarg:
            names.add(a.kwarg.arg)
        for x in walk_own(fi.node):
            if isinstance(x, ast.Name) and isinstance(x.ctx, ast.Store):
                names.add(x.id)
            elif isinstance(x, ast.FunctionDef | ast.AsyncFunctionDef):
                names.add(x.name)
            elif isinstance(x, ast.ExceptHandler) and x.name:
                names.add(x.name)
            elif isinstance(x, ast.Import | ast.ImportFrom):
                pass
        _LOCALS[key] = names
    return _LOCALS[key]


def _is_local(name: str, fi: FuncInfo) -> bool:
    return name in _local_names(fi)


def _has_local_names(expr: ast.AST, fi: FuncInfo) -> bool:
    p = fi
    while p is not None:
        if any(isinstance(n, ast.Name) and _is_local(n.id, p) for n in ast.walk(expr)):
            return True
        p = p.parent
    return False


def fi_is_element_method(prov: Prov, fi: FuncInfo) -> bool:
    """True if fi (or its enclosing function) is a method of a SurveyElement subclass."""
    p = fi
    while p is not None and p.cls is None:
        p = p.parent
    if p is None or p.cls is None:
        return False
    key = ("elemcls", p.cls.fq)
    if key not in prov._memo:
        it = prov.ctx.consts.interp
        prov._memo[key] = any(c.name == "SurveyElement" for c in it.mro(p.cls))
    return prov._memo[key]


# ------------------------------------------------------------------ sites
class Site:
    def __init__(self, fi, call, kind):
        self.fi = fi
        self.call = call
        self.kind = kind  # 'node' | 'setAttribute'

    @property
    def key(self):
        return f"{self.fi.fq}:{norm(self.call)[:90]}"

    @property
    def loc(self):
        return self.fi.loc(self.call)


def xml_sites(ctx):
    """Every node(...) construction and .setAttribute(...) mutation in the package."""
    out = []
    for fi in ctx.repo.all_functions():
        for c in walk_own(fi.node):
            if not isinstance(c, ast.Call):
                continue
            cn = call_name(c)
            if cn == "node" and isinstance(c.func, ast.Name):
                r = ctx.repo.resolve_name(fi.module, "node")
                if r and r[0] == "func" and r[1].fq == "pyxform.utils:node":
                    out.append(Site(fi, c, "node"))
            elif cn == "setAttribute" and isinstance(c.func, ast.Attribute):
                out.append(Site(fi, c, "setAttribute"))
    return out
