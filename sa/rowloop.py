"""Role resolution for the survey row loop of workbook_to_json (shared by C02, C04, C05, C11, C17, C19, C20)."""

from __future__ import annotations

import ast

from .loader import AnalysisError, Repo, set_parents, walk_own

W2J = "pyxform.xls2json:workbook_to_json"
FRAME_KEYS = ("control_type", "control_name", "parent_children")


def recover_frame_keys(repo: Repo) -> list[tuple[str, str]]:
    """The begin/end stack holds one dict per open group: its three keys are private to workbook_to_json, so renaming
    them is behaviour-preserving.  They are recognised by position in the initial frame literal (`[ {k1: None,
    k2: None, k3: <root children>} ]`, the only list-of-one-dict-of-three-constant-keys initialiser) and renamed back, in the
    analysed AST only, wherever they occur as a subscript or as a key of a three-key frame literal."""
    fi = repo.find_func(W2J)
    if fi is None:
        return []
    frame = None
    for x in walk_own(fi.node):
        v = None
        if isinstance(x, ast.AnnAssign | ast.Assign):
            v = x.value
        if isinstance(v, ast.List) and len(v.elts) == 1 and isinstance(v.elts[0], ast.Dict):
            d = v.elts[0]
            if len(d.keys) == 3 and all(isinstance(k, ast.Constant) and isinstance(k.value, str) for k in d.keys) \
                    and isinstance(d.values[0], ast.Constant) and d.values[0].value is None:
                frame = d
                break
    if frame is None:
        return []
    keys = tuple(k.value for k in frame.keys)
    if keys == FRAME_KEYS:
        return []
    mapping = {a: b for a, b in zip(keys, FRAME_KEYS) if a != b}
    if set(mapping) & set(FRAME_KEYS):
        return []  # a permutation of the recorded names: leave the code as it is
    log = []
    for x in walk_own(fi.node):
        if isinstance(x, ast.Dict) and len(x.keys) == 3 and all(isinstance(k, ast.Constant) and (k.value in mapping or k.value in FRAME_KEYS) for k in x.keys if k is not None):
            for k in x.keys:
                k.value = mapping.get(k.value, k.value)
        elif isinstance(x, ast.Subscript) and isinstance(x.slice, ast.Constant) and x.slice.value in mapping \
                and isinstance(x.value, ast.Subscript | ast.Name):
            x.slice.value = mapping[x.slice.value]
    for a, b in mapping.items():
        log.append((a, b))
    return log


# ---------------------------------------------------------------------------------------------------------------
# parameter -> section.attribute wiring, recognised by data flow rather than by the shape of the statement


def _params_vars(fi) -> set[str]:
    """Locals holding the parsed `parameters` cell: assigned from a call whose callee is named `parse` (the generic
    parameter parser), plus the function's own parameter called `parameters` (helpers receive the parsed dict)."""
    from .astutil import call_name
    out = set()
    for x in walk_own(fi.node):
        if isinstance(x, ast.Assign) and isinstance(x.value, ast.Call) and call_name(x.value) == "parse":
            for t in x.targets:
                if isinstance(t, ast.Name):
                    out.add(t.id)
    for a in [*fi.node.args.args, *fi.node.args.kwonlyargs]:
        if a.arg == "parameters":
            out.add(a.arg)
    return out or {"parameters"}


def _param_read(ctx, fi, expr, pvars) -> str | None:
    """The parameter name when `expr` is computed from `P[<const>]` / `P.get(<const>)` for a parameters variable P
    (looking through single-definition locals)."""
    from .astutil import call_name, fold_in, subst_locals
    e = subst_locals(expr, fi.node, keep=pvars)
    for n in ast.walk(e):
        if isinstance(n, ast.Subscript) and isinstance(n.value, ast.Name) and n.value.id in pvars:
            ok, p = fold_in(ctx, fi, n.slice)
            if ok and isinstance(p, str):
                return p
        if isinstance(n, ast.Call) and call_name(n) == "get" and isinstance(n.func, ast.Attribute) and isinstance(n.func.value, ast.Name) \
                and n.func.value.id in pvars and n.args:
            ok, p = fold_in(ctx, fi, n.args[0])
            if ok and isinstance(p, str):
                return p
    return None


def type_context(ctx, fi, node, loop) -> str:
    """Which question-type block of the row loop a statement belongs to, read off the enclosing positive guards that
    compare *something* with a type constant (the compared variable's name is irrelevant)."""
    from .astutil import fold_in, guards_of
    geo = {"geopoint", "geoshape", "geotrace"}
    known = {"audit", "text", "photo", "audio", "background-audio", "range"}
    for t, pol in guards_of(node, stop=loop):
        if not pol or not isinstance(t, ast.Compare) or len(t.ops) != 1:
            continue
        sides = [t.left, t.comparators[0]]
        for s in sides:
            ok, v = fold_in(ctx, fi, s)
            if not ok:
                continue
            if isinstance(t.ops[0], ast.Eq) and isinstance(v, str) and v in known:
                return v
            if isinstance(t.ops[0], ast.In) and isinstance(v, set | frozenset | tuple | list) and v and set(v) <= geo:
                return "geo"
    return "?"


def param_wiring(ctx, fns, loop):
    """{(type context, parameter): (section, key)} for every store of a parameter-derived value under a constant key of a
    constant section of a row dict: `D[S].update({K: V})`, `D[S][K] = V`, `D[S] = {K: V}`."""
    from .astutil import call_name, fold_in
    got = {}
    sites = {}
    for fi in fns:
        pvars = _params_vars(fi)

        def record(node, sect_expr, key_expr, val_expr):
            oks, sect = fold_in(ctx, fi, sect_expr)
            okk, key = fold_in(ctx, fi, key_expr)
            if not (oks and okk and isinstance(sect, str) and isinstance(key, str)):
                return
            param = _param_read(ctx, fi, val_expr, pvars)
            if param is None and isinstance(val_expr, ast.Constant) and key.startswith("odk:") and key[4:] in ("track-changes-reasons",):
                # the only accepted value is written as a literal under a guard that tests the parameter
                param = key[4:]
            if param is None:
                return
            c = type_context(ctx, fi, node, loop) if fi.node is not None and loop is not None and any(a is loop for a in _anc(node)) else fi.name
            got[(c, param)] = (sect, key)
            sites[(c, param)] = fi.loc(node)

        for x in walk_own(fi.node):
            if isinstance(x, ast.Call) and call_name(x) == "update" and isinstance(x.func, ast.Attribute) and isinstance(x.func.value, ast.Subscript) \
                    and x.args and isinstance(x.args[0], ast.Dict):
                for k, v in zip(x.args[0].keys, x.args[0].values):
                    if k is not None:
                        record(x, x.func.value.slice, k, v)
            elif isinstance(x, ast.Assign) and len(x.targets) == 1 and isinstance(x.targets[0], ast.Subscript):
                t = x.targets[0]
                if isinstance(t.value, ast.Subscript):
                    record(x, t.value.slice, t.slice, x.value)
                elif isinstance(x.value, ast.Dict):
                    for k, v in zip(x.value.keys, x.value.values):
                        if k is not None:
                            record(x, t.slice, k, v)
    return got, sites


def _anc(node):
    from .loader import ancestors
    return ancestors(node)
