"""Role resolution for the survey row loop of workbook_to_json (shared by C02, C04, C05, C11, C17, C19, C20)."""

from __future__ import annotations

import ast

from .loader import AnalysisError, Repo, set_parents, walk_own

W2J = "pyxform.xls2json:workbook_to_json"
FRAME_KEYS = ("control_type", "control_name", "parent_children")


def recover_frame_keys(repo: Repo) -> list[tuple[str, str]]:
    """The begin/end stack holds one dict per open group: its three keys are private to workbook_to_json, so renaming
    them is behaviour-preserving.  They are recognised by position in the initial frame literal (`[ {k1: None,
    k2: None, k3: <root children>} ]`, the only list-of-one-dict-of-three-constant-keys initialiser) and renamed back, in the
    analysed AST only, wherever they occur as a subscript or as a key of a three-key frame literal."""
    fi = repo.find_func(W2J)
    if fi is None:
        return []
    frame = None
    for x in walk_own(fi.node):
        v = None
        if isinstance(x, ast.AnnAssign | ast.Assign):
            v = x.value
        if isinstance(v, ast.List) and len(v.elts) == 1 and isinstance(v.elts[0], ast.Dict):
            d = v.elts[0]
            if len(d.keys) == 3 and all(isinstance(k, ast.Constant) and isinstance(k.value, str) for k in d.keys) \
                    and isinstance(d.values[0], ast.Constant) and d.values[0].value is None:
                frame = d
                break
    if frame is None:
        return []
    keys = tuple(k.value for k in frame.keys)
    if keys == FRAME_KEYS:
        return []
    mapping = {a: b for a, b in zip(keys, FRAME_KEYS) if a != b}
    if set(mapping) & set(FRAME_KEYS):
        return []  # a permutation of the recorded names: leave the code as it is
    log = []
    for x in walk_own(fi.node):
        if isinstance(x, ast.Dict) and len(x.keys) == 3 and all(isinstance(k, ast.Constant) and (k.value in mapping or k.value in FRAME_KEYS) for k in x.keys if k is not None):
            for k in x.keys:
                k.value = mapping.get(k.value, k.value)
        elif isinstance(x, ast.Subscript) and isinstance(x.slice, ast.Constant) and x.slice.value in mapping \
                and isinstance(x.value, ast.Subscript | ast.Name):
            x.slice.value = mapping[x.slice.value]
    for a, b in mapping.items():
        log.append((a, b))
    return log


# ---------------------------------------------------------------------------------------------------------------
# parameter -> section.attribute wiring, recognised by data flow rather than by the shape of the statement


def _params_vars(fi) -> set[str]:
    """Locals holding the parsed `parameters` cell: assigned from a call whose callee is named `parse` (the generic
    parameter parser), plus the function's own parameter called `parameters` (helpers receive the parsed dict)."""
    from .astutil import call_name
    out = set()
    for x in walk_own(fi.node):
        if isinstance(x, ast.Assign) and isinstance(x.value, ast.Call) and call_name(x.value) == "parse":
            for t in x.targets:
                if isinstance(t, ast.Name):
                    out.add(t.id)
    for a in [*fi.node.args.args, *fi.node.args.kwonlyargs]:
        if a.arg == "parameters":
            out.add(a.arg)
    return out or {"parameters"}


def _param_read(ctx, fi, expr, pvars) -> str | None:
    """The parameter name when `expr` is computed from `P[<const>]` / `P.get(<const>)` for a parameters variable P
    (looking through single-definition locals)."""
    from .astutil import call_name, fold_in, subst_locals
    e = subst_locals(expr, fi.node, keep=pvars)
    for n in ast.walk(e):
        if isinstance(n, ast.Subscript) and isinstance(n.value, ast.Name) and n.value.id in pvars:
            ok, p = fold_in(ctx, fi, n.slice)
            if ok and isinstance(p, str):
                return p
        if isinstance(n, ast.Call) and call_name(n) == "get" and isinstance(n.func, ast.Attribute) and isinstance(n.func.value, ast.Name) \
                and n.func.value.id in pvars and n.args:
            ok, p = fold_in(ctx, fi, n.args[0])
            if ok and isinstance(p, str):
                return p
    return None


def type_context(ctx, fi, node, loop) -> str:
    """Which question-type block of the row loop a statement belongs to, read off the enclosing positive guards that
    compare *something* with a type constant (the compared variable's name is irrelevant)."""
    from .astutil import fold_in, guards_of
    geo = {"geopoint", "geoshape", "geotrace"}
    known = {"audit", "text", "photo", "audio", "background-audio", "range"}
    for t, pol in guards_of(node, stop=loop):
        if not pol or not isinstance(t, ast.Compare) or len(t.ops) != 1:
            continue
        sides = [t.left, t.comparators[0]]
        for s in sides:
            ok, v = fold_in(ctx, fi, s)
            if not ok:
                continue
            if isinstance(t.ops[0], ast.Eq) and isinstance(v, str) and v in known:
                return v
            if isinstance(t.ops[0], ast.In) and isinstance(v, set | frozenset | tuple | list) and v and set(v) <= geo:
                return "geo"
    return "?"


def param_wiring(ctx, fns, loop):
    """{(type context, parameter): (section, key)} for every store of a parameter-derived value under a constant key of a
    constant section of a row dict: `D[S].update({K: V})`, `D[S][K] = V`, `D[S] = {K: V}`."""
    from .astutil import call_name, fold_in
    got = {}
    sites = {}
    for fi in fns:
        pvars = _params_vars(fi)

        def record(node, sect_expr, key_expr, val_expr):
            oks, sect = fold_in(ctx, fi, sect_expr)
            okk, key = fold_in(ctx, fi, key_expr)
            if not (oks and okk and isinstance(sect, str) and isinstance(key, str)):
                return
            param = _param_read(ctx, fi, val_expr, pvars)
            if param is None and isinstance(val_expr, ast.Constant) and key.startswith("odk:") and key[4:] in ("track-changes-reasons",):
                # the only accepted value is written as a literal under a guard that tests the parameter
                param = key[4:]
            if param is None:
                return
            c = type_context(ctx, fi, node, loop) if fi.node is not None and loop is not None and any(a is loop for a in _anc(node)) else fi.name
            got[(c, param)] = (sect, key)
            sites[(c, param)] = fi.loc(node)

        for x in walk_own(fi.node):
            if isinstance(x, ast.Call) and call_name(x) == "update" and isinstance(x.func, ast.Attribute) and isinstance(x.func.value, ast.Subscript) \
                    and x.args and isinstance(x.args[0], ast.Dict):
                for k, v in zip(x.args[0].keys, x.args[0].values):
                    if k is not None:
                        record(x, x.func.value.slice, k, v)
            elif isinstance(x, ast.Assign) and len(x.targets) == 1 and isinstance(x.targets[0], ast.Subscript):
                t = x.targets[0]
                if isinstance(t.value, ast.Subscript):
                    record(x, t.value.slice, t.slice, x.value)
                elif isinstance(x.value, ast.Dict):
                    for k, v in zip(x.value.keys, x.value.values):
                        if k is not None:
                            record(x, t.slice, k, v)
    return got, sites


def _anc(node):
    from .loader import ancestors
    return ancestors(node)


# --------------------------------------------------------------------------- row prologue (evaluated as a block)
TRUTHY_SPELLINGS = ("yes", "Yes", "YES", "true", "True", "TRUE", "true()")
FALSY_SPELLINGS = ("no", "No", "NO", "false", "False", "FALSE", "false()")


def row_loop_of(w2j):
    cands = []
    for x in walk_own(w2j.node):
        if isinstance(x, ast.For) and isinstance(x.iter, ast.Call) and getattr(x.iter.func, "id", "") == "enumerate" \
                and any(k.arg == "start" for k in x.iter.keywords) and len(x.body) > 20:
            cands.append(x)
    if len(cands) != 1:
        raise AnalysisError("anchor", f"row loop of workbook_to_json not found uniquely ({len(cands)} candidates)")
    return cands[0]


def eval_prologue(ctx, rid, w2j, loop, row, row_number=7, carried=None):
    """Evaluate the statements of one loop iteration from the top of the body up to the statement that parses the
    `parameters` cell (frame lookup, deprecated `disabled` column, empty rows, type / name extraction, rows without a
    type).  -> (outcome, warnings, row, env); outcome in 'proceeds' | 'skipped' | ('error', Raised)."""
    from .interp import Raised, _Continue
    from .loader import norm
    body = []
    for st in loop.body:
        if any(isinstance(n, ast.Name) and isinstance(n.ctx, ast.Store) and n.id == "parameters" for n in ast.walk(st)):
            break
        body.append(st)
    if not body or len(body) == len(loop.body):
        raise AnalysisError(rid, "row prologue (statements before the parameters cell is parsed) not found")
    targets = {n.id for n in ast.walk(loop.target) if isinstance(n, ast.Name)}
    rn_name = next((n for n in targets if "number" in n or n in ("i", "idx")), None)
    row_name = next((n for n in targets if n != rn_name), None)
    warnings = []
    frame = {"control_type": None, "control_name": None, "parent_children": []}
    env = {row_name: row, rn_name: row_number, "stack": [frame], "warnings": warnings}
    # loop-carried state: plain constants / empty containers assigned in the function before the loop keep their
    # initial values for a first iteration (or the values a caller carries over from the previous iteration)
    for st0 in w2j.node.body:
        if st0 is loop or getattr(st0, "lineno", 0) >= loop.lineno:
            break
        if isinstance(st0, ast.Assign) and len(st0.targets) == 1 and isinstance(st0.targets[0], ast.Name) and st0.targets[0].id not in env:
            v0 = st0.value
            if isinstance(v0, ast.Constant):
                env[st0.targets[0].id] = v0.value
            elif isinstance(v0, ast.List | ast.Dict | ast.Set) and not (getattr(v0, "elts", None) or getattr(v0, "keys", None)):
                env[st0.targets[0].id] = {"List": [], "Dict": {}, "Set": set()}[type(v0).__name__]
    if carried:
        env.update({k: v for k, v in carried.items() if k not in (row_name, rn_name, "warnings")})
    it = ctx.interp(rid)
    it.reset([])
    try:
        it.exec_block(body, env, w2j.module)
        return "proceeds", warnings, row, env
    except _Continue:
        return "skipped", warnings, row, env
    except Raised as e:
        return ("error", e), warnings, row, env


def row_prologue_obligations(ctx, rule, rid):
    """Which rows the loop takes up, skips, or rejects before anything else looks at them - over the documented shapes:
    the deprecated `disabled` column in every truth spelling, empty rows, comment rows, rows without a type."""
    w2j = ctx.func("pyxform.xls2json:workbook_to_json", rid)
    loop = row_loop_of(w2j)
    base = {"type": "text", "name": "q", "label": "L"}

    def cites(ws, n=7):
        return [w for w in ws if f"[row : {n}]" in str(w)]

    cases = []
    for v in TRUTHY_SPELLINGS:
        cases.append((f"disabled={v!r} on a question row", {**base, "disabled": v}, "skipped", 1))
    for v in (*FALSY_SPELLINGS, "maybe"):
        cases.append((f"disabled={v!r} on a question row", {**base, "disabled": v}, "proceeds", 1))
    cases += [("row holding only disabled='yes'", {"disabled": "yes"}, "skipped", 1), ("row holding only disabled='no'", {"disabled": "no"}, "skipped", 1),
              ("empty row", {}, "skipped", 0), ("plain question row", dict(base), "proceeds", 0),
              ("no type, neither name nor label (comment row)", {"hint": "just a remark"}, "skipped", 1),
              ("no type, name only", {"name": "q"}, "error", 0), ("no type, label only", {"label": "L"}, "error", 0), ("no type, name and label", {"name": "q", "label": "L"}, "error", 0),
              ("empty type cell, name only", {"type": "", "name": "q"}, "error", 0), ("no type, name and other cells", {"name": "q", "bind": {"calculate": "1"}}, "error", 0)]
    # a disabled row affects that row only: what follows a disabled begin / end row is taken up as usual (disabling both the
    # begin and the end row dissolves the group and keeps its questions)
    seq = [({"type": "begin group", "name": "g", "label": "G", "disabled": "yes"}, "skipped"), ({"type": "text", "name": "q1", "label": "Q1"}, "proceeds"),
           ({"type": "begin repeat", "name": "r", "label": "R"}, "proceeds"), ({"type": "text", "name": "q2", "label": "Q2"}, "proceeds"),
           ({"type": "end repeat"}, "proceeds"), ({"type": "end group", "disabled": "yes"}, "skipped"), ({"type": "text", "name": "q3", "label": "Q3"}, "proceeds")]
    carried = None
    got_seq = []
    for i_, (row_, _want) in enumerate(seq):
        out_, _ws, _row_after, env_ = eval_prologue(ctx, rid, w2j, loop, dict(row_), row_number=2 + i_, carried=carried)
        got_seq.append(out_ if isinstance(out_, str) else "error")
        carried = {k: v for k, v in env_.items() if isinstance(v, int | str | bool | type(None)) and not k.startswith("__")}
    rule.check(got_seq == [w for _r, w in seq], "row prologue[rows after a disabled begin / end row]", "only the disabled rows themselves are skipped; the rows between and after them are taken up",
               w2j.loc(loop), why_fail=f"outcomes {got_seq}")
    for desc, row, want, n_warn in cases:
        row = {k: (dict(v) if isinstance(v, dict) else v) for k, v in row.items()}
        out, ws, row_after, env = eval_prologue(ctx, rid, w2j, loop, row)
        kind = out if isinstance(out, str) else "error"
        why = f"outcome {kind}, {len(ws)} warning(s)"
        ok = kind == want
        if ok and kind == "error":
            e = out[1]
            msg = str(e.exc_args[0]) if e.exc_args else ""
            ok = "PyXFormError" in e.mro and "[row : 7]" in msg
            why = f"raises {e.exc_name}: {msg[:60]!r}"
        if ok and kind != "error":
            ok = len(ws) == n_warn and len(cites(ws)) == n_warn
            why += f", citing the row: {len(cites(ws))}"
        if ok and kind == "proceeds":
            ok = "disabled" not in row_after and all(row_after.get(k) == v for k, v in row.items() if k != "disabled")
            why += f"; row afterwards {row_after!r}"
        rule.check(ok, f"row prologue[{desc}]", {"skipped": "the row produces nothing", "proceeds": "the row is taken up whole, without its disabled cell", "error": "rejected with a PyXFormError citing the row"}[want]
                   + f", {n_warn} warning(s)", w2j.loc(loop), why_fail=why)


# --------------------------------------------------------------------------- dependency slices of the loop body
_BUILTIN_NAMES = frozenset(dir(__builtins__) if not isinstance(__builtins__, dict) else __builtins__.keys())


def _stmt_lists(node):
    for field in ("body", "orelse", "finalbody"):
        lst = getattr(node, field, None)
        if isinstance(lst, list) and lst and isinstance(lst[0], ast.stmt):
            yield lst
    if isinstance(node, ast.Try):
        for h in node.handlers:
            yield h.body


def _owner_chain(root, target):
    """[(stmt_list, index), ...] from the outermost list under `root` down to the list that directly holds the statement
    containing `target`."""
    def rec(node, acc):
        for lst in _stmt_lists(node):
            for i, st in enumerate(lst):
                if st is target or any(n is target for n in ast.walk(st)):
                    acc2 = [*acc, (lst, i)]
                    deeper = rec(st, acc2)
                    return deeper or acc2
        return None
    return rec(root, []) or []


def _free_names(stmts, module):
    """Names read before any statement of the slice (in source order) has stored them."""
    free, stored = set(), set()

    def loads_of(expr):
        comp_vars = {n.id for c in ast.walk(expr) if isinstance(c, ast.comprehension) for n in ast.walk(c.target) if isinstance(n, ast.Name)}
        lam_args = {a.arg for l in ast.walk(expr) if isinstance(l, ast.Lambda) for a in [*l.args.args, *l.args.kwonlyargs]}
        for n in ast.walk(expr):
            if isinstance(n, ast.Name) and isinstance(n.ctx, ast.Load) and n.id not in stored and n.id not in comp_vars and n.id not in lam_args:
                free.add(n.id)

    def stores_of(target):
        for n in ast.walk(target):
            if isinstance(n, ast.Name) and isinstance(n.ctx, ast.Store):
                stored.add(n.id)
            elif isinstance(n, ast.Name) and isinstance(n.ctx, ast.Load):
                loads_of(n)

    def visit(st):
        if isinstance(st, ast.Assign):
            loads_of(st.value)
            for t in st.targets:
                stores_of(t)
                if not isinstance(t, ast.Name):
                    loads_of(t)
        elif isinstance(st, ast.AugAssign):
            loads_of(st.value)
            loads_of(ast.Name(id=st.target.id, ctx=ast.Load()) if isinstance(st.target, ast.Name) else st.target)
            stores_of(st.target)
        elif isinstance(st, ast.AnnAssign):
            if st.value is not None:
                loads_of(st.value)
            stores_of(st.target)
        elif isinstance(st, ast.For):
            loads_of(st.iter)
            stores_of(st.target)
            for x in [*st.body, *st.orelse]:
                visit(x)
        elif isinstance(st, ast.If | ast.While):
            loads_of(st.test)
            for x in [*st.body, *st.orelse]:
                visit(x)
        elif isinstance(st, ast.Try):
            for x in st.body:
                visit(x)
            for h in st.handlers:
                if h.name:
                    stored.add(h.name)
                for x in h.body:
                    visit(x)
            for x in [*st.orelse, *st.finalbody]:
                visit(x)
        elif isinstance(st, ast.With):
            for it_ in st.items:
                loads_of(it_.context_expr)
                if it_.optional_vars is not None:
                    stores_of(it_.optional_vars)
            for x in st.body:
                visit(x)
        else:
            for ch in ast.iter_child_nodes(st):
                loads_of(ch)

    for st in stmts:
        visit(st)
    return {n for n in free if module.imports.get(n) is None and n not in module.functions and n not in module.assigns and n not in module.classes and n not in _BUILTIN_NAMES}


def dependency_slice(w2j, loop, anchors, is_known):
    """The smallest run of consecutive statements (in one statement list of the loop body) that contains every anchor
    node and defines every local it reads, except the locals `is_known(name)` says the caller will provide."""
    chains = [_owner_chain(loop, a) for a in anchors]
    if not all(chains):
        raise AnalysisError("slice", "anchor not found in the row loop")
    depth = 0
    while all(len(c) > depth for c in chains) and len({id(c[depth][0]) for c in chains}) == 1 and (
            len({c[depth][1] for c in chains}) == 1 and all(len(c) > depth + 1 for c in chains)):
        depth += 1
    lst = chains[0][depth][0]
    if any(c[depth][0] is not lst for c in chains):
        depth -= 1
        lst = chains[0][depth][0]
    lo = min(c[depth][1] for c in chains)
    hi = max(c[depth][1] for c in chains)
    chain = chains[0][: depth + 1]
    for _ in range(40):
        stmts = lst[lo:hi + 1]
        need = {n for n in _free_names(stmts, w2j.module) if not is_known(n)}
        if not need:
            return stmts
        j = next((j for j in range(lo - 1, -1, -1) if need & {n.id for n in ast.walk(lst[j]) if isinstance(n, ast.Name) and isinstance(n.ctx, ast.Store)}), None)
        if j is not None:
            lo = j
            continue
        if len(chain) <= 1:
            return stmts  # the remaining names are loop-level state: the caller's environment must provide them
        chain = chain[:-1]
        lst, idx = chain[-1]
        lo = hi = idx
    raise AnalysisError("slice", "dependency slice did not converge")


# --------------------------------------------------------------------------- type branches (evaluated as blocks)
def type_branch_stmt(ctx, w2j, loop, qtype):
    """The top-level `if question_type == <qtype>` / `in {...}` statement of the loop body that handles `qtype`."""
    from .astutil import const_str
    for st in loop.body:
        if not isinstance(st, ast.If):
            continue
        t = st.test
        if isinstance(t, ast.Compare) and len(t.ops) == 1 and isinstance(t.left, ast.Name) and t.left.id == "question_type":
            ok, v = const_str(ctx, w2j.module, t.comparators[0])
            if ok and ((isinstance(t.ops[0], ast.Eq) and v == qtype) or (isinstance(t.ops[0], ast.In) and isinstance(v, set | frozenset | tuple | list) and qtype in v)):
                return st
    return None


def eval_type_branch(ctx, rid, w2j, loop, qtype, row, parameters, row_number=7):
    """-> (outcome, appended rows, warnings): outcome 'appended' (the branch ends the iteration), 'fallthrough', or ('error', Raised)."""
    from .interp import Raised, _Continue
    st = type_branch_stmt(ctx, w2j, loop, qtype)
    if st is None:
        raise AnalysisError(rid, f"no branch of the row loop handles question type {qtype!r}")
    kids, warnings = [], []
    targets = {n.id for n in ast.walk(loop.target) if isinstance(n, ast.Name)}
    rn_name = next((n for n in targets if "number" in n or n in ("i", "idx")), None)
    row_name = next((n for n in targets if n != rn_name), None)
    env = {row_name: row, rn_name: row_number, "question_type": qtype, "parameters": parameters, "warnings": warnings, "parent_children_array": kids,
           "question_name": row.get("name")}
    it = ctx.interp(rid)
    it.reset([])
    try:
        it.exec_block([st], env, w2j.module)
        return "fallthrough", kids, warnings
    except _Continue:
        return "appended", kids, warnings
    except Raised as e:
        return ("error", e), kids, warnings


def type_branch_obligations(ctx, rule, rid):
    """The parameter-handling branches of the row loop (photo, audio, background-audio, geopoint family), evaluated as
    blocks over parameter subsets x what the row already carries: each parameter lands in its documented attribute,
    what the row already has in bind / control is kept, invalid values are rejected, and the max-pixels advisory is
    given exactly when an image row has no max-pixels."""
    import itertools
    w2j = ctx.func("pyxform.xls2json:workbook_to_json", rid)
    loop = row_loop_of(w2j)
    carried = [("nothing else", {}, {}), ("own bind and control", {"required": "yes", "relevant": "${a} = 1"}, {"appearance": "annotate"})]

    def check(qtype, params, want_bind, want_control, want_warn, want_action=None, reject=False):
        for cdesc, cbind, cctrl in carried:
            row = {"type": qtype, "name": "q", "label": "L"}
            if cbind:
                row["bind"] = dict(cbind)
            if cctrl:
                row["control"] = dict(cctrl)
            out, kids, ws = eval_type_branch(ctx, rid, w2j, loop, qtype, row, dict(params))
            desc = f"{qtype} parameters={sorted(params.items())} row with {cdesc}"
            if reject:
                ok = isinstance(out, tuple) and "PyXFormError" in out[1].mro
                rule.check(ok, f"type branch[{desc}]", "rejected with PyXFormError", w2j.loc(loop), why_fail=f"outcome {out if isinstance(out, str) else out[1].exc_name}")
                continue
            got = kids[0] if out == "appended" and len(kids) == 1 and isinstance(kids[0], dict) else None
            exp_bind = {**cbind, **want_bind}
            exp_ctrl = {**cctrl, **want_control}
            ok = got is not None and (got.get("bind") or {}) == exp_bind and (got.get("control") or {}) == exp_ctrl and (got.get("action") or {}) == (want_action or {}) \
                and len(ws) == want_warn and all("[row : 7]" in str(w_) for w_ in ws) and got.get("name") == "q" and got.get("label") == "L"
            rule.check(ok, f"type branch[{desc}]", f"one row appended with bind {exp_bind}, control {exp_ctrl}" + (f", action {want_action}" if want_action else "") + f"; {want_warn} advisory",
                       w2j.loc(loop), why_fail=f"outcome {out if isinstance(out, str) else out[1].exc_name}; appended {kids!r}; warnings {len(ws)}")

    for mp, app in itertools.product((None, "640"), (None, "com.example.camera")):
        params = {k: v for k, v in (("max-pixels", mp), ("app", app)) if v is not None}
        check("photo", params, ({"orx:max-pixels": mp} if mp else {}), ({"intent": app} if app else {}), 0 if mp else 1)
    check("photo", {"max-pixels": "large"}, {}, {}, 0, reject=True)
    check("photo", {"quality": "low"}, {}, {}, 0, reject=True)
    for q in ("voice-only", "low", "normal", "external"):
        check("audio", {"quality": q}, {"odk:quality": q}, {}, 0)
    check("audio", {}, {}, {}, 0)
    check("audio", {"quality": "best"}, {}, {}, 0, reject=True)
    for q in ("voice-only", "low", "normal"):
        check("background-audio", {"quality": q}, {}, {}, 0, want_action={"odk:quality": q})
    check("background-audio", {"quality": "external"}, {}, {}, 0, reject=True)
    for ca, wa, mock in itertools.product((None, "5"), (None, "10.5"), (None, "true", "false")):
        params = {k: v for k, v in (("capture-accuracy", ca), ("warning-accuracy", wa), ("allow-mock-accuracy", mock)) if v is not None}
        ctrl = {k: v for k, v in (("accuracyThreshold", ca), ("unacceptableAccuracyThreshold", wa)) if v is not None}
        check("geopoint", params, ({"odk:allow-mock-accuracy": mock} if mock else {}), ctrl, 0)
    check("geopoint", {"capture-accuracy": "near"}, {}, {}, 0, reject=True)
    check("geopoint", {"allow-mock-accuracy": "yes"}, {}, {}, 0, reject=True)
    for gt in ("geoshape", "geotrace"):
        check(gt, {"allow-mock-accuracy": "true"}, {"odk:allow-mock-accuracy": "true"}, {}, 0)
        check(gt, {"capture-accuracy": "5"}, {}, {}, 0, reject=True)
        check(gt, {"warning-accuracy": "5"}, {}, {}, 0, reject=True)
    # the accepted set of each branch is closed: a parameter of another branch, or an unknown one, is refused
    for qt_, foreign_ in (("photo", {"rows": "3"}), ("audio", {"max-pixels": "640"}), ("audio", {"app": "x.y"}), ("background-audio", {"max-pixels": "640"}),
                          ("geopoint", {"quality": "low"}), ("geopoint", {"foo": "1"}), ("geoshape", {"foo": "1"}), ("geotrace", {"quality": "low"})):
        check(qt_, foreign_, {}, {}, 0, reject=True)


def toplevel_slice(fi, block, provided, module_has):
    """[earlier top-level statements of fi that define what `block` reads ..., block]: the names `block` reads that are
    neither `provided` by the caller's environment nor module-level (`module_has(name)`) are looked up among the simple
    assignments that precede the block at the top level of the function, transitively (bounded)."""
    body = fi.node.body
    idx = next((i for i, st in enumerate(body) if st is block), None)
    if idx is None:
        raise AnalysisError("slice", "block is not a top-level statement of the function")
    chosen = []
    need = {n for n in _free_names([block], fi.module) if n not in provided and not module_has(n)}
    for _ in range(12):
        if not need:
            break
        nm = sorted(need)[0]
        need.discard(nm)
        src = next((st for st in reversed(body[:idx]) if isinstance(st, ast.Assign | ast.AnnAssign) and any(isinstance(x, ast.Name) and x.id == nm and isinstance(x.ctx, ast.Store) for x in ast.walk(st))), None)
        if src is None or src in chosen:
            continue
        chosen.append(src)
        need |= {n for n in _free_names([src], fi.module) if n not in provided and not module_has(n) and n != nm}
    chosen.sort(key=lambda st: st.lineno)
    return [*chosen, block]
