"""Finite-domain abstract evaluator over the repository's ASTs.

This is the analyser's *own* evaluator: it walks `ast` nodes of the analysed
source, with module-level constants folded from source, opaque abstract
values (`Sym`) with small enumerated facts (truthy / falsy / unknown, sign,
tags), forking on undetermined guards.  It never imports or executes the
analysed package, and it hands nothing to a solver.  Unsupported syntax raises
AnalysisError (fail closed), never a silent pass.

Used for: constant folding of module-level tables (consts.py), decision tables
(C07, C10, C18, C19), writer path languages (C01, C15).
"""

from __future__ import annotations

import collections as _collections
import collections.abc as _abc
import ast
import re as _re
from collections.abc import Iterator as _Iterator
import pathlib as _pathlib
from typing import Any, Callable

from .loader import AnalysisError, ClassInfo, FuncInfo, Module, Repo, norm


# ------------------------------------------------------------------ values
class Sym:
    """Opaque abstract value."""

    _n = 0

    def __init__(self, name, truthy=None, pytype=None, attrs=None, tags=(), sign=None):
        Sym._n += 1
        self.uid = Sym._n
        self.name = name
        self.truthy = truthy  # True / False / None (unknown -> fork)
        self.pytype = pytype
        self.attrs = dict(attrs or {})
        self.tags = set(tags)
        self.sign = sign  # for abstract ints: -1 / 0 / 1

    def __repr__(self):
        return f"<{self.name}>"


class SymStr:
    """Concatenation of literal strings and Syms (f-strings, +)."""

    pytype = str

    def __init__(self, parts):
        flat = []
        for p in parts:
            if isinstance(p, SymStr):
                flat.extend(p.parts)
            elif p == "":
                continue
            elif flat and isinstance(p, str) and isinstance(flat[-1], str):
                flat[-1] += p
            else:
                flat.append(p)
        self.parts = flat

    def __repr__(self):
        return "".join(p if isinstance(p, str) else f"{{{p.name}}}" for p in self.parts)

    def syms(self):
        return [p for p in self.parts if isinstance(p, Sym)]

    def text(self):
        return repr(self)


class Obj:
    """Instance of a repo class (or an ad-hoc attribute bag)."""

    def __init__(self, cls: ClassInfo | None, attrs=None, name="obj", slots=None):
        self.cls = cls
        self.attrs = dict(attrs or {})
        self.name = name
        self.slots = slots  # universe for hasattr (None -> attrs only)

    def __repr__(self):
        return f"<{self.name}:{self.cls.name if self.cls else '?'}>"


class FuncVal:
    def __init__(self, fi: FuncInfo, closure=None, bound=None):
        self.fi = fi
        self.closure = closure
        self.bound = bound


class LambdaVal:
    def __init__(self, node, env, module):
        self.node, self.env, self.module = node, env, module


class ClassVal:
    def __init__(self, ci: ClassInfo):
        self.ci = ci

    def __repr__(self):
        return f"<class {self.ci.name}>"


class ModVal:
    def __init__(self, m: Module):
        self.m = m


class ExtVal:
    """Reference to something outside the package (stdlib, third party)."""

    def __init__(self, dotted: str):
        self.dotted = dotted

    def __repr__(self):
        return f"<ext {self.dotted}>"

    def __hash__(self):
        return hash(self.dotted)

    def __eq__(self, o):
        return isinstance(o, ExtVal) and o.dotted == self.dotted


class RegexVal:
    def __init__(self, pattern: str, flags: int = 0):
        self.pattern = pattern
        self.flags = flags

    def __repr__(self):
        return f"re({self.pattern!r})"

    def __hash__(self):
        return hash((self.pattern, self.flags))

    def __eq__(self, o):
        return isinstance(o, RegexVal) and (o.pattern, o.flags) == (self.pattern, self.flags)


class EnumStr(str):
    """Member of a str-valued Enum folded from source."""

    def __new__(cls, value, enum_name="", member=""):
        o = super().__new__(cls, value)
        o.enum_name = enum_name
        o.member = member
        return o

    @property
    def value(self):
        return str(self)


class EnumMember:
    def __init__(self, enum_name, member, value):
        self.enum_name, self.member, self.value = enum_name, member, value

    def __repr__(self):
        return f"{self.enum_name}.{self.member}"

    def __hash__(self):
        return hash((self.enum_name, self.member))

    def __eq__(self, o):
        return isinstance(o, EnumMember) and (o.enum_name, o.member) == (self.enum_name, self.member)


class Raised(Exception):
    def __init__(self, exc_name: str, args: tuple, node: ast.AST | None, mro=()):
        super().__init__(exc_name)
        self.exc_name = exc_name
        self.exc_args = args
        self.node = node
        self.mro = tuple(mro) or (exc_name,)


class NeedDecision(Exception):
    pass


class _Return(Exception):
    def __init__(self, v):
        self.v = v


class _Break(Exception):
    pass


class _Continue(Exception):
    pass


BUILTIN_EXC = {
    "Exception": ("Exception", "BaseException"),
    "BaseException": ("BaseException",),
    "ValueError": ("ValueError", "Exception", "BaseException"),
    "KeyError": ("KeyError", "LookupError", "Exception", "BaseException"),
    "IndexError": ("IndexError", "LookupError", "Exception", "BaseException"),
    "TypeError": ("TypeError", "Exception", "BaseException"),
    "AttributeError": ("AttributeError", "Exception", "BaseException"),
    "OSError": ("OSError", "Exception", "BaseException"),
    "NotImplementedError": ("NotImplementedError", "RuntimeError", "Exception", "BaseException"),
    "StopIteration": ("StopIteration", "Exception", "BaseException"),
    "RuntimeError": ("RuntimeError", "Exception", "BaseException"),
    "FileNotFoundError": ("FileNotFoundError", "OSError", "Exception", "BaseException"),
    "UnicodeDecodeError": ("UnicodeDecodeError", "ValueError", "Exception", "BaseException"),
}

PYTYPES = {
    "dict": dict, "str": str, "list": list, "tuple": tuple, "int": int, "float": float,
    "bool": bool, "bytes": bytes, "set": set, "frozenset": frozenset, "object": object,
}

_MISSING = object()


class Interp:
    def __init__(self, repo: Repo, hooks: dict[str, Callable] | None = None,
                 inline: Callable[[FuncInfo], bool] | None = None, rule: str = "abseval",
                 max_steps: int = 200000):
        self.repo = repo
        self.hooks = hooks or {}
        self.inline = inline or (lambda fi: True)
        self.rule = rule
        self.decisions: list[bool] = []
        self.dpos = 0
        self.assumed: dict[Any, bool] = {}
        self.effects: list[tuple] = []
        self.steps = 0
        self.max_steps = max_steps
        self._modcache: dict[tuple[str, str], Any] = {}
        self._folding: set[tuple[str, str]] = set()
        self.depth = 0

    # ------------------------------------------------------------- driver
    def reset(self, decisions):
        self.decisions = list(decisions)
        self.dpos = 0
        self.assumed = {}
        self.effects = []
        self.steps = 0

    def decide(self, key) -> bool:
        if key in self.assumed:
            return self.assumed[key]
        if self.dpos < len(self.decisions):
            v = self.decisions[self.dpos]
            self.dpos += 1
            self.assumed[key] = v
            return v
        raise NeedDecision()

    def unsupported(self, node, what=""):
        loc = f"line {getattr(node, 'lineno', '?')}"
        raise AnalysisError(self.rule, f"unsupported syntax in abstract evaluation ({what}) at {loc}: {norm(node)[:120]}")

    # ------------------------------------------------------------- truth
    def truth(self, v) -> bool:
        if isinstance(v, Sym):
            if v.truthy is not None:
                return v.truthy
            return self.decide(("truth", v.uid))
        if isinstance(v, SymStr):
            if any(isinstance(p, str) and p for p in v.parts):
                return True
            syms = v.syms()
            if len(syms) == 1:
                return self.truth(syms[0])
            return any(self.truth(s) for s in syms)
        if isinstance(v, Obj | FuncVal | ClassVal | ModVal | ExtVal | LambdaVal | RegexVal | NodeVal):
            return True
        return bool(v)

    # ------------------------------------------------------ module globals
    def module_global(self, m: Module, name: str):
        key = (m.name, name)
        if key in self._modcache:
            return self._modcache[key]
        r = self.repo.resolve_name(m, name)
        if r is None:
            if name == "__file__":
                return m.path      # the module's own source file (data files shipped next to it are located from it)
            if name in PYTYPES:
                return PYTYPES[name]
            if name in BUILTIN_EXC:
                return ExtVal(f"builtins.{name}")
            return _MISSING
        kind = r[0]
        if kind == "func":
            v = FuncVal(r[1])
        elif kind == "class":
            v = ClassVal(r[1])
        elif kind == "mod":
            v = ModVal(r[1])
        elif kind == "ext":
            v = ExtVal(r[1])
        elif kind == "const":
            mod, nm = r[1], r[2]
            k2 = (mod.name, nm)
            if k2 in self._modcache:
                return self._modcache[k2]
            if k2 in self._folding:
                raise AnalysisError(self.rule, f"cyclic constant {mod.name}.{nm}")
            self._folding.add(k2)
            try:
                v = _MISSING
                for stmt in mod.assigns[nm]:
                    if isinstance(stmt, ast.AugAssign):
                        cur = v
                        rhs = self.eval(stmt.value, {}, mod)
                        v = self.binop(stmt.op, cur, rhs, stmt)
                    else:
                        v = self.eval(stmt.value, {}, mod)
            finally:
                self._folding.discard(k2)
            self._modcache[k2] = v
        else:
            return _MISSING
        self._modcache[key] = v
        return v

    def class_attr(self, ci: ClassInfo, attr: str):
        """Class-level attribute (enum members, constants), through bases."""
        for c in self.mro(ci):
            if attr in c.methods:
                return FuncVal(c.methods[attr])
            for stmt in c.node.body:
                tg = None
                if isinstance(stmt, ast.Assign) and len(stmt.targets) == 1:
                    tg = stmt.targets[0]
                elif isinstance(stmt, ast.AnnAssign) and stmt.value is not None:
                    tg = stmt.target
                if isinstance(tg, ast.Name) and tg.id == attr:
                    val = self.eval(stmt.value, {}, c.module)
                    if self.is_enum(ci):
                        if isinstance(val, str):
                            return EnumStr(val, ci.name, attr)
                        return EnumMember(ci.name, attr, val)
                    return val
        return _MISSING

    def enum_members(self, ci: ClassInfo):
        out = []
        for stmt in ci.node.body:
            if isinstance(stmt, ast.Assign) and len(stmt.targets) == 1 and isinstance(stmt.targets[0], ast.Name):
                nm = stmt.targets[0].id
                if not nm.startswith("_"):
                    out.append(self.class_attr(ci, nm))
        return out

    def is_enum(self, ci: ClassInfo) -> bool:
        for c in self.mro(ci):
            for b in c.base_exprs:
                r = self.repo.resolve_dotted(c.module, b)
                if r and r[0] == "ext" and r[1].split(".")[-1] in ("Enum", "IntEnum", "StrEnum"):
                    return True
        return False

    def mro(self, ci: ClassInfo) -> list[ClassInfo]:
        out, seen = [], set()

        def rec(c):
            if c.fq in seen:
                return
            seen.add(c.fq)
            out.append(c)
            for b in c.base_exprs:
                r = self.repo.resolve_dotted(c.module, b)
                if r and r[0] == "class":
                    rec(r[1])

        rec(ci)
        return out

    def ext_bases(self, ci: ClassInfo) -> list[str]:
        out = []
        for c in self.mro(ci):
            for b in c.base_exprs:
                r = self.repo.resolve_dotted(c.module, b)
                if r and r[0] == "ext":
                    out.append(r[1])
                elif r is None and isinstance(b, ast.Name):
                    out.append(f"builtins.{b.id}")
        return out

    def exc_mro(self, v) -> tuple[str, ...]:
        if isinstance(v, ClassVal):
            names = [c.name for c in self.mro(v.ci)]
            for e in self.ext_bases(v.ci):
                names.extend(BUILTIN_EXC.get(e.split(".")[-1], (e.split(".")[-1],)))
            return tuple(dict.fromkeys(names))
        if isinstance(v, ExtVal):
            n = v.dotted.split(".")[-1]
            return BUILTIN_EXC.get(n, (n, "Exception", "BaseException"))
        return ("Exception", "BaseException")

    # ------------------------------------------------------------ lookups
    def lookup(self, name: str, env: dict, m: Module, node=None):
        e = env
        while e is not None:
            if name in e:
                return e[name]
            e = e.get("__parent__")
        v = self.module_global(m, name)
        if v is not _MISSING:
            return v
        if name in _BUILTIN_FUNCS or (name == "open" and "ext:builtins.open" in self.hooks):
            return ExtVal(f"builtins.{name}")
        if name in ("True", "False", "None"):
            return {"True": True, "False": False, "None": None}[name]
        raise AnalysisError(self.rule, f"unresolved name {name!r} in {m.name} line {getattr(node, 'lineno', '?')}")

    # -------------------------------------------------------- expressions
    def eval(self, node: ast.AST, env: dict, m: Module):
        self.steps += 1
        if self.steps > self.max_steps:
            raise AnalysisError(self.rule, "abstract evaluation step budget exceeded")
        meth = getattr(self, "e_" + type(node).__name__, None)
        if meth is None:
            self.unsupported(node, type(node).__name__)
        return meth(node, env, m)

    def e_Constant(self, n, env, m):
        return n.value

    def e_Name(self, n, env, m):
        return self.lookup(n.id, env, m, n)

    def e_JoinedStr(self, n, env, m):
        parts = []
        for v in n.values:
            if isinstance(v, ast.Constant):
                parts.append(v.value)
            else:
                val = self.eval(v.value, env, m)
                if v.format_spec is not None or v.conversion not in (-1, 115):
                    if isinstance(val, Sym | SymStr):
                        self.unsupported(n, "format spec on abstract value")
                    spec = self.eval(v.format_spec, env, m) if v.format_spec else ""
                    if v.conversion == 114:
                        val = repr(val)
                    parts.append(format(val, spec))
                    continue
                parts.append(self.to_strpart(val, n))
        if all(isinstance(p, str) for p in parts):
            return "".join(parts)
        return SymStr(parts)

    def to_strpart(self, val, node):
        if isinstance(val, Sym | SymStr):
            return val
        if isinstance(val, EnumStr):
            return str(val)
        if isinstance(val, str | int | float | bool) or val is None:
            return str(val)
        if isinstance(val, list | tuple | dict | set):
            try:
                return str(val)
            except Exception:
                pass
        if isinstance(val, Obj | NodeVal):
            return Sym(f"str({val!r})", truthy=True, pytype=str)
        if isinstance(val, ExcVal):
            return Sym(f"str({val.name})", truthy=None, pytype=str, tags=("EXCMSG",), attrs={"exc": val})
        self.unsupported(node, f"str() of {type(val).__name__}")

    def e_Tuple(self, n, env, m):
        return tuple(self._seq(n.elts, env, m))

    def e_List(self, n, env, m):
        return list(self._seq(n.elts, env, m))

    def e_Set(self, n, env, m):
        return set(self._seq(n.elts, env, m))

    def _seq(self, elts, env, m):
        out = []
        for e in elts:
            if isinstance(e, ast.Starred):
                out.extend(self.iterate(self.eval(e.value, env, m), e))
            else:
                out.append(self.eval(e, env, m))
        return out

    def e_Dict(self, n, env, m):
        d = {}
        for k, v in zip(n.keys, n.values):
            if k is None:
                sub = self.eval(v, env, m)
                if not isinstance(sub, dict):
                    self.unsupported(n, "** of non-dict")
                d.update(sub)
            else:
                d[self.hashable(self.eval(k, env, m), n)] = self.eval(v, env, m)
        return d

    def hashable(self, k, node):
        if isinstance(k, SymStr):
            return k.text()
        if isinstance(k, list | dict | set):
            raise Raised("TypeError", ("unhashable",), node, BUILTIN_EXC["TypeError"])
        return k

    def e_IfExp(self, n, env, m):
        return self.eval(n.body if self.truth(self.eval(n.test, env, m)) else n.orelse, env, m)

    def e_BoolOp(self, n, env, m):
        is_and = isinstance(n.op, ast.And)
        v = None
        for e in n.values:
            v = self.eval(e, env, m)
            t = self.truth(v)
            if is_and and not t:
                return v
            if not is_and and t:
                return v
        return v

    def e_UnaryOp(self, n, env, m):
        v = self.eval(n.operand, env, m)
        if isinstance(n.op, ast.Not):
            return not self.truth(v)
        if isinstance(v, Sym | SymStr):
            self.unsupported(n, "unary op on abstract value")
        if isinstance(n.op, ast.USub):
            return -v
        if isinstance(n.op, ast.UAdd):
            return +v
        if isinstance(n.op, ast.Invert):
            return ~v
        self.unsupported(n)

    def e_BinOp(self, n, env, m):
        return self.binop(n.op, self.eval(n.left, env, m), self.eval(n.right, env, m), n)

    def binop(self, op, a, b, node):
        if isinstance(op, ast.BitOr) and (isinstance(a, type | tuple | ClassVal | ExtVal) and isinstance(b, type | tuple | ClassVal | ExtVal)):
            ta = a if isinstance(a, tuple) else (a,)
            tb = b if isinstance(b, tuple) else (b,)
            return ta + tb
        if isinstance(a, Sym | SymStr) or isinstance(b, Sym | SymStr):
            if isinstance(op, ast.Add):
                pa, pb = a, b
                if isinstance(pa, str | Sym | SymStr) and isinstance(pb, str | Sym | SymStr):
                    return SymStr([pa, pb])
            if isinstance(op, ast.Mod) and isinstance(a, str):
                # "%s" % sym
                pieces = a.split("%s")
                if len(pieces) == 2 and not isinstance(b, tuple):
                    return SymStr([pieces[0], b, pieces[1]])
            self.unsupported(node, "binary op on abstract value")
        try:
            if isinstance(op, ast.Add):
                return a + b
            if isinstance(op, ast.Sub):
                return a - b
            if isinstance(op, ast.Mult):
                return a * b
            if isinstance(op, ast.Mod):
                return a % b
            if isinstance(op, ast.BitOr):
                return a | b
            if isinstance(op, ast.BitAnd):
                return a & b
            if isinstance(op, ast.FloorDiv):
                return a // b
            if isinstance(op, ast.Div):
                return a / b
        except TypeError as e:
            raise Raised("TypeError", (str(e),), node, BUILTIN_EXC["TypeError"]) from None
        self.unsupported(node, "operator")

    def e_Compare(self, n, env, m):
        left = self.eval(n.left, env, m)
        for op, rnode in zip(n.ops, n.comparators):
            right = self.eval(rnode, env, m)
            if not self.compare(op, left, right, n):
                return False
            left = right
        return True

    def compare(self, op, a, b, node) -> bool:
        if isinstance(op, ast.Is):
            return self.identical(a, b)
        if isinstance(op, ast.IsNot):
            return not self.identical(a, b)
        if isinstance(op, ast.In | ast.NotIn):
            r = self.contains(b, a, node)
            return r if isinstance(op, ast.In) else not r
        # abstract ints with a sign
        for x, y, flip in ((a, b, False), (b, a, True)):
            if isinstance(x, Sym) and x.sign is not None and isinstance(y, int | float) and y == 0:
                s = x.sign if not flip else -x.sign
                return {ast.Gt: s > 0, ast.GtE: s >= 0, ast.Lt: s < 0, ast.LtE: s <= 0,
                        ast.Eq: s == 0, ast.NotEq: s != 0}[type(op)]
        if isinstance(a, Sym | SymStr) or isinstance(b, Sym | SymStr):
            if isinstance(op, ast.Eq | ast.NotEq):
                if a is b:
                    r = True
                elif isinstance(a, SymStr) and isinstance(b, SymStr) and a.text() == b.text():
                    r = True
                elif (isinstance(a, Sym) and b is None) or (isinstance(b, Sym) and a is None):
                    r = False
                elif isinstance(a, SymStr) or isinstance(b, SymStr):
                    ka = a.text() if isinstance(a, SymStr) else repr(a)
                    kb = b.text() if isinstance(b, SymStr) else repr(b)
                    r = self.decide(("eq", *sorted((ka, kb))))
                else:
                    s, o = (a, b) if isinstance(a, Sym) else (b, a)
                    if isinstance(o, Sym):
                        r = self.decide(("eq", *sorted((s.uid, o.uid))))
                    else:
                        if o == "" and s.truthy is True:
                            r = False
                        elif isinstance(o, str) and o and s.truthy is False:
                            r = False
                        else:
                            r = self.decide(("eq", s.uid, repr(o)))
                return r if isinstance(op, ast.Eq) else not r
            # ordering on abstract values
            ka = a.uid if isinstance(a, Sym) else repr(a)
            kb = b.uid if isinstance(b, Sym) else repr(b)
            return self.decide(("cmp", type(op).__name__, ka, kb))
        try:
            if isinstance(op, ast.Eq):
                return a == b
            if isinstance(op, ast.NotEq):
                return a != b
            if isinstance(op, ast.Lt):
                return a < b
            if isinstance(op, ast.LtE):
                return a <= b
            if isinstance(op, ast.Gt):
                return a > b
            if isinstance(op, ast.GtE):
                return a >= b
        except TypeError as e:
            raise Raised("TypeError", (str(e),), node, BUILTIN_EXC["TypeError"]) from None
        self.unsupported(node, "comparison")

    def identical(self, a, b):
        for x, y in ((a, b), (b, a)):
            if isinstance(x, bool) and isinstance(y, Sym) and y.pytype is bool:
                return self.truth(y) is x
        if a is None or b is None or isinstance(a, bool) or isinstance(b, bool):
            return a is b
        if isinstance(a, str) and isinstance(b, str):
            return a == b  # interned constants in the analysed code
        if isinstance(a, ClassVal) and isinstance(b, ClassVal):
            return a.ci is b.ci
        return a is b

    def contains(self, container, item, node) -> bool:
        if isinstance(container, Sym):
            if "contains" in container.attrs:
                return container.attrs["contains"](item)
            return self.decide(("in", repr(item) if not isinstance(item, Sym) else item.uid, container.uid))
        if isinstance(container, SymStr):
            if isinstance(item, str):
                if any(isinstance(p, str) and item in p for p in container.parts):
                    return True
            return self.decide(("in", repr(item), container.text()))
        if isinstance(container, Obj):
            # Mapping-like repo objects iterate their slot names
            if container.slots is not None:
                return item in container.slots
            return item in container.attrs
        if isinstance(item, Sym | SymStr):
            if isinstance(container, dict | set | list | tuple | frozenset):
                if not container:
                    return False
                if isinstance(item, Sym) and "member_of" in item.attrs:
                    return item.attrs["member_of"](container)
                ik = item.uid if isinstance(item, Sym) else item.text()
                try:
                    ck = repr(sorted(container, key=repr))
                except Exception:
                    ck = repr(container)
                return self.decide(("in", ik, ck))
            if isinstance(container, str):
                return self.decide(("in", item.uid if isinstance(item, Sym) else item.text(), container))
        try:
            return item in container
        except TypeError as e:
            raise Raised("TypeError", (str(e),), node, BUILTIN_EXC["TypeError"]) from None

    def e_Attribute(self, n, env, m):
        if (isinstance(n.value, ast.Call) and isinstance(n.value.func, ast.Name)
                and n.value.func.id == "super" and not n.value.args):
            return self.super_attr(n, env, m)
        base = self.eval(n.value, env, m)
        return self.getattr(base, n.attr, n, m)

    def super_attr(self, n, env, m):
        e, fi = env, None
        while e is not None and fi is None:
            fi = e.get("__func__")
            e = e.get("__parent__")
        while fi is not None and fi.cls is None and fi.parent is not None:
            fi = fi.parent
        if fi is None or fi.cls is None:
            self.unsupported(n, "super() outside a method")
        first = fi.node.args.args[0].arg if fi.node.args.args else None
        selfv = self.lookup(first, env, m, n) if first else None
        start = selfv.cls if isinstance(selfv, Obj) and selfv.cls is not None else fi.cls
        mro = self.mro(start)
        idx = next((i for i, c in enumerate(mro) if c is fi.cls), -1)
        for c in mro[idx + 1:]:
            if n.attr in c.methods:
                return FuncVal(c.methods[n.attr], bound=("self", selfv))
        hook = self.hooks.get(f"super:{n.attr}")
        if hook is not None:
            return native(lambda interp, a, k, node: hook(interp, [selfv, *a], k, node))
        if n.attr == "__init__":
            return native(lambda interp, a, k, node: None)
        self.unsupported(n, f"super().{n.attr} resolves outside the package")

    def _ctor_default(self, ci, attr):
        for c in self.mro(ci):
            init = c.methods.get("__init__")
            if init is None:
                continue
            selfname = init.node.args.args[0].arg if init.node.args.args else "self"
            for st in init.node.body:
                tgt = val = None
                if isinstance(st, ast.AnnAssign) and st.value is not None:
                    tgt, val = st.target, st.value
                elif isinstance(st, ast.Assign) and len(st.targets) == 1:
                    tgt, val = st.targets[0], st.value
                if isinstance(tgt, ast.Attribute) and tgt.attr == attr and isinstance(tgt.value, ast.Name) and tgt.value.id == selfname:
                    if isinstance(val, ast.Constant):
                        return val.value
                    if isinstance(val, ast.Dict) and not val.keys:
                        return {}
                    if isinstance(val, ast.List | ast.Tuple) and not val.elts:
                        return [] if isinstance(val, ast.List) else ()
                    return _MISSING
        return _MISSING

    def getattr(self, base, attr, node, m=None):
        if isinstance(base, ModVal):
            v = self.module_global(base.m, attr)
            if v is _MISSING:
                raise AnalysisError(self.rule, f"unresolved {base.m.name}.{attr}")
            return v
        if isinstance(base, ExtVal):
            # integer constants of the platform modules are plain data (open flags, permission bits, errno codes)
            if (base.dotted == "os" and attr.startswith(("O_", "SEEK_", "F_", "R_OK", "W_OK", "X_OK"))) or (base.dotted == "stat" and attr.startswith("S_")) or (base.dotted == "errno" and attr.isupper()):
                import importlib
                v = getattr(importlib.import_module(base.dotted), attr, _MISSING)
                if isinstance(v, int):
                    return v
            return ExtVal(f"{base.dotted}.{attr}")
        if isinstance(base, ClassVal):
            v = self.class_attr(base.ci, attr)
            if v is _MISSING:
                if attr == "__members__" and self.is_enum(base.ci):
                    return {x.member: x for x in self.enum_members(base.ci)}
                if attr == "__name__":
                    return base.ci.name
                raise AnalysisError(self.rule, f"unresolved class attribute {base.ci.name}.{attr}")
            if isinstance(v, FuncVal):
                return FuncVal(v.fi, bound=("class", base)) if _is_classmethod(v.fi) else v
            return v
        if isinstance(base, Obj):
            if attr in base.attrs:
                return base.attrs[attr]
            if attr in ("__getattribute__", "__getattr__"):
                return native(lambda interp, a, k, n, base=base: interp.getattr(base, a[0], n))
            if attr == "__setattr__":
                return native(lambda interp, a, k, n, base=base: base.attrs.__setitem__(a[0], a[1]))
            if base.cls is not None:
                v = self.class_attr(base.cls, attr)
                if isinstance(v, FuncVal):
                    if _is_staticmethod(v.fi):
                        return v
                    return FuncVal(v.fi, bound=("self", base))
                if v is not _MISSING:
                    return v
            hook = self.hooks.get(f"attr:{attr}")
            if hook:
                return hook(self, base, attr, node)
            if base.cls is not None:
                # an object a check built by hand carries the attributes the check cares about; any other attribute
                # has the value the class's own constructor gives it unconditionally (a literal), as on a real object
                v = self._ctor_default(base.cls, attr)
                if v is not _MISSING:
                    base.attrs[attr] = v
                    return v
            raise Raised("AttributeError", (attr,), node, BUILTIN_EXC["AttributeError"])
        if isinstance(base, Sym):
            if attr in base.attrs:
                return base.attrs[attr]
            return BoundMethod(base, attr)
        if isinstance(base, EnumStr | EnumMember) and attr in ("value", "name"):
            return base.value if attr == "value" else base.member
        if isinstance(base, NodeVal):
            if attr in ("tag", "attrs", "children", "text", "parse"):
                return getattr(base, attr)
            return BoundMethod(base, attr)
        if isinstance(base, RegexVal) and attr == "pattern":
            return base.pattern
        if isinstance(base, _re.Match) and attr in ("string", "pos", "endpos", "lastgroup", "lastindex"):
            return getattr(base, attr)
        if isinstance(base, _re.Match) and attr == "re":
            return RegexVal(base.re.pattern, base.re.flags)
        if isinstance(base, _pathlib.PurePath):
            # pure path arithmetic only (PurePath has no file-system methods): properties are values, methods are bound
            v = getattr(base, attr, _MISSING)
            if v is _MISSING:
                raise Raised("AttributeError", (attr,), node, BUILTIN_EXC["AttributeError"])
            if not callable(v):
                return v
        return BoundMethod(base, attr)

    def e_Subscript(self, n, env, m):
        base = self.eval(n.value, env, m)
        if isinstance(n.slice, ast.Slice):
            lo = self.eval(n.slice.lower, env, m) if n.slice.lower else None
            hi = self.eval(n.slice.upper, env, m) if n.slice.upper else None
            st = self.eval(n.slice.step, env, m) if n.slice.step else None
            if isinstance(base, Sym | SymStr):
                d = Sym(f"{getattr(base, 'name', 'symstr')}[slice]", truthy=None, pytype=str, tags=tuple(getattr(base, "tags", ())) + ("derived",))
                d.attrs["derived_from"] = base
                return d
            if any(isinstance(x, Sym | SymStr) for x in (lo, hi, st)):
                self.unsupported(n, "slice with abstract bounds")
            return base[lo:hi:st]
        idx = self.eval(n.slice, env, m)
        return self.getitem(base, idx, n)

    def getitem(self, base, idx, node):
        if isinstance(base, Obj):
            # SurveyElement.__getitem__ -> attribute read
            if isinstance(idx, str):
                return self.getattr(base, idx, node)
            self.unsupported(node, "computed subscript on object")
        if isinstance(base, Sym):
            if "getitem" in base.attrs:
                return base.attrs["getitem"](idx)
            self.unsupported(node, f"subscript of abstract value {base.name}")
        if isinstance(base, type) or isinstance(base, ExtVal | ClassVal):
            return base  # typing generics dict[str, Any]
        if isinstance(idx, SymStr):
            idx = idx.text()
        if isinstance(base, DDict) and base.factory is not None:
            try:
                if idx not in base:
                    f = base.factory
                    base[idx] = self.call(f, [], {}, node) if not isinstance(f, type) else f()
            except TypeError:
                pass
        try:
            return base[idx]
        except KeyError:
            raise Raised("KeyError", (idx,), node, BUILTIN_EXC["KeyError"]) from None
        except IndexError:
            raise Raised("IndexError", (idx,), node, BUILTIN_EXC["IndexError"]) from None
        except TypeError as e:
            raise Raised("TypeError", (str(e),), node, BUILTIN_EXC["TypeError"]) from None

    def e_Lambda(self, n, env, m):
        return LambdaVal(n, env, m)

    def e_NamedExpr(self, n, env, m):
        v = self.eval(n.value, env, m)
        env[n.target.id] = v
        return v

    def e_Starred(self, n, env, m):
        self.unsupported(n, "starred")

    # comprehensions
    def _comp(self, n, env, m, emit):
        def rec(i, scope):
            if i == len(n.generators):
                emit(scope)
                return
            g = n.generators[i]
            for item in self.iterate(self.eval(g.iter, scope, m), g.iter):
                s2 = {"__parent__": scope}
                self.assign(g.target, item, s2, m)
                if all(self.truth(self.eval(c, s2, m)) for c in g.ifs):
                    rec(i + 1, s2)

        rec(0, {"__parent__": env})

    def e_ListComp(self, n, env, m):
        out = []
        self._comp(n, env, m, lambda s: out.append(self.eval(n.elt, s, m)))
        return out

    e_GeneratorExp = e_ListComp

    def e_SetComp(self, n, env, m):
        out = []
        self._comp(n, env, m, lambda s: out.append(self.eval(n.elt, s, m)))
        try:
            return set(out)
        except TypeError:
            return OrderedBag(out)

    def e_DictComp(self, n, env, m):
        out = {}

        def emit(s):
            out[self.hashable(self.eval(n.key, s, m), n)] = self.eval(n.value, s, m)

        self._comp(n, env, m, emit)
        return out

    def iterate(self, v, node):
        if isinstance(v, list | tuple | set | frozenset | dict | str | range):
            return list(v)
        if isinstance(v, _abc.Mapping) or isinstance(v, _collections.deque):
            return list(v)
        if isinstance(v, OrderedBag):
            return list(v.items)
        if isinstance(v, _Iterator):
            return list(v)  # consumes it, as a for-loop would
        if isinstance(v, Obj):
            if v.slots is not None:
                return list(v.slots)
            self.unsupported(node, "iteration over object without slot universe")
        if isinstance(v, Sym) and "iter" in v.attrs:
            return list(v.attrs["iter"])
        if v is None:
            raise Raised("TypeError", ("'NoneType' object is not iterable",), node, BUILTIN_EXC["TypeError"])
        self.unsupported(node, f"iteration over {type(v).__name__} {v!r}")

    # --------------------------------------------------------------- calls
    def e_Call(self, n, env, m):
        # hooks by syntactic callee first (e.g. "survey.insert_xpaths")
        callee_txt = norm(n.func)
        args = []
        for a in n.args:
            if isinstance(a, ast.Starred):
                args.extend(self.iterate(self.eval(a.value, env, m), a))
            else:
                args.append(self.eval(a, env, m))
        kwargs = {}
        for k in n.keywords:
            v = self.eval(k.value, env, m)
            if k.arg is None:
                if not isinstance(v, dict):
                    self.unsupported(n, "** of non-dict in call")
                for kk, vv in v.items():
                    if kk in kwargs:
                        raise Raised("TypeError", (f"multiple values for keyword argument {kk!r}",), n, BUILTIN_EXC["TypeError"])
                    kwargs[kk] = vv
            else:
                kwargs[k.arg] = v
        hook = self.hooks.get(f"call:{callee_txt}")
        if hook is not None:
            return hook(self, args, kwargs, n)
        f = self.eval(n.func, env, m)
        return self.call(f, args, kwargs, n)

    def call(self, f, args, kwargs, node):
        if isinstance(f, FuncVal):
            hook = self.hooks.get(f"fn:{f.fi.fq}") or self.hooks.get(f"fnname:{f.fi.name}")
            if hook is not None:
                a = list(args)
                if f.bound and f.bound[0] == "self":
                    a = [f.bound[1], *a]
                return hook(self, a, kwargs, node)
            if not self.inline(f.fi):
                raise AnalysisError(self.rule, f"call to {f.fi.fq} has neither hook nor inline permission")
            a = list(args)
            if f.bound:
                a = [f.bound[1], *a]
            return self.call_function(f.fi, a, kwargs, f.closure, node)
        if isinstance(f, LambdaVal):
            env = {"__parent__": f.env}
            self.bind_args(f.node.args, args, kwargs, env, f.module, node)
            return self.eval(f.node.body, env, f.module)
        if isinstance(f, ClassVal):
            hook = self.hooks.get(f"new:{f.ci.name}")
            if hook is not None:
                return hook(self, args, kwargs, node)
            if self.exc_mro(f)[-1] == "BaseException" or "Exception" in self.exc_mro(f):
                return ExcVal(f.ci.name, tuple(args), self.exc_mro(f))
            if self.is_enum(f.ci) and len(args) == 1:
                for mem in self.enum_members(f.ci):
                    if mem.value == args[0] or mem == args[0]:
                        return mem
                raise Raised("ValueError", (args[0],), node, BUILTIN_EXC["ValueError"])
            obj = Obj(f.ci, {}, name=f.ci.name)
            init = self.class_attr(f.ci, "__init__")
            if isinstance(init, FuncVal):
                self.call_function(init.fi, [obj, *args], kwargs, None, node)
            return obj
        if isinstance(f, ExtVal):
            hook = self.hooks.get(f"ext:{f.dotted}")
            if hook is not None:
                return hook(self, args, kwargs, node)
            return self.call_ext(f.dotted, args, kwargs, node)
        if isinstance(f, BoundMethod):
            hook = self.hooks.get(f"method:{f.attr}")
            if hook is not None:
                r = hook(self, f.base, args, kwargs, node)
                if r is not NotImplemented:
                    return r
            return self.call_method(f.base, f.attr, args, kwargs, node)
        if isinstance(f, type):
            return self.call_ext(f"builtins.{f.__name__}", args, kwargs, node)
        if callable(f) and not isinstance(f, type):
            # native model supplied by a check (hook stored as attribute of an abstract value)
            return f(self, args, kwargs, node)
        self.unsupported(node, f"call of {type(f).__name__}")

    def bind_args(self, a: ast.arguments, args, kwargs, env, m, node):
        params = [*a.posonlyargs, *a.args]
        defaults = [None] * (len(params) - len(a.defaults)) + list(a.defaults)
        args = list(args)
        kwargs = dict(kwargs)
        for i, p in enumerate(params):
            if i < len(args):
                if p.arg in kwargs:
                    raise Raised("TypeError", (f"multiple values for argument {p.arg!r}",), node, BUILTIN_EXC["TypeError"])
                env[p.arg] = args[i]
            elif p.arg in kwargs:
                env[p.arg] = kwargs.pop(p.arg)
            elif defaults[i] is not None:
                env[p.arg] = self.eval(defaults[i], {}, m)
            else:
                raise Raised("TypeError", (f"missing argument {p.arg!r}",), node, BUILTIN_EXC["TypeError"])
        extra = args[len(params):]
        if a.vararg:
            env[a.vararg.arg] = tuple(extra)
        elif extra:
            raise Raised("TypeError", ("too many positional arguments",), node, BUILTIN_EXC["TypeError"])
        for p, d in zip(a.kwonlyargs, a.kw_defaults):
            if p.arg in kwargs:
                env[p.arg] = kwargs.pop(p.arg)
            elif d is not None:
                env[p.arg] = self.eval(d, {}, m)
            else:
                raise Raised("TypeError", (f"missing keyword argument {p.arg!r}",), node, BUILTIN_EXC["TypeError"])
        if a.kwarg:
            env[a.kwarg.arg] = kwargs
        elif kwargs:
            raise Raised("TypeError", (f"got an unexpected keyword argument {next(iter(kwargs))!r}",), node, BUILTIN_EXC["TypeError"])

    def call_function(self, fi: FuncInfo, args, kwargs, closure, node):
        self.depth += 1
        if self.depth > 60:
            raise AnalysisError(self.rule, f"abstract call depth exceeded at {fi.fq}")
        try:
            env = {"__parent__": closure, "__func__": fi}
            self.bind_args(fi.node.args, args, kwargs, env, fi.module, node)
            is_gen = any(isinstance(x, ast.Yield | ast.YieldFrom) for x in _own_nodes(fi.node))
            if is_gen:
                env["__yields__"] = []
            try:
                self.exec_block(fi.node.body, env, fi.module)
                ret = None
            except _Return as r:
                ret = r.v
            if is_gen:
                return GenList(env["__yields__"])
            return ret
        finally:
            self.depth -= 1

    # external / builtin calls on concrete values
    def call_ext(self, dotted, args, kwargs, node):
        name = dotted.split(".")[-1]
        if dotted.startswith("builtins.") or dotted in _BUILTIN_FUNCS:
            return self.builtin(name, args, kwargs, node)
        if dotted == "re.compile":
            pat = args[0]
            if not isinstance(pat, str):
                self.unsupported(node, "re.compile of non-constant")
            flags = kwargs.get("flags", args[1] if len(args) > 1 else 0)
            return RegexVal(pat, flags if isinstance(flags, int) else 0)
        if dotted == "re.escape":
            return _re.escape(args[0])
        if dotted.startswith("re.") and name in ("I", "IGNORECASE", "M", "S", "X", "U"):
            return int(getattr(_re, name))
        if dotted == "re.sub" and len(args) >= 3 and isinstance(args[0], RegexVal | str) and isinstance(args[2], str) and "ext:re.sub" not in self.hooks:
            return self.call_method(args[0] if isinstance(args[0], RegexVal) else RegexVal(args[0]), "sub", [args[1], args[2]], {}, node)
        if dotted in ("re.search", "re.match", "re.fullmatch", "re.finditer", "re.findall", "re.split") and len(args) >= 2:
            pat = args[0]
            if isinstance(pat, RegexVal | str) and isinstance(args[1], str):
                # folding a constant pattern over a constant string
                rx = _re.compile(pat.pattern, pat.flags) if isinstance(pat, RegexVal) else _re.compile(pat)
                r = getattr(rx, name)(args[1])
                return iter(list(r)) if name == "finditer" else r
            hook = self.hooks.get("re:predicate")
            if hook is not None:
                return hook(self, name, pat, args[1], node)
        if dotted in ("types.MappingProxyType",):
            return args[0]
        if dotted in ("itertools.chain",):
            out = []
            for a in args:
                out.extend(self.iterate(a, node))
            return out
        if dotted == "itertools.chain.from_iterable":
            out = []
            for a in self.iterate(args[0], node):
                out.extend(self.iterate(a, node))
            return out
        if dotted == "functools.partial":
            f0, pa, pk = args[0], list(args[1:]), dict(kwargs)
            return lambda interp, a, k, n, f0=f0, pa=pa, pk=pk: interp.call(f0, [*pa, *a], {**pk, **k}, n)
        nat = self._native(dotted)
        if nat is not None:
            return self._call_native(nat, dotted, args, kwargs, node)
        if dotted in ("copy.copy", "copy.deepcopy"):
            import copy as _c
            return _c.copy(args[0]) if not isinstance(args[0], Sym | SymStr | Obj) else args[0]
        if dotted == "re.Scanner":
            def _scan(interp, a, k, n):
                # the package's scanner is what parse_expression wraps: a check that models one models the other
                h = interp.hooks.get("fnname:parse_expression")
                if h is None:
                    interp.unsupported(n, "method scan on abstract value <re.Scanner>")
                return h(interp, a, k, n)
            return Sym("re.Scanner", truthy=True, attrs={"scan": _scan})
        if dotted in ("collections.defaultdict",):
            d = DDict()
            d.factory = args[0] if args else None
            return d
        if dotted == "os.path.splitext":
            if isinstance(args[0], str):
                import os
                return os.path.splitext(args[0])
        if dotted.startswith("typing.") or dotted.startswith("collections.abc."):
            return ExtVal(dotted)
        hook = self.hooks.get("ext:*")
        if hook is not None:
            return hook(self, dotted, args, kwargs, node)
        raise AnalysisError(self.rule, f"no model for external call {dotted} at line {getattr(node, 'lineno', '?')}")

    def _native(self, dotted):
        modname, _, attr = dotted.rpartition(".")
        allowed = _NATIVE_PURE.get(modname)
        if allowed is None or attr not in allowed:
            return None
        import importlib
        try:
            return getattr(importlib.import_module(modname), attr)
        except (ImportError, AttributeError):
            return None

    def _wrap_callable(self, v, node):
        if isinstance(v, FuncVal | LambdaVal | BoundMethod | ClassVal) or (callable(v) and not isinstance(v, type) and getattr(v, "__module__", "") in (None, "sa.interp", __name__)):
            return lambda *a, **k: self.call(v, list(a), k, node)
        return v

    def _call_native(self, fn, dotted, args, kwargs, node):
        def concrete(x, depth=0):
            if isinstance(x, Sym | SymStr | Obj | NodeVal):
                return depth > 0  # abstract values may be *elements* that are only moved around, never inspected
            if isinstance(x, list | tuple | set | frozenset) and depth < 3:
                return all(concrete(i, depth + 1) for i in x)
            if isinstance(x, dict) and depth < 3:
                return all(concrete(i, depth + 1) for i in x.values())
            return True
        if not all(concrete(a) for a in [*args, *kwargs.values()]):
            # a pure TEXT transform / predicate applied to abstract text: the result is text derived from the argument (it is
            # no longer the argument itself - rules that follow a text to a sink see the transformation), a predicate is a decision
            if dotted in _TEXT_TRANSFORMS:
                src = next((a for a in [*args, *kwargs.values()] if isinstance(a, Sym | SymStr)), None)
                attr = dotted.rsplit(".", 1)[1]
                if attr.startswith("is_") or attr.startswith("is"):
                    return self.decide((dotted, getattr(src, "uid", None) or getattr(src, "text", lambda: "")()))
                d = Sym(f"{dotted}({getattr(src, 'name', 'text')})", truthy=getattr(src, "truthy", None), pytype=str, tags=tuple(getattr(src, "tags", ())) + ("derived", dotted))
                d.attrs["derived_from"] = src
                return d
            self.unsupported(node, f"native model of {dotted} applied to an abstract value")
        a = [self._wrap_callable(x, node) for x in args]
        k = {kk: self._wrap_callable(v, node) for kk, v in kwargs.items()}
        try:
            r = fn(*a, **k)
            if dotted == "itertools.groupby":
                return [(kk, list(g)) for kk, g in r]
            if dotted.startswith("itertools."):
                if dotted in ("itertools.count", "itertools.repeat") and len(a) < 2:
                    self.unsupported(node, f"unbounded iterator {dotted}")
                if dotted == "itertools.tee":
                    return tuple(list(x) for x in r)
                return list(r)
            if dotted.startswith("operator.") and callable(r) and dotted.rsplit(".", 1)[1] in ("itemgetter", "attrgetter"):
                if dotted.endswith("itemgetter"):
                    keys = list(a)
                    return lambda interp, aa, kk, n, keys=keys: (interp.getitem(aa[0], keys[0], n) if len(keys) == 1
                                                                   else tuple(interp.getitem(aa[0], q, n) for q in keys))
                names = list(a)
                return lambda interp, aa, kk, n, names=names: (interp.getattr(aa[0], names[0], n) if len(names) == 1
                                                                else tuple(interp.getattr(aa[0], q, n) for q in names))
            return r
        except Raised:
            raise
        except (KeyError, TypeError, ValueError, IndexError, AttributeError) as e:
            en = type(e).__name__
            raise Raised(en, e.args if en == "KeyError" else (str(e),), node, BUILTIN_EXC[en]) from None

    def builtin(self, name, args, kwargs, node):
        a0 = args[0] if args else None
        if name == "len":
            if isinstance(a0, Sym):
                if "len" in a0.attrs:
                    return a0.attrs["len"]
                # text-like abstract value: length > 0 iff truthy
                return Sym(f"len({a0.name})", truthy=self.truth(a0), sign=1 if self.truth(a0) else 0, pytype=int)
            if isinstance(a0, SymStr):
                t = self.truth(a0)
                return Sym("len(symstr)", truthy=t, sign=1 if t else 0, pytype=int)
            if isinstance(a0, Obj):
                if a0.slots is not None:
                    return len(a0.slots)
            if a0 is None:
                raise Raised("TypeError", ("object of type 'NoneType' has no len()",), node, BUILTIN_EXC["TypeError"])
            if isinstance(a0, OrderedBag):
                return len(a0.items)
            return len(a0)
        if name == "isinstance":
            return self.isinstance(a0, args[1], node)
        if name == "hasattr":
            return self.hasattr(a0, args[1], node)
        if name == "getattr":
            try:
                return self.getattr(a0, args[1], node)
            except Raised as r:
                if r.exc_name == "AttributeError" and len(args) > 2:
                    return args[2]
                raise
        if name == "callable":
            return isinstance(a0, FuncVal | LambdaVal | BoundMethod | ClassVal)
        if name in ("any", "all"):
            items = self.iterate(a0, node)
            if name == "any":
                return any(self.truth(i) for i in items)
            return all(self.truth(i) for i in items)
        if name == "str":
            if not args:
                return ""
            return self.to_strpart(a0, node) if not isinstance(a0, str) else str(a0)
        if name == "bool":
            return self.truth(a0) if args else False
        if name in ("int", "float"):
            if isinstance(a0, Sym):
                if "numeric" in a0.tags:
                    return Sym(f"{name}({a0.name})", pytype=float)
                if "nonnumeric" in a0.tags:
                    raise Raised("ValueError", ("invalid literal",), node, BUILTIN_EXC["ValueError"])
                if self.decide(("numeric", a0.uid)):
                    return Sym(f"{name}({a0.name})", pytype=float)
                raise Raised("ValueError", ("invalid literal",), node, BUILTIN_EXC["ValueError"])
            try:
                return int(a0) if name == "int" else float(a0)
            except (ValueError, TypeError) as e:
                en = type(e).__name__
                raise Raised(en, (str(e),), node, BUILTIN_EXC[en]) from None
        if name in ("set", "frozenset"):
            items = self.iterate(a0, node) if args else []
            try:
                return frozenset(items) if name == "frozenset" else set(items)
            except TypeError:
                return OrderedBag(items)
        if name == "tuple":
            return tuple(self.iterate(a0, node)) if args else ()
        if name == "list":
            return list(self.iterate(a0, node)) if args else []
        if name == "dict":
            d = {}
            if args:
                if isinstance(a0, dict | _abc.Mapping):
                    d.update(a0)
                else:
                    for k, v in self.iterate(a0, node):
                        d[k] = v
            d.update(kwargs)
            return d
        if name == "sorted":
            items = self.iterate(a0, node)
            key = kwargs.get("key")
            try:
                if key is not None:
                    return sorted(items, key=lambda x: self.call(key, [x], {}, node), reverse=bool(kwargs.get("reverse", False)))
                return sorted(items, reverse=bool(kwargs.get("reverse", False)))
            except TypeError:
                self.unsupported(node, "sorted of abstract values")
        if name == "reversed":
            return list(reversed(self.iterate(a0, node)))
        if name == "enumerate":
            start = kwargs.get("start", args[1] if len(args) > 1 else 0)
            return [(i + start, v) for i, v in enumerate(self.iterate(a0, node))]
        if name == "zip":
            # real iterators (from iter()) are consumed alternately, as in Python: zip(it, it) pairs consecutive items
            return list(zip(*[a if isinstance(a, _Iterator) else self.iterate(a, node) for a in args]))
        if name == "range":
            return list(range(*args))
        if name in ("min", "max", "sum"):
            its = self.iterate(a0, node) if len(args) == 1 else list(args)
            if name == "sum":
                return sum(its, *args[1:2]) if len(args) > 1 and not isinstance(args[1], Sym) else sum(its)
            kw2 = {}
            if kwargs.get("key") is not None:
                key = kwargs["key"]
                kw2["key"] = lambda x: self.call(key, [x], {}, node)
            if "default" in kwargs:
                kw2["default"] = kwargs["default"]
            try:
                return {"min": min, "max": max}[name](its, **kw2)
            except ValueError as e:
                raise Raised("ValueError", (str(e),), node, BUILTIN_EXC["ValueError"]) from None
        if name == "next" and isinstance(a0, _Iterator):
            try:
                return next(a0)
            except StopIteration:
                if len(args) > 1:
                    return args[1]
                raise Raised("StopIteration", (), node, BUILTIN_EXC["StopIteration"]) from None
        if name == "next":
            items = self.iterate(a0, node)
            if items:
                return items[0]
            if len(args) > 1:
                return args[1]
            raise Raised("StopIteration", (), node, BUILTIN_EXC["StopIteration"])
        if name == "iter":
            return iter(self.iterate(a0, node))
        if name == "repr":
            return repr(a0)
        if name == "hash":
            if isinstance(a0, list | dict | set):
                raise Raised("TypeError", ("unhashable",), node, BUILTIN_EXC["TypeError"])
            return 0
        if name == "format":
            return format(*args)
        if name == "chr":
            return chr(a0)
        if name == "ord":
            return ord(a0)
        if name == "type":
            return type(a0)
        if name == "id":
            return Sym("id", truthy=True)
        if name == "object":
            return Obj(None, {}, name="object()")
        if name == "super":
            self.unsupported(node, "super() outside supported pattern")
        if name == "filter":
            fn, items = a0, self.iterate(args[1], node)
            if fn is None:
                return [i for i in items if self.truth(i)]
            return [i for i in items if self.truth(self.call(fn, [i], {}, node))]
        if name == "map":
            cols = [self.iterate(a, node) for a in args[1:]]
            return [self.call(a0, list(t), {}, node) for t in zip(*cols)]
        if name in ("abs", "round", "divmod"):
            if any(isinstance(a, Sym | SymStr | Obj) for a in args):
                return Sym(f"{name}(...)", pytype=float)
            return {"abs": abs, "round": round, "divmod": divmod}[name](*args)
        if name == "print":
            return None
        if name == "issubclass":
            if isinstance(a0, ClassVal) and isinstance(args[1], ClassVal):
                return args[1].ci in self.mro(a0.ci)
            self.unsupported(node, "issubclass on non-class values")
        if name in BUILTIN_EXC:
            return ExcVal(name, tuple(args), BUILTIN_EXC[name])
        self.unsupported(node, f"builtin {name}")

    def isinstance(self, v, t, node) -> bool:
        ts = t if isinstance(t, tuple) else (t,)
        for tt in ts:
            if isinstance(tt, type):
                pv = v
                if isinstance(v, Sym):
                    if v.pytype is None:
                        return self.decide(("isinstance", v.uid, tt.__name__))
                    if issubclass(v.pytype, tt):
                        return True
                    continue
                if isinstance(v, SymStr | EnumStr):
                    if tt in (str, object):
                        return True
                    continue
                if isinstance(v, OrderedBag):
                    if tt in (set, object):
                        return True
                    continue
                if isinstance(v, Obj | NodeVal | FuncVal | ClassVal):
                    if tt is object:
                        return True
                    continue
                if isinstance(pv, tt):
                    return True
            elif isinstance(tt, ClassVal):
                if isinstance(v, Obj) and v.cls is not None and tt.ci in self.mro(v.cls):
                    return True
            elif isinstance(tt, ExtVal):
                nm = tt.dotted.split(".")[-1]
                if isinstance(v, Sym) and nm in v.tags:
                    return True
                if nm == "Generator" and isinstance(v, GenList):
                    return True
                if isinstance(v, Obj) and v.cls is not None and any(e.split(".")[-1] == nm for e in self.ext_bases(v.cls)):
                    return True
            else:
                self.unsupported(node, f"isinstance against {tt!r}")
        return False

    def hasattr(self, v, attr, node) -> bool:
        if isinstance(v, Obj):
            if attr in v.attrs:
                return True
            if v.slots is not None and attr in v.slots:
                return True
            if v.cls is not None and self.class_attr(v.cls, attr) is not _MISSING:
                return True
            return False
        if isinstance(v, Sym):
            if attr in v.attrs:
                return True
            return self.decide(("hasattr", v.uid, attr))
        try:
            return hasattr(v, attr)
        except Exception:
            return False

    def call_method(self, base, attr, args, kwargs, node):
        if isinstance(base, Sym | SymStr):
            return self.sym_method(base, attr, args, kwargs, node)
        if isinstance(base, NodeVal):
            return base.method(self, attr, args, kwargs, node)
        if isinstance(base, RegexVal):
            hook = self.hooks.get(f"regex:{attr}")
            if hook is not None:
                return hook(self, base, args, kwargs, node)
            if attr == "sub" and len(args) >= 2 and isinstance(args[1], str):
                repl = args[0]
                if not isinstance(repl, str):
                    fn = repl
                    repl = lambda m, fn=fn: self._as_str(self.call(fn, [m], {}, node), node)
                try:
                    return _re.compile(base.pattern, base.flags).sub(repl, args[1])
                except (_re.error, IndexError) as exc:  # a replacement template the regex engine rejects (bad escape, missing group)
                    raise Raised("error", (str(exc),), node, ("error", "Exception", "BaseException")) from None
            if attr in ("search", "match", "fullmatch", "finditer", "findall", "split") and args and all(isinstance(a, str | int) for a in args):
                # folding a constant pattern over a constant string
                r = getattr(_re.compile(base.pattern, base.flags), attr)(*args)
                return iter(list(r)) if attr == "finditer" else r
            # a constant pattern applied to an abstract text: the result is an abstract value derived from it
            subj = args[1] if attr in ("sub", "subn") and len(args) > 1 else (args[0] if args else None)
            if isinstance(subj, Sym | SymStr):
                def _derived(kind):
                    d = Sym(f"re.{attr}({getattr(subj, 'name', 'symstr')})", truthy=None, pytype=str, tags=tuple(getattr(subj, "tags", ())) + ("derived", kind))
                    d.attrs["derived_from"] = subj
                    return d
                if attr in ("sub", "subn"):
                    return _derived("regex-sub") if attr == "sub" else (_derived("regex-sub"), Sym("n", pytype=int))
                if attr in ("search", "match", "fullmatch"):
                    hook = self.hooks.get("re:predicate")
                    if hook is not None:
                        return hook(self, attr, base, subj, node)
                    k = subj.uid if isinstance(subj, Sym) else subj.text()
                    if self.decide((f"re.{attr}", base.pattern, k)):
                        return Sym("MATCH", truthy=True, attrs={"group": lambda i, a, kk, n: _derived("regex-group"), "start": lambda i, a, kk, n: Sym("pos", pytype=int),
                                                                 "end": lambda i, a, kk, n: Sym("pos", pytype=int), "groups": lambda i, a, kk, n: (_derived("regex-group"),)})
                    return None
                if attr in ("findall", "split", "finditer"):
                    return [_derived("regex-part")]
            self.unsupported(node, f"regex method {attr} without hook")
        if isinstance(base, _re.Match):
            return getattr(base, attr)(*args, **kwargs)
        if isinstance(base, OrderedBag):
            if attr == "union":
                items = list(base.items)
                for a in args:
                    for x in self.iterate(a, node):
                        if not any(x is y for y in items):
                            items.append(x)
                return OrderedBag(items)
            if attr == "add":
                base.items.append(args[0])
                return None
        if isinstance(base, bytes) and attr in ("decode", "strip", "startswith", "endswith", "split", "splitlines", "lower", "upper", "replace", "hex"):
            try:
                return getattr(base, attr)(*args, **kwargs)
            except Exception as e:  # noqa: BLE001 - the concrete operation's own exception is the evaluated outcome
                en = type(e).__name__
                raise Raised(en, (str(e),), node, BUILTIN_EXC.get(en, (en, "Exception", "BaseException"))) from None
        if isinstance(base, dict | list | tuple | set | frozenset | str | int | float):
            if any(isinstance(a, Sym | SymStr) for a in args):
                if isinstance(base, dict) and attr in ("get", "pop", "setdefault"):
                    k = args[0].text() if isinstance(args[0], SymStr) else args[0]
                    if attr == "get":
                        return base.get(k, args[1] if len(args) > 1 else None)
                if isinstance(base, dict) and attr == "update":
                    base.update(*args, **kwargs)
                    return None
                if isinstance(base, list) and attr in ("append", "extend", "insert"):
                    return getattr(base, attr)(*args)
                if isinstance(base, set) and attr == "add":
                    try:
                        base.add(args[0])
                    except TypeError:
                        pass
                    return None
                if isinstance(base, str) and attr == "join":
                    items = self.iterate(args[0], node)
                    parts = []
                    for i, it in enumerate(items):
                        if i:
                            parts.append(base)
                        parts.append(it)
                    return SymStr(parts)
                if isinstance(base, str) and attr == "format":
                    self.unsupported(node, "str.format with abstract args")
                if isinstance(base, set | frozenset) and attr == "union":
                    return OrderedBag([*base, *[x for a in args for x in self.iterate(a, node)]])
            if isinstance(base, str) and attr == "join" and args:
                items = self.iterate(args[0], node)
                if any(isinstance(i, Sym | SymStr) for i in items):
                    parts = []
                    for i, it in enumerate(items):
                        if i:
                            parts.append(base)
                        parts.append(it)
                    return SymStr(parts)
                args = [items]
            if isinstance(base, str) and attr == "maketrans" and False:
                pass
            fn = getattr(base, attr, None)
            if fn is None:
                raise Raised("AttributeError", (attr,), node, BUILTIN_EXC["AttributeError"])
            # dict.get(k, default) etc. with possibly-unhashable args
            try:
                r = fn(*[self._plain(a) for a in args], **kwargs)
            except KeyError as e:
                raise Raised("KeyError", e.args, node, BUILTIN_EXC["KeyError"]) from None
            except (TypeError, ValueError, IndexError, AttributeError) as e:
                en = type(e).__name__
                raise Raised(en, (str(e),), node, BUILTIN_EXC[en]) from None
            if attr in ("keys", "items"):
                return ViewList(r)
            if attr == "values":
                return list(r)
            return r
        if base is None:
            raise Raised("AttributeError", (f"'NoneType' object has no attribute {attr!r}",), node, BUILTIN_EXC["AttributeError"])
        if isinstance(base, type) and base is str and attr == "maketrans":
            return str.maketrans(*args)
        if isinstance(base, type) and base is dict and attr == "fromkeys":
            return dict.fromkeys(*[self.iterate(args[0], node), *args[1:]])
        self.unsupported(node, f"method {attr} on {type(base).__name__}")

    def _plain(self, a):
        return a

    def _as_str(self, v, node):
        if isinstance(v, str):
            return v
        self.unsupported(node, "regex replacement callback returned an abstract value")

    def sym_method(self, base, attr, args, kwargs, node):
        h = self.hooks.get(f"symmethod:{attr}")
        if h is not None:
            r = h(self, base, args, kwargs, node)
            if r is not NotImplemented:
                return r
        if isinstance(base, Sym) and attr in base.attrs and callable(base.attrs[attr]):
            return base.attrs[attr](self, args, kwargs, node)
        if attr in ("strip", "lower", "upper", "lstrip", "rstrip", "capitalize"):
            if isinstance(base, Sym):
                s = Sym(f"{base.name}.{attr}()", truthy=base.truthy, pytype=str, tags=base.tags)
                s.attrs["derived_from"] = base
                # a derived string shares the truthiness decision with its source
                if base.truthy is None:
                    t = self.truth(base)
                    s.truthy = t
                return s
            return base
        if attr == "startswith" or attr == "endswith":
            k = base.uid if isinstance(base, Sym) else base.text()
            if isinstance(base, SymStr) and isinstance(args[0], str):
                lit = base.parts[0] if attr == "startswith" else base.parts[-1]
                if isinstance(lit, str) and (lit.startswith(args[0]) if attr == "startswith" else lit.endswith(args[0])):
                    return True
            return self.decide((attr, k, repr(args[0])))
        if attr == "get" and isinstance(base, Sym) and "get" in base.attrs:
            return base.attrs["get"](*args)
        if attr in ("items", "keys", "values") and isinstance(base, Sym) and "iter" in base.attrs:
            return list(base.attrs["iter"])
        if attr == "replace":
            s = Sym(f"{base!r}.replace", truthy=None, pytype=str)
            return s
        def derived(kind):
            d = Sym(f"{getattr(base, 'name', 'symstr')}.{attr}()", truthy=None, pytype=str, tags=tuple(getattr(base, "tags", ())) + ("derived", kind))
            d.attrs["derived_from"] = base
            return d
        if attr in ("title", "casefold", "swapcase", "removeprefix", "removesuffix", "expandtabs", "zfill", "ljust", "rjust", "center",
                    "translate", "format", "format_map", "encode", "decode", "join"):
            return derived("str-transform")
        if attr in ("split", "rsplit", "splitlines", "partition", "rpartition"):
            # an abstract text split into an unknown number of abstract pieces: one representative piece, marked as such
            return [derived("split-part")]
        if attr in ("isdigit", "isalpha", "isalnum", "isspace", "isnumeric", "isdecimal", "isidentifier", "islower", "isupper", "istitle", "isascii"):
            k = base.uid if isinstance(base, Sym) else base.text()
            return self.decide((attr, k))
        if attr in ("find", "index", "rfind", "rindex", "count"):
            return Sym(f"{getattr(base, 'name', 'symstr')}.{attr}()", pytype=int)
        self.unsupported(node, f"method {attr} on abstract value {base!r}")

    # ---------------------------------------------------------- statements
    def exec_block(self, body, env, m):
        for s in body:
            self.exec(s, env, m)

    def exec(self, s, env, m):
        self.steps += 1
        if self.steps > self.max_steps:
            raise AnalysisError(self.rule, "abstract evaluation step budget exceeded")
        meth = getattr(self, "s_" + type(s).__name__, None)
        if meth is None:
            self.unsupported(s, type(s).__name__)
        return meth(s, env, m)

    def s_Expr(self, s, env, m):
        if isinstance(s.value, ast.Yield):
            self._yield(env, self.eval(s.value.value, env, m) if s.value.value else None)
            return
        if isinstance(s.value, ast.YieldFrom):
            for v in self.iterate(self.eval(s.value.value, env, m), s):
                self._yield(env, v)
            return
        if isinstance(s.value, ast.Constant):
            return
        self.eval(s.value, env, m)

    def _yield(self, env, v):
        e = env
        while e is not None and "__yields__" not in e:
            e = e.get("__parent__")
        e["__yields__"].append(v)

    def s_Pass(self, s, env, m):
        pass

    def s_Import(self, s, env, m):
        pass

    s_ImportFrom = s_Import

    def s_Assign(self, s, env, m):
        v = self.eval(s.value, env, m)
        for t in s.targets:
            self.assign(t, v, env, m)

    def s_AnnAssign(self, s, env, m):
        if s.value is not None:
            self.assign(s.target, self.eval(s.value, env, m), env, m)

    def s_AugAssign(self, s, env, m):
        if isinstance(s.target, ast.Name):
            cur = self.lookup(s.target.id, env, m, s)
        elif isinstance(s.target, ast.Attribute):
            cur = self.getattr(self.eval(s.target.value, env, m), s.target.attr, s)
        elif isinstance(s.target, ast.Subscript):
            cur = self.getitem(self.eval(s.target.value, env, m), self.eval(s.target.slice, env, m), s)
        else:
            self.unsupported(s)
        rhs = self.eval(s.value, env, m)
        if isinstance(cur, list) and isinstance(s.op, ast.Add):
            cur.extend(self.iterate(rhs, s))
            return
        self.assign(s.target, self.binop(s.op, cur, rhs, s), env, m)

    def assign(self, t, v, env, m):
        if isinstance(t, ast.Name):
            # honour nonlocal-less closure semantics: assignment is local
            env[t.id] = v
        elif isinstance(t, ast.Tuple | ast.List):
            items = self.iterate(v, t)
            star = [i for i, e in enumerate(t.elts) if isinstance(e, ast.Starred)]
            if star:
                i0 = star[0]
                n_after = len(t.elts) - i0 - 1
                if len(star) > 1 or len(items) < len(t.elts) - 1:
                    raise Raised("ValueError", ("unpack",), t, BUILTIN_EXC["ValueError"])
                for tt, vv in zip(t.elts[:i0], items[:i0]):
                    self.assign(tt, vv, env, m)
                self.assign(t.elts[i0].value, list(items[i0:len(items) - n_after]), env, m)
                for tt, vv in zip(t.elts[i0 + 1:], items[len(items) - n_after:] if n_after else []):
                    self.assign(tt, vv, env, m)
                return
            if len(items) != len(t.elts):
                raise Raised("ValueError", ("unpack",), t, BUILTIN_EXC["ValueError"])
            for tt, vv in zip(t.elts, items):
                self.assign(tt, vv, env, m)
        elif isinstance(t, ast.Attribute):
            base = self.eval(t.value, env, m)
            if isinstance(base, Obj):
                self.effects.append(("setattr", base, t.attr, v, t))
                base.attrs[t.attr] = v
            elif isinstance(base, Sym):
                self.effects.append(("setattr", base, t.attr, v, t))
                base.attrs[t.attr] = v
            else:
                self.unsupported(t, "attribute store")
        elif isinstance(t, ast.Subscript) and isinstance(t.slice, ast.Slice):
            base = self.eval(t.value, env, m)
            lo = self.eval(t.slice.lower, env, m) if t.slice.lower else None
            hi = self.eval(t.slice.upper, env, m) if t.slice.upper else None
            st = self.eval(t.slice.step, env, m) if t.slice.step else None
            if not isinstance(base, list) or any(isinstance(x, Sym | SymStr) for x in (lo, hi, st)):
                self.unsupported(t, "slice store")
            base[lo:hi:st] = self.iterate(v, t)
        elif isinstance(t, ast.Subscript):
            base = self.eval(t.value, env, m)
            idx = self.eval(t.slice, env, m)
            if isinstance(idx, SymStr):
                idx = idx.text()
            if isinstance(base, dict | list):
                try:
                    base[idx] = v
                except TypeError as e:
                    raise Raised("TypeError", (str(e),), t, BUILTIN_EXC["TypeError"]) from None
            elif isinstance(base, Obj) and isinstance(idx, str):
                self.effects.append(("setattr", base, idx, v, t))
                base.attrs[idx] = v
            else:
                self.unsupported(t, "subscript store")
        else:
            self.unsupported(t, "assignment target")

    def s_Delete(self, s, env, m):
        for t in s.targets:
            if isinstance(t, ast.Subscript):
                base = self.eval(t.value, env, m)
                idx = self.eval(t.slice, env, m)
                try:
                    del base[idx]
                except KeyError:
                    raise Raised("KeyError", (idx,), s, BUILTIN_EXC["KeyError"]) from None
            elif isinstance(t, ast.Name):
                env.pop(t.id, None)
            else:
                self.unsupported(s)

    def s_If(self, s, env, m):
        if self.truth(self.eval(s.test, env, m)):
            self.exec_block(s.body, env, m)
        else:
            self.exec_block(s.orelse, env, m)

    def s_For(self, s, env, m):
        broke = False
        itv = self.eval(s.iter, env, m)
        # a for-loop over an iterator object draws from it one element at a time (the body may advance it with next())
        for item in (itv if isinstance(itv, _Iterator) else self.iterate(itv, s.iter)):
            self.assign(s.target, item, env, m)
            try:
                self.exec_block(s.body, env, m)
            except _Break:
                broke = True
                break
            except _Continue:
                continue
        if not broke:
            self.exec_block(s.orelse, env, m)

    def s_While(self, s, env, m):
        n = 0
        while self.truth(self.eval(s.test, env, m)):
            n += 1
            if n > 1000:
                raise AnalysisError(self.rule, "while loop bound exceeded in abstract evaluation")
            try:
                self.exec_block(s.body, env, m)
            except _Break:
                break
            except _Continue:
                continue

    def s_Break(self, s, env, m):
        raise _Break()

    def s_Continue(self, s, env, m):
        raise _Continue()

    def s_Return(self, s, env, m):
        raise _Return(self.eval(s.value, env, m) if s.value is not None else None)

    def s_Raise(self, s, env, m):
        if s.exc is None:
            cur = env.get("__exc__")
            e = env
            while cur is None and e is not None:
                e = e.get("__parent__")
                cur = e.get("__exc__") if e else None
            if cur is None:
                self.unsupported(s, "bare raise outside handler")
            raise cur
        v = self.eval(s.exc, env, m)
        if isinstance(v, ExcVal):
            raise Raised(v.name, v.args, s, v.mro)
        if isinstance(v, ClassVal | ExtVal):
            mro = self.exc_mro(v)
            raise Raised(mro[0], (), s, mro)
        self.unsupported(s, "raise of non-exception value")

    def s_Try(self, s, env, m):
        try:
            try:
                self.exec_block(s.body, env, m)
            except Raised as r:
                for h in s.handlers:
                    if h.type is None or self.handler_matches(h.type, r, env, m):
                        if h.name:
                            env[h.name] = ExcVal(r.exc_name, r.exc_args, r.mro)
                        prev = env.get("__exc__")
                        env["__exc__"] = r
                        try:
                            self.exec_block(h.body, env, m)
                        finally:
                            env["__exc__"] = prev
                        break
                else:
                    raise
            else:
                self.exec_block(s.orelse, env, m)
        finally:
            if s.finalbody:
                self.exec_block(s.finalbody, env, m)

    def handler_matches(self, tnode, r: Raised, env, m) -> bool:
        t = self.eval(tnode, env, m)
        ts = t if isinstance(t, tuple) else (t,)
        for tt in ts:
            names = self.exc_mro(tt)
            if names and names[0] in r.mro:
                return True
        return False

    def s_With(self, s, env, m):
        for item in s.items:
            v = self.eval(item.context_expr, env, m)
            if item.optional_vars is not None:
                self.assign(item.optional_vars, v, env, m)
        self.exec_block(s.body, env, m)

    def s_FunctionDef(self, s, env, m):
        fi = self._nested_fi(s, env, m)
        env[s.name] = FuncVal(fi, closure=env)

    def _nested_fi(self, s, env, m):
        for f in m.functions.values():
            if f.node is s:
                return f
        return FuncInfo(m, s.name, s)

    def s_Assert(self, s, env, m):
        pass

    def s_Global(self, s, env, m):
        self.unsupported(s, "global")

    def s_Nonlocal(self, s, env, m):
        self.unsupported(s, "nonlocal")


class ViewList(list):
    """dict.keys() / dict.items(): a list (insertion order) that also supports the set algebra of dict views."""

    def _set(self, other):
        return set(self), set(other)

    def __sub__(self, other):
        a, b = self._set(other)
        return a - b

    def __and__(self, other):
        a, b = self._set(other)
        return a & b

    def __or__(self, other):
        a, b = self._set(other)
        return a | b

    def __xor__(self, other):
        a, b = self._set(other)
        return a ^ b

    def __rsub__(self, other):
        return set(other) - set(self)


class DDict(dict):
    """collections.defaultdict modelled for the evaluator (factory is an abstract callable)."""

    factory = None


class OrderedBag:
    """A set whose elements are abstract (unhashable here); keeps insertion
    order only as an artefact – consumers must not depend on it."""

    def __init__(self, items):
        self.items = []
        for x in items:  # a set: equal concrete elements are one element (abstract ones are distinct unless identical)
            if x not in self:
                self.items.append(x)

    def __iter__(self):
        return iter(self.items)

    def __len__(self):
        return len(self.items)

    def __contains__(self, x):
        return any(x is y or (not isinstance(x, Sym) and not isinstance(y, Sym) and _safe_eq(x, y)) for y in self.items)


def _safe_eq(a, b) -> bool:
    try:
        return bool(a == b)
    except Exception:  # noqa: BLE001 - comparison of unrelated abstract values
        return False


class GenList(list):
    """Eagerly collected generator result (isinstance(x, Generator) is true)."""


class ExcVal:
    def __init__(self, name, args, mro):
        self.name, self.args, self.mro = name, args, tuple(mro)

    def __repr__(self):
        return f"{self.name}{self.args!r}"


class BoundMethod:
    def __init__(self, base, attr):
        self.base, self.attr = base, attr


class NodeVal:
    """Abstract result of the XML node factory."""

    def __init__(self, tag, children=None, attrs=None, text=None, parse=False, site=None):
        self.tag = tag
        self.children = list(children or [])
        self.attrs = dict(attrs or {})
        self.text = text
        self.parse = parse
        self.site = site
        self.parent_node = None
        for c in self.children:
            if isinstance(c, NodeVal):
                c.parent_node = self

    def adopt(self, child):
        """DOM semantics: a node has ONE parent; inserting it somewhere else removes it from where it was."""
        if isinstance(child, NodeVal):
            old = child.parent_node
            if old is not None:
                old.children = [c for c in old.children if c is not child]
            child.parent_node = self
        return child

    def __repr__(self):
        a = " ".join(f'{k}="{v}"' for k, v in self.attrs.items())
        inner = "".join(repr(c) for c in self.children)
        t = "" if self.text is None else repr(self.text)
        return f"<{self.tag}{' ' + a if a else ''}>{t}{inner}</{self.tag}>"

    def method(self, interp, attr, args, kwargs, node):
        if attr == "setAttribute":
            self.attrs[args[0] if not isinstance(args[0], SymStr) else args[0].text()] = args[1]
            return None
        if attr == "getAttribute":
            return self.attrs.get(args[0], "")      # minidom: a missing attribute reads as ""
        if attr == "hasAttribute":
            return args[0] in self.attrs
        if attr == "appendChild":
            self.adopt(args[0])
            self.children.append(args[0])
            return args[0]
        if attr == "insertBefore":
            ref = args[1]
            self.adopt(args[0])
            for i, c in enumerate(self.children):
                if c is ref:
                    self.children.insert(i, args[0])
                    break
            else:
                self.children.append(args[0])
            return args[0]
        if attr == "_get_lastChild":
            return self.children[-1] if self.children else None
        if attr == "toxml":
            return Sym(f"toxml({self.tag})", truthy=True, pytype=str, tags=("MARKUP",), attrs={"node": self})
        interp.unsupported(node, f"node method {attr}")

    def to_plain(self):
        def p(v):
            if isinstance(v, NodeVal):
                return v.to_plain()
            if isinstance(v, Sym | SymStr):
                return repr(v)
            return v
        d = {"tag": p(self.tag)}
        if self.attrs:
            d["attrs"] = {str(k): p(v) for k, v in self.attrs.items()}
        if self.text is not None:
            d["text"] = p(self.text)
        if self.parse:
            d["parse"] = p(self.parse)
        if self.children:
            d["children"] = [p(c) for c in self.children]
        return d


_BUILTIN_FUNCS = {
    "len", "isinstance", "hasattr", "getattr", "callable", "any", "all", "str", "bool", "int", "float",
    "set", "frozenset", "tuple", "list", "dict", "sorted", "reversed", "enumerate", "zip", "range", "min",
    "max", "sum", "next", "iter", "repr", "hash", "format", "chr", "ord", "type", "id", "super", "print",
    "filter", "map", "abs", "round", "divmod", "issubclass", "object",
}

# pure standard-library callables that may be applied natively when every argument is a concrete Python value
# (callables of the analysed program passed as arguments are wrapped so that they run in this evaluator)
_NATIVE_PURE = {
    "itertools": ("chain", "groupby", "product", "permutations", "combinations", "islice", "zip_longest", "repeat",
                  "accumulate", "takewhile", "dropwhile", "starmap", "tee", "count", "compress", "filterfalse", "pairwise"),
    "operator": ("itemgetter", "attrgetter", "add", "sub", "mul", "eq", "ne", "lt", "le", "gt", "ge", "not_", "and_", "or_",
                 "contains", "getitem", "truth", "is_", "is_not", "neg"),
    "functools": ("reduce",),
    "collections": ("Counter", "OrderedDict", "deque", "ChainMap"),
    "os.path": ("splitext", "basename", "dirname", "join", "split", "normpath"),
    "posixpath": ("splitext", "basename", "dirname", "join", "split", "normpath"),
    "math": ("floor", "ceil", "isnan", "isinf", "sqrt", "trunc", "isclose", "fabs"),
    "string": (),
    "textwrap": ("dedent", "indent", "shorten"),
    "unicodedata": ("normalize", "category", "is_normalized"),
    "html": ("escape", "unescape"),
}
_TEXT_TRANSFORMS = frozenset({"unicodedata.normalize", "unicodedata.is_normalized", "textwrap.dedent", "textwrap.indent", "textwrap.shorten", "html.escape", "html.unescape"})


def _own_nodes(fn):
    stack = list(fn.body)
    while stack:
        n = stack.pop()
        yield n
        if isinstance(n, ast.FunctionDef | ast.AsyncFunctionDef | ast.ClassDef | ast.Lambda):
            continue
        stack.extend(ast.iter_child_nodes(n))


def _decorators(fi: FuncInfo):
    out = []
    for d in fi.node.decorator_list:
        out.append(norm(d))
    return out


def _is_staticmethod(fi):
    return "staticmethod" in _decorators(fi)


def _is_classmethod(fi):
    return "classmethod" in _decorators(fi)


def native(fn):
    fn._sa_native = True
    return fn


def explore(interp: Interp, run: Callable[[], Any], max_paths: int = 4096):
    """Enumerate every resolution of undetermined guards.  `run` is called once
    per decision vector; yields (decisions, outcome, effects) where outcome is
    ('return', value) or ('raise', Raised)."""
    stack = [[]]
    n = 0
    while stack:
        dec = stack.pop()
        interp.reset(dec)
        try:
            try:
                v = run()
                out = ("return", v)
            except Raised as r:
                out = ("raise", r)
        except NeedDecision:
            stack.append([*dec, True])
            stack.append([*dec, False])
            continue
        n += 1
        if n > max_paths:
            raise AnalysisError(interp.rule, "path budget exceeded in abstract evaluation")
        yield dec, out, list(interp.effects), dict(interp.assumed)
