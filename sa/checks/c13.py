"""C13 — documented spellings and layout noise are interchangeable (alias closure, regex shape, normalisation order)."""

from __future__ import annotations

import ast
import re as _re
import re._parser as sre_parse

from .. import spec_xlsform as spec
from ..astutil import call_name, const_str, guard_texts, kw
from ..interp import Raised
from ..loader import AnalysisError, norm, walk_own
from .. import cfg as cfgmod
from ..report import Rule
from .c19 import _row_loop

EXPLANATION = (
    "Alias closure on the folded tables: every documented equivalence class of spellings (columns, list columns, "
    "settings, select commands, control words, type aliases, truth values) maps to one canonical value; agreement of "
    "the row-type regexes with the alias tables (the constant patterns are folded over every documented spelling and "
    "their alternations are compared with the table keys; anchors and the space/underscore separator); abstract "
    "evaluation of process_header / to_snake_case on one representative per documented header shape (exact, case and "
    "spacing noise, alias, '::' and ':' language delimiters with spaces, jr: rejoin, unknown columns untouched); "
    "smart-quote table and text cleaning; blank-row numbering (enumerate(start=2) over unfiltered rows, skip not "
    "remove); sheet-name handling shared with C12."
)
NOT_DECIDED = ("that normalisations commute with the rest of the pipeline for every form (value-level); equality of whole XForms under the "
               "transformations is implied by the stage-wise facts only for the stages named here")
ASSUMPTIONS = ["re._parser syntax trees; representative headers stand for their documented shape class"]


def _alternation(pattern: str, group: str) -> set[str] | None:
    """Literal alternatives of the named group (group body must be an alternation of literal strings)."""
    tree = sre_parse.parse(pattern)
    gid = tree.state.groupdict.get(group)
    if gid is None:
        return None
    found = []

    def lit(seq):
        out = []
        for op, av in seq:
            if str(op) == "LITERAL":
                out.append(chr(av))
            else:
                return None
        return "".join(out)

    def walk(items):
        for op, av in items:
            opn = str(op)
            if opn == "SUBPATTERN":
                g, _a, _b, sub = av
                if g == gid:
                    found.append(sub)
                walk(sub)
            elif opn in ("MAX_REPEAT", "MIN_REPEAT"):
                walk(av[2])
            elif opn == "BRANCH":
                for alt in av[1]:
                    walk(alt)

    walk(tree)
    if not found:
        return None
    body = found[0]
    # unwrap a single inner (unnamed) group
    while len(body) == 1 and str(body[0][0]) == "SUBPATTERN":
        body = body[0][1][3]
    def expand(seq):
        res = [""]
        for op, av in seq:
            opn = str(op)
            if opn == "LITERAL":
                res = [r + chr(av) for r in res]
            elif opn == "BRANCH":
                nxt = []
                for alt in av[1]:
                    for e in expand(alt):
                        nxt += [r + e for r in res]
                res = nxt
            elif opn == "SUBPATTERN":
                nxt = []
                for e in expand(av[3]):
                    nxt += [r + e for r in res]
                res = nxt
            elif opn == "IN" and all(str(o) == "LITERAL" for o, _ in av):
                res = [r + chr(c) for r in res for _, c in av]
            else:
                raise ValueError(opn)
        return res

    try:
        return set(expand(body))
    except ValueError:
        return None


CLEAN_SAMPLES = [
    "plain", "  lead and trail  ", "a   b", "tab\tinside", "line\nbreak", "\u2018smart\u2019 \u201cquotes\u201d", "<b>bold</b> & co", "]]> end", "&amp; &#65;",
    "emoji \U0001F600 astral \U00010348", "\u05e9\u05dc\u05d5\u05dd rtl", "zero\u200bwidth", "nb\u00a0sp", "caf\u00e9 na\u00efve", "\u4e2d\u6587", "a  ${q1}  b", "  ", "",
]


def _relabel(x, dlang):
    """Rename the default-language key to a fixed token so the results for different default languages are comparable."""
    if isinstance(x, dict):
        return {("<default language>" if k == dlang else k): _relabel(v, dlang) for k, v in x.items()}
    return x


def column_order_rule(ctx, prop, rid, sets=None):
    """Permuting the columns of a sheet does not change what a row means: the header grouping (process_header +
    process_row + merge_dicts) is evaluated abstractly for every permutation of small column sets that mix plain,
    translated and nested (bind::) spellings of the same field, and the nested results must all be equal."""
    import itertools as _it
    r = Rule(prop, rid, "column order does not change the grouped row", floor=3,
             necessary="a cell overwritten or dropped because of the position of its column loses a translation / a bind attribute")
    ph = ctx.func("pyxform.parsing.sheet_headers:process_header", rid)
    pr = ctx.func("pyxform.parsing.sheet_headers:process_row", rid)
    sh = ctx.consts.get("pyxform.aliases", "survey_header", rid)
    cols = set(ctx.consts.get("pyxform.question", "SELECT_QUESTION_FIELDS", rid))
    sets = sets or COLUMN_SETS
    it = ctx.interp(rid)

    def canon(x):
        if isinstance(x, dict):
            return tuple(sorted((str(k), canon(v)) for k, v in x.items()))
        return x

    for name, headers in sets.items():
        results = {}
        failed = None
        dbl = any("::" in h for h in headers)
        # with the default language unset ("default") and set to a language other than the translated column's: the
        # plain column belongs to THAT language in every order
        for perm, dlang in _it.product(list(_it.permutations(headers)), ("default", "English (en)")):
            try:
                key = {}
                for h in perm:
                    it.reset([])
                    _nh, toks = it.call_function(ph, [], {"header": h, "use_double_colon": dbl, "header_aliases": sh, "header_columns": cols}, None, ph.node)
                    key[h] = toks
                it.reset([])
                # (cell texts contain the language names and the default key as words: text is never taken for a key)
                row = {h: f"cell<{h}> children of the default garden, English (en) / French (fr) / fr / en" for h in perm}
                out = it.call_function(pr, [], {"sheet_name": "survey", "row": row, "header_key": key, "default_language": dlang}, None, pr.node)
            except Raised as e:
                failed = f"{perm}: raises {e.exc_name}{e.exc_args}"
                break
            # results are compared per default language; the language key itself is normalised away
            results.setdefault(canon(_relabel(out, dlang)), []).append(perm)
        if failed:
            r.fail(f"process_row[{name}]", f"evaluates ({failed})", pr.loc())
            continue
        ok = len(results) == 1
        why = ""
        if not ok:
            groups = sorted(results.items(), key=lambda kv: -len(kv[1]))
            why = f"{len(results)} different results; e.g. order {list(groups[-1][1][0])} gives {dict(groups[-1][0]) if groups[-1][0] else groups[-1][0]}"
        r.check(ok, f"process_row[{name}]", f"all {sum(len(v) for v in results.values())} column orders give the same grouped row", pr.loc(), why_fail=why[:300])
    return r


COLUMN_SETS = {
    "label + label::French (fr)": ["label", "label::French (fr)"],
    "hint + hint::French (fr) + label": ["hint", "hint::French (fr)", "label"],
    "constraint_message + constraint_message::French (fr) + bind::relevant + required": ["constraint_message", "constraint_message::French (fr)", "bind::relevant", "required"],
    "required_message::French (fr) + required_message + relevant": ["required_message::French (fr)", "required_message", "relevant"],
    "bind::relevant + bind::required + bind::jr:constraintMsg": ["bind::relevant", "bind::required", "bind::jr:constraintMsg"],
    "image + image::French (fr) + audio": ["image", "image::French (fr)", "audio"],
}


def cell_cleaning_rule(ctx, prop, rid):
    """Cleaning of cell text is exactly the documented one: smart quotes straightened; for the survey sheet only, outer
    whitespace stripped and inner runs collapsed.  The cleaner is evaluated abstractly over an adversarial alphabet
    (markup characters, entity-like text, astral / RTL / zero-width / combining characters) against that definition,
    and the strip flag passed for each sheet is folded from the call sites."""
    import re as _re
    r = Rule(prop, rid, "cell cleaning is exactly smart-quote straightening (+ whitespace collapsing for the survey sheet only)", floor=6,
             necessary="any other rewrite of cell text changes what the form author typed (a character dropped or replaced is not recovered from the XForm)")
    ctv = ctx.func("pyxform.xls2json:clean_text_values", rid)
    sq = {"\u2018": "'", "\u2019": "'", "\u201c": '"', "\u201d": '"'}
    for strip in (True, False):
        bad = []
        for src in CLEAN_SAMPLES:
            # definition, independent of the implementation: outer whitespace stripped, runs of SPACES collapsed to one
            # (tabs and line breaks inside a cell are content: multi-line labels survive)
            want = src
            if strip:
                want = _re.sub(r" {2,}", " ", src.strip())
            for a, b in sq.items():
                want = want.replace(a, b)
            it = ctx.interp(rid, hooks={"fnname:validate_pyxform_reference_syntax": lambda i, a, k, n: None})
            it.reset([])
            try:
                out = it.call_function(ctv, [], {"sheet_name": "survey", "data": [{"label": src}], "strip_whitespace": strip}, None, ctv.node)
                got = out[0].get("label") if isinstance(out, list) and out and isinstance(out[0], dict) else out
            except Raised as e:
                got = f"raises {e.exc_name}"
            if got != want:
                bad.append((src, got, want))
        r.check(not bad, f"clean_text_values[strip_whitespace={strip}]", f"{len(CLEAN_SAMPLES)} adversarial cells come out as defined", ctv.loc(),
                why_fail="; ".join(f"{a!r} -> {b!r} (expected {c!r})" for a, b, c in bad[:2]))
    w2j = ctx.func("pyxform.xls2json:workbook_to_json", rid)
    for c in walk_own(w2j.node):
        if isinstance(c, ast.Call) and call_name(c) == "clean_text_values":
            okc, sn = const_str(ctx, w2j.module, kw(c, "sheet_name")) if kw(c, "sheet_name") is not None else (False, None)
            flag = kw(c, "strip_whitespace")
            okf, fv = (True, False) if flag is None else const_str(ctx, w2j.module, flag)
            if not okc:
                continue
            r.check(okf and bool(fv) == (sn == "survey"), f"clean_text_values({sn}):strip flag",
                    "inner whitespace is collapsed for survey cells only; settings, choices, external_choices and entities cells are kept verbatim", w2j.loc(c),
                    why_fail=f"strip_whitespace={ast.unparse(flag) if flag is not None else 'default False'}")
    return r


def from_file_params_obligations(ctx, rule, rid):
    """Every spelling of a select-from-file type (the table aliases.select_from_file) accepts the value / label
    parameters; an ordinary select does not.  The guard of the statement that extends the allowed-parameter list is
    evaluated for each spelling."""
    from ..astutil import guards_of
    from ..interp import Raised
    from ..rowloop import row_loop_of
    w2j = ctx.func("pyxform.xls2json:workbook_to_json", rid)
    loop = row_loop_of(w2j)
    sites = [x for x in walk_own(loop) if isinstance(x, ast.AugAssign | ast.Assign | ast.Expr) and "value" in norm(x) and "label" in norm(x) and "allowed" in norm(x).split("=")[0].split("(")[0]
             and not isinstance(x, ast.Expr)]
    sites = [x for x in sites if any(isinstance(n, ast.Constant) and n.value == "value" for n in ast.walk(x)) and any(isinstance(n, ast.Constant) and n.value == "label" for n in ast.walk(x))]
    if len(sites) != 1:
        rule.fail("select-from-file parameters:site", f"one statement adds value / label to the allowed select parameters (found {len(sites)})", w2j.loc(loop))
        return
    gs = [t for t, pol in guards_of(sites[0], stop=loop) if pol]
    guard = gs[-1] if gs else None
    table = ctx.consts.get("pyxform.aliases", "select_from_file", rid)
    plain = ctx.consts.get("pyxform.aliases", "select", rid)
    names = {n.id for n in ast.walk(guard) if isinstance(n, ast.Name) and isinstance(n.ctx, ast.Load)} if guard is not None else set()
    locals_ = {n for n in names if w2j.module.imports.get(n) is None and n not in w2j.module.functions and n not in w2j.module.assigns}
    # the from-file spellings: the documented four, whatever the select table offers as a from-file spelling, and the
    # table itself (independent of which of the two tables a spelling is listed in)
    from_file = {"select_one_from_file", "select_multiple_from_file", "select one from file", "select multiple from file"} | set(table) \
        | {k for k in plain if "from file" in k.replace("_", " ")}
    for spelling in sorted(from_file):
        rule.check(spelling in plain, f"select-from-file spelling[{spelling!r}]", "is a select command (aliases.select)", w2j.loc(sites[0]))
    for spelling, want in [(k, True) for k in sorted(from_file)] + [(k, False) for k in sorted(plain) if k not in from_file][:6]:
        it = ctx.interp(rid)
        it.reset([])
        env = {n: ({"select_command": spelling, "list_name": "c.csv"} if "dict" in n or "parse" in n else spelling) for n in locals_}
        try:
            got = it.truth(it.eval(guard, env, w2j.module)) if guard is not None else None
        except Raised as e:
            got = f"raises {e.exc_name}"
        rule.check(got is want, f"select-from-file parameters[{spelling!r}]", f"value / label parameters are {'accepted' if want else 'not offered'} for this spelling", w2j.loc(sites[0]),
                   why_fail=f"guard `{norm(guard)[:70] if guard is not None else None}` evaluates to {got}")


def run(ctx):
    repo = ctx.repo
    rules = []
    A = lambda n: ctx.consts.get("pyxform.aliases", n, "C13")

    # ------------------------------------------------------------------ R1
    r1 = Rule("C13", "C13.R1", "alias closure: documented equivalent spellings map to one canonical value", floor=40,
              necessary="two documented spellings resolving differently make the rewritten form a different form")
    sh, lh, st, sel, ctl, tam, yn = A("survey_header"), A("list_header"), A("settings_header"), A("select"), A("control"), A("_type_alias_map"), A("yes_no")
    classes = [
        ("survey", sh, ["relevant", "relevance"]), ("survey", sh, ["calculate", "calculation"]), ("survey", sh, ["read_only", "readonly"]),
        ("survey", sh, ["count", "repeat_count", "jr:count"]), ("survey", sh, ["constraint_message", "constraining_message"]),
        ("survey", sh, ["required_message", "requiredmsg"]), ("survey", sh, ["noapperrorstring", "no_app_error_string"]),
        ("settings", st, ["form_id", "set_form_id"]), ("settings", st, ["form_title", "set_form_title"]),
        ("select", sel, ["select_one", "select one", "select1", "select one from", "add select one prompt using"]),
        ("select", sel, ["select_multiple", "select all that apply", "select all that apply from", "add select multiple prompt using"]),
        ("select", sel, ["select_one_from_file", "select one from file"]), ("select", sel, ["select_multiple_from_file", "select multiple from file"]),
        ("control", ctl, ["repeat", "lgroup", "looped group"]),
    ]
    for tname, table, members in classes:
        vals = {m: table.get(m) for m in members}
        r1.check(None not in vals.values() and len({repr(v) for v in vals.values()}) == 1, f"{tname}:{'/'.join(members)}", "all spellings are known and map to the same canonical value",
                 "pyxform/aliases.py", why_fail=repr(vals))
    single = [("survey", sh, "caption", "label"), ("survey", sh, "image", ("media", "image")), ("survey", sh, "audio", ("media", "audio")), ("survey", sh, "video", ("media", "video")),
              ("survey", sh, "big-image", ("media", "big-image")), ("list", lh, "caption", "label"), ("list", lh, "list_name", "list name"), ("list", lh, "value", "name"),
              ("list", lh, "image", ("media", "image")), ("settings", st, "form_id", "id_string"), ("settings", st, "form_title", "title"),
              ("control", ctl, "group", "group"), ("control", ctl, "repeat", "repeat"), ("control", ctl, "loop", "loop"),
              ("select", sel, "select_one", "select one"), ("select", sel, "select_multiple", "select all that apply"), ("select", sel, "rank", "rank"),
              ("select", sel, "select_one_external", "select one external"), ("select", sel, "select_one_from_file", "select one"), ("select", sel, "select_multiple_from_file", "select all that apply"),
              ("types", tam, "image", "photo"), ("types", tam, "add image prompt", "photo"), ("types", tam, "add photo prompt", "photo"), ("types", tam, "add audio prompt", "audio"),
              ("types", tam, "add video prompt", "video"), ("types", tam, "add file prompt", "file"), ("types", tam, "imei", "deviceid")]
    for tname, table, k, v in single:
        r1.check(table.get(k) == v, f"{tname}[{k!r}]", f"-> {v!r}", "pyxform/aliases.py", why_fail=f"got {table.get(k)!r}")
    for s in spec.TRUE_SPELLINGS + ["true()"]:
        r1.check(yn.get(s) is True, f"yes_no[{s!r}]", "-> True", "pyxform/aliases.py")
    for s in spec.FALSE_SPELLINGS + ["false()"]:
        r1.check(yn.get(s) is False, f"yes_no[{s!r}]", "-> False", "pyxform/aliases.py")
    qtd = ctx.consts.get("pyxform.question_type_dictionary", "QUESTION_TYPE_DICT", "C13.R1")
    for a, b in (("int", "integer"), ("string", "text"), ("image", "photo"), ("datetime", "dateTime"), ("select one", "select1") if "select1" in qtd else ("int", "integer")):
        r1.check(qtd.get(a) is not None and qtd.get(a) == qtd.get(b), f"types {a!r}=={b!r}", "equivalent type spellings have equal table entries", "pyxform/question_type_dictionary.py")
    from .c05 import truth_conversion_eval
    truth_conversion_eval(ctx, r1, "C13.R1")
    from_file_params_obligations(ctx, r1, "C13.R1")
    rules.append(r1)

    # ------------------------------------------------------------------ R2
    r2 = Rule("C13", "C13.R2", "row-type regexes accept exactly the spellings of the alias tables", floor=30,
              necessary="a spelling in the table but not in the regex (or the reverse) is parsed as another row kind")
    RB = ctx.consts.get("pyxform.xls2json", "RE_BEGIN_CONTROL", "C13.R2")
    RE_ = ctx.consts.get("pyxform.xls2json", "RE_END_CONTROL", "C13.R2")
    RS = ctx.consts.get("pyxform.xls2json", "RE_SELECT", "C13.R2")
    for nm, rx, grp, table in (("RE_BEGIN_CONTROL", RB, "type", ctl), ("RE_END_CONTROL", RE_, "type", ctl), ("RE_SELECT", RS, "select_command", sel)):
        alts = _alternation(rx.pattern, grp)
        r2.check(alts is not None and alts == set(table), f"{nm}:{grp} alternation", "the alternation is exactly the alias table's keys", "pyxform/xls2json.py",
                 why_fail=f"regex-only {sorted((alts or set()) - set(table))} table-only {sorted(set(table) - (alts or set()))}")
        r2.check(rx.pattern.startswith("^") and rx.pattern.endswith("$"), f"{nm}:anchored", "pattern is anchored at both ends", "pyxform/xls2json.py")
    so = _alternation(RS.pattern, "specify_other")
    r2.check(so == {"or specify other", "or_other", "or other"}, "RE_SELECT:specify_other", "the three or-other spellings are accepted", "pyxform/xls2json.py", why_fail=repr(so))
    cb, ce, cs = _re.compile(RB.pattern), _re.compile(RE_.pattern), _re.compile(RS.pattern)
    for word in ctl:
        for sep in (" ", "_"):
            m = cb.search(f"begin{sep}{word}")
            r2.check(m is not None and m.group("type") == word, f"begin{sep!r}{word}", "is a begin-control row of that kind", "pyxform/xls2json.py")
            m = ce.search(f"end{sep}{word}")
            r2.check(m is not None and m.group("type") == word, f"end{sep!r}{word}", "is an end-control row of that kind", "pyxform/xls2json.py")
    m = cb.search("begin loop over mylist")
    r2.check(m is not None and m.group("list_name") == "mylist", "begin loop over <list>", "list name is captured", "pyxform/xls2json.py")
    for cmd in sel:
        m = cs.search(f"{cmd} mylist")
        r2.check(m is not None and m.group("select_command") == cmd and m.group("list_name") == "mylist" and m.group("specify_other") is None, f"{cmd} <list>",
                 "is a select row of that command with that list", "pyxform/xls2json.py")
    for oo in ("or specify other", "or_other", "or other"):
        m = cs.search(f"select_one mylist {oo}")
        r2.check(m is not None and m.group("specify_other") == oo and m.group("list_name") == "mylist", f"select_one <list> {oo}", "or-other is recognised, list name intact", "pyxform/xls2json.py")
    r2.check(cs.search("selectone mylist") is None and cb.search("begingroup") is None and cb.search("begin group x y") is None, "negative spellings", "near-miss spellings are not accepted", "pyxform/xls2json.py")
    rules.append(r2)

    # ------------------------------------------------------------------ R3
    r3 = Rule("C13", "C13.R3", "header normalisation: exact, snake-case, delimiter split, alias of the first token, unknown untouched", floor=14,
              necessary="a documented header spelling landing under another key drops or misfiles the whole column")
    ph = ctx.func("pyxform.parsing.sheet_headers:process_header", "C13.R3")
    cols = set(ctx.consts.get("pyxform.question", "SELECT_QUESTION_FIELDS", "C13.R3"))
    it = ctx.interp("C13.R3")
    cases = [
        ("label", False, ("label", ("label",))),
        ("Label", False, ("label", ("label",))),
        (" Read  Only ", False, (("bind", "readonly"), ("bind", "readonly"))),
        ("relevant", False, (("bind", "relevant"), ("bind", "relevant"))),
        ("Relevance", False, (("bind", "relevant"), ("bind", "relevant"))),
        ("calculation", False, (("bind", "calculate"), ("bind", "calculate"))),
        ("caption", False, ("label", ("label",))),
        ("label::English (en)", True, ("label", ("label", "English (en)"))),
        ("label :: fr", True, ("label", ("label", "fr"))),
        ("label:fr", False, ("label", ("label", "fr"))),
        # optional spaces around the single-colon delimiter too
        ("label : English (en)", False, ("label", ("label", "English (en)"))),
        ("hint: French (fr)", False, ("hint", ("hint", "French (fr)"))),
        ("hint :French (fr)", False, ("hint", ("hint", "French (fr)"))),
        ("media :: image :: English", True, ("media", ("media", "image", "English"))),
        ("image::fr", True, (("media", "image"), ("media", "image", "fr"))),
        ("media::image::fr", True, ("media", ("media", "image", "fr"))),
        ("jr:count", False, (("control", "jr:count"), ("control", "jr:count"))),
        ("bind::relevant", True, ("bind", ("bind", "relevant"))),
        ("constraint_message::fr", True, (("bind", "jr:constraintMsg"), ("bind", "jr:constraintMsg", "fr"))),
        # a wrapped header cell, a tab or a no-break space between the words of a lower-case header
        ("constraint\nmessage", False, (("bind", "jr:constraintMsg"), ("bind", "jr:constraintMsg"))), ("read\tonly", False, (("bind", "readonly"), ("bind", "readonly"))),
        ("read\u00a0only", False, (("bind", "readonly"), ("bind", "readonly"))), ("required\n message", False, (("bind", "jr:requiredMsg"), ("bind", "jr:requiredMsg"))),
        ("my_filter", False, ("my_filter", ("my_filter",))),
        ("My Filter", False, ("My Filter", ("My Filter",))),
        ("hint", True, ("hint", ("hint",))),
        # the legacy single-colon spelling of namespaced bind / control attributes, with and without blanks around the colons
        ("bind:jr:constraintMsg", False, ("bind", ("bind", "jr:constraintMsg"))),
        ("bind : jr:constraintMsg", False, ("bind", ("bind", "jr:constraintMsg"))),
        ("bind: jr:requiredMsg", False, ("bind", ("bind", "jr:requiredMsg"))),
        ("bind :jr: requiredMsg", False, ("bind", ("bind", "jr:requiredMsg"))),
        ("control:jr:count", False, ("control", ("control", "jr:count"))),
        ("bind:jr:constraintMsg:fr", False, ("bind", ("bind", "jr:constraintMsg", "fr"))),
        ("bind::jr:constraintMsg", True, ("bind", ("bind", "jr:constraintMsg"))),
        ("bind :: jr:constraintMsg :: fr", True, ("bind", ("bind", "jr:constraintMsg", "fr"))),
        # what follows the group word is the attribute's own name, written out as it is: camelCase names keep their capitals,
        # with or without a language after them
        ("body::accuracyThreshold", True, ("control", ("control", "accuracyThreshold"))), ("body::unacceptableAccuracyThreshold", True, ("control", ("control", "unacceptableAccuracyThreshold"))),
        ("bind::saveIncomplete", True, ("bind", ("bind", "saveIncomplete"))), ("body::bodyAttribute", True, ("control", ("control", "bodyAttribute"))),
        ("bind::jr:constraintMsg::French", True, ("bind", ("bind", "jr:constraintMsg", "French"))), ("bind::jr:requiredMsg::French (fr)", True, ("bind", ("bind", "jr:requiredMsg", "French (fr)"))),
        ("bind:jr:requiredMsg:French", False, ("bind", ("bind", "jr:requiredMsg", "French"))), ("instance::odk:customAttr", True, ("instance", ("instance", "odk:customAttr"))),
    ]
    for header, dbl, want in cases:
        it.reset([])
        try:
            got = it.call_function(ph, [], {"header": header, "use_double_colon": dbl, "header_aliases": sh, "header_columns": cols}, None, ph.node)
        except Raised as r:
            r3.fail(f"process_header[{header!r}]", f"evaluates ({r.exc_name}{r.exc_args})", ph.loc())
            continue
        r3.check(got == want, f"process_header[{header!r}, double_colon={dbl}]", f"-> {want}", ph.loc(), why_fail=repr(got))
    lcols = set(ctx.consts.get("pyxform.question", "OPTION_FIELDS", "C13.R3"))
    for header, dbl, want in (("list_name", False, ("list name", ("list name",))), ("list name", False, ("list name", ("list name",))), ("List Name", False, ("list name", ("list name",))),
                              ("value", False, ("name", ("name",))), ("caption::en", True, ("label", ("label", "en"))), ("region", False, ("region", ("region",)))):
        it.reset([])
        got = it.call_function(ph, [], {"header": header, "use_double_colon": dbl, "header_aliases": lh, "header_columns": lcols}, None, ph.node)
        r3.check(got == want, f"process_header[choices {header!r}]", f"-> {want}", ph.loc(), why_fail=repr(got))
    ts = ctx.func("pyxform.parsing.sheet_headers:to_snake_case", "C13.R3")
    for v, want in (("  List   Name ", "list_name"), ("Read Only", "read_only"), ("label", "label"), ("Form\u00a0Title", "form_title"), ("Form\tID", "form_id"), ("Instance\nName", "instance_name"),
                    ("\tRead \t Only\n", "read_only")):
        it.reset([])
        r3.check(it.call_function(ts, [v], {}, None, ts.node) == want, f"to_snake_case[{v!r}]", f"-> {want!r}", ts.loc())
    dg = ctx.func("pyxform.parsing.sheet_headers:dealias_and_group_headers", "C13.R3")
    # the delimiter is chosen per sheet: '::' for the whole sheet as soon as one header uses it, ':' otherwise (evaluated)
    sh_ = ctx.consts.get("pyxform.aliases", "survey_header", "C13.R3")
    cols_ = set(ctx.consts.get("pyxform.question", "SELECT_QUESTION_FIELDS", "C13.R3"))
    for desc, row_, want_ in (("single colons only", {"type": "text", "label:en": "L", "hint:fr": "H"}, {"type": "text", "label": {"en": "L"}, "hint": {"fr": "H"}}),
                              ("double colons only", {"type": "text", "label::en": "L", "hint::fr": "H"}, {"type": "text", "label": {"en": "L"}, "hint": {"fr": "H"}}),
                              ("one double colon decides for the sheet", {"type": "text", "label::en": "L", "hint:fr": "H"}, {"type": "text", "label": {"en": "L"}, "hint:fr": "H"}),
                              ("double colon in a later column", {"type": "text", "hint:fr": "H", "bind::relevant": "1"}, {"type": "text", "hint:fr": "H", "bind": {"relevant": "1"}}),
                              # a language is the name the author typed: names that differ by case, or by an accent, are
                              # two languages, whichever column comes first
                              ("language names differing by case", {"type": "text", "label::French": "L", "hint::french": "H"}, {"type": "text", "label": {"French": "L"}, "hint": {"french": "H"}}),
                              ("language names differing by case, other order", {"type": "text", "hint::french": "H", "label::French": "L", "label::english": "E"},
                               {"type": "text", "hint": {"french": "H"}, "label": {"French": "L", "english": "E"}}),
                              ("the same language on three columns", {"type": "text", "label::fr": "L", "hint::fr": "H", "constraint_message::fr": "M"},
                               {"type": "text", "label": {"fr": "L"}, "hint": {"fr": "H"}, "bind": {"jr:constraintMsg": {"fr": "M"}}}),
                              ("no delimiter at all", {"type": "text", "label": "L"}, {"type": "text", "label": "L"})):
        itd = ctx.interp("C13.R3", hooks={"new:DealiasAndGroupHeadersResult": lambda i, a, k, n: dict(k) if k else {"headers": a[0], "data": a[1]}})
        itd.reset([])
        try:
            res_ = itd.call_function(dg, [], {"sheet_name": "survey", "sheet_data": [dict(row_)], "sheet_header": [{k: None for k in row_}], "header_aliases": sh_, "header_columns": cols_,
                                              "headers_required": {"type"}, "default_language": "default"}, None, dg.node)
            got_ = list(res_.get("data") or ())[0] if isinstance(res_, dict) else res_
        except Raised as e:
            got_ = f"raises {e.exc_name}{e.exc_args}"
        r3.check(got_ == want_, f"dealias_and_group_headers[{desc}]", f"-> {want_}", dg.loc(), why_fail=repr(got_)[:200])
    # ... per SHEET: the choices sheet is split by its own headers, whatever the survey sheet uses (evaluated: the
    # choices block of workbook_to_json with the survey headers in the other style)
    from .c17 import eval_choices_block
    for desc, ch_rows, sv_hdr, want_label in (
            ("choices `label:en`, survey `label::en`", [{"list_name": "l", "name": "a", "label:en": "A", "label:fr": "Af"}], [{"type": None, "name": None, "label::en": None}], {"en": "A", "fr": "Af"}),
            ("choices `label::en`, survey `label:en`", [{"list_name": "l", "name": "a", "label::en": "A", "label::fr": "Af"}], [{"type": None, "name": None, "label:en": None}], {"en": "A", "fr": "Af"}),
            ("both `label::en`", [{"list_name": "l", "name": "a", "label::en": "A", "label::fr": "Af"}], [{"type": None, "name": None, "label::en": None}], {"en": "A", "fr": "Af"}),
            ("choices `label : en` (spaced single colon), survey plain", [{"list_name": "l", "name": "a", "label : en": "A"}], [{"type": None, "name": None, "label": None}], {"en": "A"})):
        got_, msg_, choices_, _w, blk_ = eval_choices_block(ctx, "C13.R3", ch_rows, survey_header=sv_hdr)
        if got_ is None:
            r3.note(f"{msg_}; per-sheet delimiter obligations skipped")
            break
        lab_ = ((choices_ or {}).get("l") or [{}])[0].get("label") if isinstance(choices_, dict) else None
        r3.check(lab_ == want_label, f"choices sheet delimiter[{desc}]", f"the choice's label is {want_label}", w2j3_loc(ctx), why_fail=f"{got_}: label {lab_!r} {msg_[:80]}")
    # blank rows shift the row numbers that messages cite - also for rows that an earlier conversion already numbered
    for desc_, ch_rows, want_row in (("blank row inserted above a row numbered earlier", [{"list_name": "l", "name": "a", "label": "A", "__row": 2}, {}, {"list_name": "l", "name": "b", "__row": 3}], 4),
                                     ("two blank rows above", [{}, {}, {"list_name": "l", "name": "b", "__row": 2}], 4)):
        got_, msg_, _c, _w, _b = eval_choices_block(ctx, "C13.R3", ch_rows)
        if got_ is None:
            break
        r3.check(got_ == "warning" and f"[row : {want_row}]" in msg_, f"choices sheet row numbers[{desc_}]", f"the unlabeled choice is cited as row {want_row}", w2j3_loc(ctx), why_fail=f"{got_}: {msg_[:120]}")
    # type aliases are resolved on the *dealiased* survey rows: the `type` column is only called `type` after the
    # header pass (a sheet may spell it Type / command), so the alias pass must come after it
    w2j3 = ctx.func("pyxform.xls2json:workbook_to_json", "C13.R3")
    g3 = cfgmod.build(w2j3.node.body)
    dom3 = g3.dominators(skip_labels=frozenset({"exc"}))
    hdr = [nid for nid, n in g3.nodes.items() for c in cfgmod.calls_in(n.stmt) if call_name(c) == "dealias_and_group_headers"
           and kw(c, "sheet_name") is not None and const_str(ctx, w2j3.module, kw(c, "sheet_name")) == (True, "survey")]
    typ = [nid for nid, n in g3.nodes.items() for c in cfgmod.calls_in(n.stmt) if call_name(c) == "dealias_types"]
    r3.check(len(hdr) == 1 and len(typ) == 1 and hdr[0] in dom3.get(typ[0], ()), "workbook_to_json:dealias order",
             "the survey header pass dominates the type-alias pass", w2j3.loc())
    rules.append(r3)

    # ------------------------------------------------------------------ R4
    r4 = Rule("C13", "C13.R4", "text cleaning: smart quotes, whitespace collapsing, applied to every cleaned sheet", floor=8,
              necessary="a sheet not cleaned (or cleaned differently) treats a documented equivalent spelling as different text")
    sq = ctx.consts.get("pyxform.xls2json", "SMART_QUOTES", "C13.R4")
    r4.check(sq == {"‘": "'", "’": "'", "“": '"', "”": '"'}, "SMART_QUOTES", "the four smart quotes map to their ASCII quotes", "pyxform/xls2json.py", why_fail=repr(sq))
    ctv = ctx.func("pyxform.xls2json:clean_text_values", "C13.R4")
    it = ctx.interp("C13.R4", hooks={"fnname:validate_pyxform_reference_syntax": lambda i, a, k, n: None})
    it.reset([])
    data = [{"label": "  a   b  ‘q’ ", "n": 5}, {}]
    out = it.call_function(ctv, [], {"sheet_name": "survey", "data": data, "strip_whitespace": True, "add_row_number": True}, None, ctv.node)
    r4.check(out[0]["label"] == "a b 'q'" and out[0]["n"] == 5 and out[0]["__row"] == 2 and out[1] == {"__row": 3}, "clean_text_values[strip]",
             "strips, collapses inner spaces, straightens quotes, leaves non-text alone, numbers rows from 2 (blank rows counted)", ctv.loc(), why_fail=repr(out))
    it.reset([])
    out = it.call_function(ctv, [], {"sheet_name": "choices", "data": [{"label": " a  “b” "}]}, None, ctv.node)
    r4.check(out[0]["label"] == ' a  "b" ', "clean_text_values[no strip]", "without strip_whitespace only quotes are straightened", ctv.loc(), why_fail=repr(out))
    w2j = ctx.func("pyxform.xls2json:workbook_to_json", "C13.R4")
    cleaned = {}
    for c in walk_own(w2j.node):
        if isinstance(c, ast.Call) and call_name(c) == "clean_text_values":
            okc, sn = const_str(ctx, w2j.module, kw(c, "sheet_name"))
            cleaned[sn] = c
    for sheet in ("survey", "choices", "settings", "external_choices", "entities"):
        r4.check(sheet in cleaned, f"clean_text_values({sheet})", "the sheet's text is cleaned (and its reference syntax checked)", w2j.loc())
    sc = cleaned.get("survey")
    r4.check(sc is not None and const_str(ctx, w2j.module, kw(sc, "strip_whitespace")) == (True, True), "clean_text_values(survey):strip", "survey cells are stripped and inner whitespace collapsed", w2j.loc())
    dt = ctx.func("pyxform.xls2json:dealias_types", "C13.R4")
    it = ctx.interp("C13.R4")
    it.reset([])
    out = it.call_function(dt, [[{"type": "image"}, {"type": "text"}, {}]], {}, None, dt.node)
    r4.check(out == [{"type": "photo"}, {"type": "text"}, {}], "dealias_types", "type aliases are replaced, other rows untouched", dt.loc(), why_fail=repr(out))
    # every reader trims its cells (with clean_text_values = no nothing downstream trims again): the Excel readers' per-cell
    # cleaners, shared with C12.R2
    from . import c12 as _c12
    from .c08 import _take as _take13
    _take13(r4, ctx.other(_c12), "C12.R2", lambda c: c.startswith("xlsx_clean_cell[") or c.startswith("xls_clean_cell[") or c.startswith("csv_to_dict:strips") or c.startswith("md_to_dict:strips"))
    rules.append(r4)
    rules.append(cell_cleaning_rule(ctx, "C13", "C13.R6"))
    rules.append(column_order_rule(ctx, "C13", "C13.R7"))

    # ------------------------------------------------------------------ R5
    r5 = Rule("C13", "C13.R5", "blank rows keep numbering: rows are numbered by sheet position and blank rows are skipped, not removed", floor=4,
              necessary="numbering over filtered rows shifts every later message and generated helper name")
    loop = _row_loop(w2j)
    r5.check(const_str(ctx, w2j.module, kw(loop.iter, "start")) == (True, 2) and norm(loop.iter.args[0]) == "survey_sheet.data", "row loop:enumerate", "rows are enumerated from 2 over the sheet's rows", w2j.loc(loop))
    skip = [x for x in loop.body if isinstance(x, ast.If) and norm(x.test) == "not row" and isinstance(x.body[0], ast.Continue)]
    r5.check(len(skip) == 1, "row loop:blank rows", "an empty row is skipped inside the loop (so it still consumes a row number)", w2j.loc(loop))
    filt = [x for x in walk_own(w2j.node) if isinstance(x, ast.Assign) and "survey_sheet" in norm(x.targets[0]) and isinstance(x.value, ast.ListComp | ast.Call) and "filter" in norm(x.value)]
    r5.check(not filt, "workbook_to_json:no row filtering", "the survey rows are not filtered before the loop", w2j.loc())
    pr = ctx.func("pyxform.parsing.sheet_headers:dealias_and_group_headers", "C13.R5")
    gen = [x for x in walk_own(pr.node) if isinstance(x, ast.GeneratorExp) and "process_row" in norm(x.elt)]
    r5.check(len(gen) == 1 and not gen[0].generators[0].ifs and norm(gen[0].generators[0].iter) == "sheet_data", "dealias_and_group_headers:rows", "every row (blank ones included) is carried over, in order", pr.loc())
    rules.append(r5)
    from .c20 import warning_census_rule
    rules.append(warning_census_rule(ctx, "C13", "C13.R8"))
    return rules


def w2j3_loc(ctx):
    return ctx.func("pyxform.xls2json:workbook_to_json", "C13.R3").loc()
