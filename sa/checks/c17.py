"""C17 — broken forms are rejected with a located diagnosis; nothing ever crashes (structural clauses)."""

from __future__ import annotations

import ast

from .. import cfg as cfgmod
from ..astutil import call_name, const_str, early_exit_guards, guard_texts, guards_of, kw, message_skeleton, star_kwargs
from ..dataflow import ReachingDefs
from ..callgraph import CallGraph
from ..loader import AnalysisError, ancestors, norm, parent, walk_own
from ..interp import Raised
from ..prov import Prov, xml_sites
from ..report import Rule
from .c19 import _row_loop

EXPLANATION = (
    "Raise-type census over everything reachable from convert(): every raise must be a PyXFormError subclass, a bare "
    "re-raise, or a reasoned exception; row-citation dataflow: every PyXFormError raised in the row loop (or in a "
    "helper called from it) must build its message from the loop's row number (the property's own wording, not a "
    "majority vote, is the oracle; each deviation is listed individually); must-call of the validators on the "
    "conversion path; guard analysis for a frozen list of implicit-exception shapes: author-keyed dict subscripts "
    "without a dominating membership test (K1), iteration over a possibly-None slot that other sites guard (K2), "
    "%-formatting with an author-controlled format string (K4), explicit keyword + **author-keyed dict in one call "
    "(K8)."
)
NOT_DECIDED = ("absence of ALL internal exceptions is undecidable in general; only the enumerated shapes K1, K2, K4, K8 and the raise-type "
               "discipline are decided. That each catalogued error fires for every placement is value-level.")
ASSUMPTIONS = ["guard recognition is an enumerated idiom list (membership test, negative test + raise/continue, truthy .get(), enclosing try/except)",
               "call resolution by name (class-hierarchy analysis)"]

VALIDATOR_PATH_MODULES = ("pyxform.validators.odk_validate", "pyxform.validators.enketo_validate", "pyxform.validators.util", "pyxform.validators.updater",
                          "pyxform.validators.error_cleaner")


def _depends_on(fn_node, expr, names: set[str], scope=None) -> bool:
    """expr depends (through local assignments in scope) on one of names."""
    scope = scope if scope is not None else fn_node
    seen, todo = set(), {n.id for n in ast.walk(expr) if isinstance(n, ast.Name)}
    while todo:
        n = todo.pop()
        if n in names:
            return True
        if n in seen:
            continue
        seen.add(n)
        for x in walk_own(fn_node):
            if isinstance(x, ast.Assign) and any(isinstance(t, ast.Name) and t.id == n for t in x.targets):
                todo |= {y.id for y in ast.walk(x.value) if isinstance(y, ast.Name)}
            if isinstance(x, ast.AugAssign) and isinstance(x.target, ast.Name) and x.target.id == n:
                todo |= {y.id for y in ast.walk(x.value) if isinstance(y, ast.Name)}
    return False


def stmt_of_(node):
    """Innermost statement containing `node`."""
    cur = node
    while cur is not None and not isinstance(cur, ast.stmt):
        cur = parent(cur)
    return cur


def run(ctx):
    repo = ctx.repo
    it0 = ctx.consts.interp
    rules = []
    prov = Prov(ctx)
    cg = CallGraph(repo, it0)
    reach = cg.reachable(["pyxform.xls2xform:convert"])

    # ------------------------------------------------------------------ R1
    r1 = Rule("C17", "C17.R1", "only the library's own error type is raised on the conversion path", floor=60,
              necessary="a ValueError/KeyError raised deliberately reaches the caller as an internal exception")
    n_raise = 0
    for fi in repo.all_functions():
        if fi.fq not in reach:
            continue
        for x in walk_own(fi.node):
            if not isinstance(x, ast.Raise):
                continue
            n_raise += 1
            key = f"{fi.fq}:{norm(x)[:60]}"
            if x.exc is None:
                r1.ok(key, "bare re-raise inside a handler", fi.loc(x))
                continue
            exc = x.exc.func if isinstance(x.exc, ast.Call) else x.exc
            r = repo.resolve_dotted(fi.module, exc)
            if r and r[0] == "class" and any(c.name == "PyXFormError" for c in it0.mro(r[1])):
                r1.ok(key, f"raises {r[1].name} (a PyXFormError)", fi.loc(x))
            elif fi.module.name.startswith(VALIDATOR_PATH_MODULES):
                r1.ok(key, "external-validator path (validate=True / CLI): OSError / ODKValidateError are C18's subject", fi.loc(x))
            elif norm(exc) == "NotImplementedError" and fi.name == "xml_control":
                r1.ok(key, "abstract xml_control of a class that is never asked for a body control (C02.R2 class table)", fi.loc(x))
            elif fi.module.name == "pyxform.util.enum":
                r1.ok(key, "enum construction at import time, not on the conversion path", fi.loc(x))
            else:
                r1.fail(key, f"raises {norm(exc)} which is not a PyXFormError", fi.loc(x))
    ctx.count("raise_sites_on_path", n_raise)
    # handlers that convert exceptions must convert into the library type
    for fi in repo.all_functions():
        if fi.fq not in reach or fi.module.name.startswith(VALIDATOR_PATH_MODULES):
            continue
        for x in walk_own(fi.node):
            if isinstance(x, ast.ExceptHandler):
                raises = [n for n in ast.walk(x) if isinstance(n, ast.Raise) and n.exc is not None]
                for rz in raises:
                    exc = rz.exc.func if isinstance(rz.exc, ast.Call) else rz.exc
                    r = repo.resolve_dotted(fi.module, exc)
                    okk = bool(r and r[0] == "class" and any(c.name == "PyXFormError" for c in it0.mro(r[1])))
                    r1.check(okk, f"{fi.fq}:except {norm(x.type) if x.type else ''} -> {norm(exc)}", "a handler converts into a PyXFormError", fi.loc(rz))
    rules.append(r1)

    # ------------------------------------------------------------------ R2
    r2 = Rule("C17", "C17.R2", "errors that belong to a row cite the row", floor=30,
              necessary="an error about one row of a 500-row sheet without its row number does not locate the problem")
    w2j = ctx.func("pyxform.xls2json:workbook_to_json", "C17.R2")
    loop = _row_loop(w2j)
    sheet_level = ("There should be a choices sheet", "There should be an external_choices sheet",
                   "Please ensure that the external_choices sheet has columns", "Please ensure that the choices sheet has the mandatory columns")
    # flow-sensitive: the definitions of the message that REACH the raise decide (a temporary called `msg` is reused
    # all over the loop); the finding is keyed by the literal skeleton of the message, not by how it is assembled
    lg = cfgmod.build(loop.body)
    rd = ReachingDefs(lg, skip_labels=frozenset({"exc"}))
    rownum = {n for n in _loop_targets(loop)[:1]} or {"row_number"}
    for nid, nd in lg.nodes.items():
        x = nd.stmt
        if nd.kind != "stmt" or not isinstance(x, ast.Raise) or x.exc is None:
            continue
        msg = x.exc.args[0] if isinstance(x.exc, ast.Call) and x.exc.args else x.exc
        resolved = rd.resolve(nid, msg)
        skel = message_skeleton(ctx, w2j.module, resolved)
        key = f"workbook_to_json:raise:{skel[:90]}"
        if any(s in skel for s in sheet_level):
            r2.ok(key, "accepted: the error is about a missing sheet, not about this row", w2j.loc(x))
            continue
        r2.check(rd.depends_on(nid, x.exc, rownum), key, "the message is built from the loop's row number", w2j.loc(x),
                 why_fail="message does not depend on the row number")
    # helpers called from the loop that raise PyXFormError must receive the row number
    helper_calls = {}
    for c in walk_own(loop):
        if isinstance(c, ast.Call):
            r = repo.resolve_dotted(w2j.module, c.func)
            if r and r[0] == "func" and r[1].fq in reach:
                helper_calls.setdefault(r[1].fq, []).append(c)
    for fq, calls in sorted(helper_calls.items()):
        fn = repo.func(fq)
        raises = [x for x in walk_own(fn.node) if isinstance(x, ast.Raise) and x.exc is not None]
        if not raises:
            continue
        params = [a.arg for a in fn.node.args.args]
        row_params = {p for p in params if "row_num" in p or p == "row_number"}
        for c in calls:
            passes = any(_depends_on(w2j.node, a, {"row_number"}) for a in [*c.args, *[k.value for k in c.keywords]])
            key = f"workbook_to_json -> {fn.qualname}({', '.join(k.arg for k in c.keywords if k.arg)[:40]})"
            if not row_params or not passes:
                r2.fail(key, "a helper that can raise a row-level error receives the row number", w2j.loc(c),
                        why_fail=f"{fn.qualname} raises PyXFormError but {'has no row parameter' if not row_params else 'is not given row_number'}")
                continue
            bad = [x for x in raises if not _depends_on(fn.node, x.exc, row_params) and not _is_non_row_error(x)]
            r2.check(not bad, key, "every error of the helper is built from the row number it receives", w2j.loc(c),
                     why_fail=f"{[norm(b.exc)[:50] for b in bad]}")
    # choices validator cites __row
    # (decided by evaluation, not by the spelling of the key: choice_list_obligations / the choices block of C17.R6 require
    # "[row : n]" in every error and warning of the validator, for every list of up to 3 choices)
    from .c20 import choice_list_obligations as _clo
    _clo(ctx, r2, "C17.R2")
    vps = ctx.func("pyxform.validators.pyxform.pyxform_reference:validate_pyxform_reference_syntax", "C17.R2")
    for x in walk_own(vps.node):
        if isinstance(x, ast.Raise) and x.exc is not None:
            r2.check(_depends_on(vps.node, x.exc, {"row_number"}), f"validate_pyxform_reference_syntax:{norm(x.exc)[:40]}", "malformed-reference errors cite sheet, row and column", vps.loc(x))
    rules.append(r2)

    # ------------------------------------------------------------------ R3
    r3 = Rule("C17", "C17.R3", "validators are on the conversion path", floor=8,
              necessary="a validator that is not called lets the broken form through to XML generation")
    g = cfgmod.build(w2j.node.body)
    rets = [nid for nid, n in g.nodes.items() if isinstance(n.stmt, ast.Return)]
    def on_all_paths(name):
        nodes = g.nodes_for(lambda n: any(call_name(c) == name for c in cfgmod.calls_in(n.stmt)))
        return bool(nodes) and all(g.must_pass(g.entry, r, set(nodes), skip_labels=frozenset({"exc"})) for r in rets)
    r3.check(on_all_paths("validate_references"), "workbook_to_json:validate_references", "trigger references are checked on every successful path", w2j.loc())
    r3.check(on_all_paths("dealias_and_group_headers"), "workbook_to_json:survey headers", "survey headers are dealiased / required headers checked on every successful path", w2j.loc())
    for name, guard in (("validate_and_clean_choices", "choices_sheet"), ("get_entity_declaration", "workbook_dict.entities")):
        calls = [c for c in walk_own(w2j.node) if isinstance(c, ast.Call) and call_name(c) == name]
        r3.check(len(calls) == 1 and guard_texts(calls[0], stop=w2j.node) == [guard], f"workbook_to_json:{name}", f"is called whenever the sheet is present (guard `{guard}` only)", w2j.loc())
    req = {}
    for c in walk_own(w2j.node):
        if isinstance(c, ast.Call) and call_name(c) == "dealias_and_group_headers" and kw(c, "headers_required") is not None:
            okc, sn = const_str(ctx, w2j.module, kw(c, "sheet_name"))
            okh, hv = const_str(ctx, w2j.module, kw(c, "headers_required"))
            req[sn] = hv if okh else None
    r3.check(req.get("survey") == {"type"} and req.get("choices") == {"name"}, "required headers", "survey requires 'type', choices requires 'name'", w2j.loc(), why_fail=repr(req))
    first = w2j.node.body
    surv = [x for x in first if isinstance(x, ast.If) and "workbook_dict.survey" in norm(x.test) and any(isinstance(s, ast.Raise) for s in x.body)]
    r3.check(len(surv) == 1, "workbook_to_json:missing survey sheet", "a workbook without a survey sheet is rejected up front", w2j.loc())
    qinit = ctx.func("pyxform.question:Question.__init__", "C17.R3")
    unk = [x for x in walk_own(qinit.node) if isinstance(x, ast.Raise) and "Unknown question type" in norm(x)]
    r3.check(len(unk) == 1 and guard_texts(unk[0], stop=qinit.node) == ["type_arg not in qtd"], "Question.__init__:unknown type", "an unknown question type is rejected when the element is built", qinit.loc())
    conv = ctx.func("pyxform.xls2xform:convert", "C17.R3")
    order = [call_name(c) for c in sorted((c for c in walk_own(conv.node) if isinstance(c, ast.Call) and call_name(c) in ("get_xlsform", "workbook_to_json", "create_survey_element_from_dict", "to_xml")), key=lambda c: c.lineno)]
    r3.check(order == ["get_xlsform", "workbook_to_json", "create_survey_element_from_dict", "to_xml"], "convert:pipeline", "read -> JSON (row validation) -> build -> generate (tree validation)", conv.loc(), why_fail=repr(order))
    rules.append(r3)
    # the set against which `trigger` references are validated holds QUESTION names only: the statement that records
    # a name is not on any path that goes on to open a group / repeat frame (a trigger naming a section has no control
    # to nest the action in, so it must keep being refused)
    adds = [nid for nid, n in lg.nodes.items() for c in cfgmod.calls_in(n.stmt) if call_name(c) == "add" and isinstance(c.func, ast.Attribute) and norm(c.func.value) == "question_names"]
    pushes_ = [nid for nid, n in lg.nodes.items() for c in cfgmod.calls_in(n.stmt) if norm(c.func) == "stack.append"]
    r3.check(len(adds) == 1 and len(pushes_) == 1 and pushes_[0] not in lg.reachable(adds[0], skip_labels=frozenset({"exc"})), "workbook_to_json:question_names",
             "names recorded for the trigger check are those of question rows only (never of a row that opens a group or repeat)", w2j.loc(loop))
    from .c03 import sticky_sentinel
    sticky_sentinel(ctx, r3, "C17.R3")
    from .c01 import name_validator_rule
    rules.append(name_validator_rule(ctx, "C17", "C17.R5"))

    # ------------------------------------------------------------------ R4
    r4 = Rule("C17", "C17.R4", "implicit-exception shapes K1 / K2 / K4 / K8 are guarded", floor=15,
              necessary="an unguarded subscript / None iteration / author-controlled format string / duplicate keyword raises KeyError or TypeError instead of PyXFormError")
    # K1: author-keyed dict subscripts
    author_dicts = {"choices", "external_choices", "osm_tags"}
    for fn in (w2j, ctx.func("pyxform.xls2json:add_choices_info_to_question", "C17.R4")):
        gg = cfgmod.build(fn.node.body if fn is not w2j else loop.body)
        scope = fn.node if fn is not w2j else loop
        for nid, n in gg.nodes.items():
            for e in cfgmod.own_exprs(n.stmt):
                if isinstance(e, ast.Subscript) and isinstance(e.ctx, ast.Load) and isinstance(e.value, ast.Name) and e.value.id in author_dicts and isinstance(e.slice, ast.Name):
                    d, k = e.value.id, e.slice.id
                    ok = _membership_guarded(gg, nid, d, k) or _in_try_keyerror(e)
                    r4.check(ok, f"K1 {fn.qualname}:{norm(e)} @ {norm(n.stmt)[:40]}", f"`{d}[{k}]` is dominated by a membership test of {k} in {d}", fn.loc(e),
                             why_fail="no dominating `in` test, truthy .get(), or KeyError handler")
    # K1b (sibling agreement): the row loop refuses a select whose list is missing from the choices sheet UNLESS one of
    # a few exemptions holds; add_choices_info_to_question later indexes choices[list_name] UNLESS its own skip
    # conditions hold.  Every exemption must have its counterpart among the skip conditions, else the exempted form
    # reaches the subscript (KeyError).
    def _atoms(test, positive=True):
        """conjuncts of a guard as (positive-form text) of the atoms that are negated there"""
        out = []
        if isinstance(test, ast.BoolOp) and isinstance(test.op, ast.And):
            for v in test.values:
                out += _atoms(v)
        elif isinstance(test, ast.UnaryOp) and isinstance(test.op, ast.Not):
            out.append(_strip_bool(test.operand))
        elif isinstance(test, ast.Compare) and len(test.ops) == 1 and isinstance(test.ops[0], ast.NotIn):
            out.append(f"{norm(test.left)} in {norm(test.comparators[0])}")
        elif isinstance(test, ast.Compare) and len(test.ops) == 1 and isinstance(test.ops[0], ast.NotEq):
            out.append(f"{norm(test.left)} == {norm(test.comparators[0])}")
        elif isinstance(test, ast.Compare) and len(test.ops) == 1 and isinstance(test.ops[0], ast.Is) \
                and isinstance(test.comparators[0], ast.Constant) and test.comparators[0].value is None:
            out.append(_strip_bool(test.left))  # `m is None` for a match object == `not m`
        return out

    def _strip_bool(e):
        while isinstance(e, ast.Call) and call_name(e) == "bool" and len(e.args) == 1:
            e = e.args[0]
        return norm(e)

    def _skip_atoms(test):
        out = list(_atoms(test))  # De Morgan form: a conjunction of negated atoms
        if isinstance(test, ast.UnaryOp) and isinstance(test.op, ast.Not):
            inner = test.operand
            vals = inner.values if isinstance(inner, ast.BoolOp) and isinstance(inner.op, ast.Or) else [inner]
            out += [_strip_bool(v) for v in vals]
        return out

    raise_if = None
    for nid, nd in lg.nodes.items():
        x = nd.stmt
        if nd.kind == "stmt" and isinstance(x, ast.Raise) and x.exc is not None:
            msg = x.exc.args[0] if isinstance(x.exc, ast.Call) and x.exc.args else x.exc
            if "List name not in choices sheet" in message_skeleton(ctx, w2j.module, rd.resolve(nid, msg)):
                gs = [t for t, pol in guards_of(x, stop=loop) if pol and "not in choices" in norm(t).replace("external_choices", "")]
                raise_if = gs[-1] if gs else None
    aci = ctx.func("pyxform.xls2json:add_choices_info_to_question", "C17.R4")
    skips = set()
    for x in walk_own(aci.node):
        if isinstance(x, ast.If):
            skips.update(_skip_atoms(x.test))
            for sub in ast.walk(x):
                if isinstance(sub, ast.If):
                    skips.update(_skip_atoms(sub.test))
    if raise_if is None:
        r4.fail("K1b missing-list error", "the row loop raises a located error when a select's list is not on the choices sheet", w2j.loc(loop))
    else:
        for atom in _atoms(raise_if):
            if atom.endswith(" in choices") or atom == "choices":
                continue  # the membership test itself
            r4.check(atom in skips, f"K1b exemption `{atom}`", "a form exempted from the missing-list error is also skipped where choices[list_name] is read",
                     w2j.loc(raise_if), why_fail=f"add_choices_info_to_question skips only under {sorted(skips)}")
    # K9: index arithmetic (`seq[i + 1]`, `seq[i - 1]`) on the conversion path needs a length argument; the sites of
    # the tree this rule was written against were read one by one (accepted table, one reason each); a new site
    # without a recognisable guard is reported
    K9_ACCEPTED = {
        ("levenshtein_distance", "v0[j + 1]"): "v0 has n + 1 cells and j ranges over range(n)",
        ("ErrorCleaner._cleanup_errors", "lines[i - 1]"): "guarded by `i == 0 or ...` / only evaluated for i >= 1; validator path",
    }
    for fi in repo.all_functions():
        if fi.fq not in reach:
            continue
        for x in walk_own(fi.node):
            if isinstance(x, ast.Subscript) and isinstance(x.ctx, ast.Load) and isinstance(x.slice, ast.BinOp) and isinstance(x.slice.op, ast.Add | ast.Sub) \
                    and isinstance(x.slice.right, ast.Constant) and isinstance(x.slice.right.value, int):
                key = (fi.qualname, norm(x))
                base = norm(x.value)
                gts = guard_texts(x, stop=fi.node)
                # recognised guards: a slice test `"k" in seq[:-1]` / a len() comparison on the same sequence / an IndexError handler
                guarded = any((f"{base}[:-1]" in g and not g.startswith("not ")) or f"len({base})" in g for g in gts) or _in_try(x, ("IndexError", "LookupError", "Exception"))
                if key in K9_ACCEPTED:
                    r4.ok(f"K9 {fi.qualname}:{norm(x)}", f"accepted: {K9_ACCEPTED[key]}", fi.loc(x))
                else:
                    r4.check(guarded, f"K9 {fi.qualname}:{norm(x)}", "index arithmetic is guarded by a length / membership-in-prefix test or an IndexError handler", fi.loc(x),
                             why_fail=f"guards: {gts}")
    # K6: unpacking the pieces of `text.split(sep)` into a fixed number of names needs the separator to be there:
    # a dominating `sep in text` test (or its negation leading to a raise / continue), or a ValueError handler
    for fi in repo.all_functions():
        if fi.fq not in reach:
            continue
        gk = None
        for x in walk_own(fi.node):
            if not (isinstance(x, ast.Assign) and len(x.targets) == 1 and isinstance(x.targets[0], ast.Tuple) and len(x.targets[0].elts) >= 2):
                continue
            v = x.value
            while isinstance(v, ast.Subscript):
                v = v.value
            if not (isinstance(v, ast.Call) and call_name(v) in ("split", "rsplit") and isinstance(v.func, ast.Attribute) and v.args):
                continue
            okc, sep = const_str(ctx, fi.module, v.args[0])
            recv = norm(v.func.value)
            if not okc or not isinstance(sep, str):
                continue
            if gk is None:
                gk = cfgmod.build(fi.node.body)
            nids = [nid for nid, n in gk.nodes.items() if n.stmt is x]
            guarded = bool(nids) and all(_membership_guarded(gk, nid, recv, repr(sep)) for nid in nids)
            guarded = guarded or _in_try(x, ("ValueError", "Exception"))
            # maxsplit that guarantees the count (`split(sep, 1)` into two names after a membership test is the idiom)
            r4.check(guarded, f"K6 {fi.qualname}:{norm(x)[:60]}", f"unpacking {recv}.split({sep!r}) is dominated by a test that {sep!r} occurs in {recv} (or a ValueError handler)", fi.loc(x),
                     why_fail="no dominating membership test: a piece without the separator raises ValueError (not enough values to unpack)")
    # K10: zip(..., strict=True) over sheet rows / headers raises ValueError on ragged input (a short or long CSV row)
    n_zip = 0
    for fi in repo.all_functions():
        if fi.fq not in reach:
            continue
        for x in walk_own(fi.node):
            if isinstance(x, ast.Call) and isinstance(x.func, ast.Name) and x.func.id == "zip":
                n_zip += 1
                st = kw(x, "strict")
                okc, v = const_str(ctx, fi.module, st) if st is not None else (True, False)
                if okc and not v:
                    continue
                r4.check(_in_try(x, ("ValueError", "Exception")), f"K10 {fi.qualname}:{norm(x)[:60]}", "a strict zip over sheet data is inside a ValueError handler", fi.loc(x),
                         why_fail="rows of unequal length raise ValueError out of convert()")
    r4.ok("K10 zip census", f"{n_zip} zip() calls on the conversion path examined", "")
    # K11: inside one comprehension, a subscript d[k] evaluated BEFORE the filter that tests d.get(k) / k in d for the same
    # d and k (the filter states the belief that k may be absent or of another type; the subscript contradicts it)
    n_k11 = 0
    for fi in repo.all_functions():
        if fi.fq not in reach:
            continue
        for comp in walk_own(fi.node):
            if not isinstance(comp, ast.ListComp | ast.SetComp | ast.DictComp | ast.GeneratorExp):
                continue
            seen_subs = []   # (text of d, text of k, node) in evaluation order
            for g in comp.generators:
                for x in ast.walk(g.iter):
                    if isinstance(x, ast.Subscript) and isinstance(x.ctx, ast.Load):
                        seen_subs.append((norm(x.value), norm(x.slice), x))
                for cond in g.ifs:
                    for t in ast.walk(cond):
                        belief = None
                        if isinstance(t, ast.Call) and isinstance(t.func, ast.Attribute) and t.func.attr == "get" and t.args:
                            belief = (norm(t.func.value), norm(t.args[0]))
                        elif isinstance(t, ast.Compare) and len(t.ops) == 1 and isinstance(t.ops[0], ast.In | ast.NotIn):
                            belief = (norm(t.comparators[0]), norm(t.left))
                        if belief is None:
                            continue
                        n_k11 += 1
                        bad = [sx for (d, k, sx) in seen_subs if (d, k) == belief]
                        r4.check(not bad, f"K11 {fi.qualname}:{belief[0]}[{belief[1]}] before its filter", "a comprehension does not subscript a key before the filter that tests for it",
                                 fi.loc(bad[0] if bad else cond), why_fail=f"`{belief[0]}[{belief[1]}]` is evaluated for every element, the filter `{norm(cond)[:60]}` only afterwards: a row without the key raises KeyError")
    r4.ok("K11 census", f"{n_k11} key-presence filters inside comprehensions examined", "")
    # K12: sibling traversals must agree on which children have an instance node: every loop over `self.children` that
    # calls `<child>.xml_instance(...)` on each child must first skip the classes that do not define it
    # (ExternalInstance rows sit in children lists but only declare a secondary instance)
    ext_cls = repo.cls("pyxform.external_instance:ExternalInstance")
    lacks = "xml_instance" not in {mname for c in it0.mro(ext_cls) for mname in c.methods}
    n_k12 = 0
    for fi in repo.all_functions():
        if fi.fq not in reach:
            continue
        for loop_ in walk_own(fi.node):
            if not (isinstance(loop_, ast.For) and norm(loop_.iter) == "self.children" and isinstance(loop_.target, ast.Name)):
                continue
            var = loop_.target.id
            calls_xi = [c for c in ast.walk(loop_) if isinstance(c, ast.Call) and isinstance(c.func, ast.Attribute) and c.func.attr == "xml_instance"
                        and isinstance(c.func.value, ast.Name) and c.func.value.id == var]
            if not calls_xi:
                continue
            n_k12 += 1
            for c in calls_xi:
                gts = guard_texts(c, stop=loop_)
                exits = {norm(t) for t, _p in early_exit_guards(stmt_of_(c), stop=loop_)}
                skipped = any("ExternalInstance" in t and t.startswith("not ") for t in gts) or any("ExternalInstance" in t for t in exits)
                r4.check(skipped or not lacks, f"K12 {fi.qualname}:{var}.xml_instance()", "children without an instance node (ExternalInstance) are skipped before xml_instance() is called on them", fi.loc(c),
                         why_fail="an xml-external / csv-external row in this section raises AttributeError: 'ExternalInstance' object has no attribute 'xml_instance'")
    r4.check(n_k12 >= 2, "K12 census", f"{n_k12} traversals of self.children that build instance nodes examined", "pyxform/section.py")
    # K13: a call result unpacked into several names must be iterable (a package class without __iter__ is not)
    from ..unpack import unpack_obligations
    n_k13 = unpack_obligations(ctx, r4, "C17.R4", label="K13")
    ctx.count("K13_unpack_sites", n_k13)
    # K16: an author-keyed dict (a row of the form definition: any column header may be a key) splatted into a call
    # NEXT TO explicit keywords: a column with the keyword's name makes Python raise TypeError ("multiple values for
    # keyword argument").  Safe forms: the explicit value is merged INTO the dict ({**d, key: value}), or the dict is
    # rebuilt with a filter that excludes exactly the explicit names.
    n_k16 = 0
    for fi in repo.all_functions():
        if fi.fq not in reach or not fi.module.name.startswith(("pyxform.builder", "pyxform.question", "pyxform.section", "pyxform.survey")):
            continue
        for c in walk_own(fi.node):
            if not isinstance(c, ast.Call):
                continue
            stars = [k_ for k_ in c.keywords if k_.arg is None]
            named = [k_.arg for k_ in c.keywords if k_.arg is not None]
            if not stars or not named:
                continue
            res_c = repo.resolve_dotted(fi.module, c.func) if isinstance(c.func, ast.Name | ast.Attribute) else None
            is_ctor = (res_c is not None and res_c[0] == "class") or (isinstance(c.func, ast.Name) and c.func.id.endswith("_class"))
            if not is_ctor:
                continue
            for st_ in stars:
                v_ = st_.value
                if isinstance(v_, ast.Dict):
                    continue  # a display: later explicit keys win inside it, and a keyword next to it is the author's choice of literal keys
                excluded = set()
                if isinstance(v_, ast.DictComp):
                    for g_ in v_.generators:
                        for if_ in g_.ifs:
                            if isinstance(if_, ast.Compare) and len(if_.ops) == 1 and isinstance(if_.ops[0], ast.NotIn):
                                okx, vx = const_str(ctx, fi.module, if_.comparators[0])
                                if okx and isinstance(vx, set | frozenset | tuple | list):
                                    excluded |= set(vx)
                n_k16 += 1
                clash = [nm for nm in named if nm not in excluded]
                r4.check(not clash, f"K16 {fi.qualname}:{call_name(c)}({', '.join(nm + '=' for nm in named)}, **{norm(v_)[:24]})",
                         "a definition dict is not splatted next to a keyword that one of its (author-chosen) keys can equal", fi.loc(c),
                         why_fail=f"a column / key named {clash} in the definition raises TypeError: got multiple values for keyword argument")
    ctx.count("K16_splat_sites", n_k16)
    # K15: decoding bytes that came from outside (a file, a stream) can fail; the failure must be caught where the
    # reader's other failures are caught (UnicodeDecodeError is a ValueError, not one of the library's errors)
    n_k15 = 0
    for fi in repo.all_functions():
        if fi.fq not in reach:
            continue
        for c in walk_own(fi.node):
            if not (isinstance(c, ast.Call) and isinstance(c.func, ast.Attribute) and c.func.attr == "decode"):
                continue
            if any(k_.arg == "errors" and isinstance(k_.value, ast.Constant) and k_.value.value in ("replace", "ignore", "backslashreplace") for k_ in c.keywords):
                continue
            n_k15 += 1
            legacy = any("isinstance(" in t and "bytes" in t and norm(c.func.value) in t for t in guard_texts(c, stop=fi.node))
            if legacy:
                r4.ok(f"K15 {fi.qualname}:{norm(c)[:40]}", "legacy `isinstance(x, bytes)` branch on a value that is cell text (str) for every reader", fi.loc(c))
                continue
            r4.check(_in_try(c, ("UnicodeDecodeError", "UnicodeError", "ValueError", "Exception")), f"K15 {fi.qualname}:{norm(c)[:40]}", "a decoding failure is caught (and turned into the reader's own error)", fi.loc(c),
                     why_fail="bytes that are not valid in this encoding raise UnicodeDecodeError, which no handler here catches: the caller sees an internal exception instead of the library's error")
    ctx.count("K15_decode_sites", n_k15)
    # K2: iteration over a possibly-None slot that another site guards
    guarded, unguarded = [], []
    for fi in repo.all_functions():
        if fi.fq not in reach:
            continue
        owner = fi
        while owner.cls is None and owner.parent is not None:
            owner = owner.parent
        if owner.cls is None or not any(c.name == "Section" for c in it0.mro(owner.cls)):
            continue
        for x in walk_own(fi.node):
            it = x.iter if isinstance(x, ast.For | ast.comprehension) else None
            if it is not None and norm(it) == "self.children":
                gts = guard_texts(x if isinstance(x, ast.For) else parent(x), stop=fi.node)
                (guarded if any(t in ("self.children", "self.children is not None") for t in gts) else unguarded).append((fi, x))
    init_none = any(isinstance(x, ast.AnnAssign | ast.Assign) and "self.children" in norm(getattr(x, "target", None) or x.targets[0]) and norm(x.value) == "None"
                    for x in walk_own(repo.cls("pyxform.section:Section").methods["__init__"].node))
    # is None a state of the slot at all?  (initialised to None, or assigned None anywhere in the package)
    def _section_like(fi):
        owner = fi
        while owner.cls is None and owner.parent is not None:
            owner = owner.parent
        return owner.cls is None or any(c.name == "Section" for c in it0.mro(owner.cls))

    def _none_target(fi, t):
        # `self.children = None` inside a class that is not a Section writes another class's slot; any other receiver is unknown
        if not (isinstance(t, ast.Attribute) and t.attr == "children"):
            return False
        return _section_like(fi) or not (isinstance(t.value, ast.Name) and t.value.id == "self")

    none_writes = [(fi, x) for fi in repo.all_functions() for x in walk_own(fi.node)
                   if isinstance(x, ast.AnnAssign | ast.Assign) and x.value is not None and norm(x.value) == "None"
                   and any(_none_target(fi, t) for t in ([x.target] if isinstance(x, ast.AnnAssign) else x.targets))]
    r4.check(bool(guarded) or bool(unguarded), "K2 Section.children:census", "traversals of Section.children were found", "pyxform/section.py")
    r4.ok("K2 Section.children:state", ("None is a state of the slot: " + ", ".join(f.qualname for f, _x in none_writes)) if (init_none or none_writes)
          else "the slot is initialised to a list and never assigned None: an empty group has children []", "pyxform/section.py")
    for fi, x in guarded:
        r4.ok(f"K2 {fi.fq}:for … in self.children", "guarded by a truthiness test", fi.loc(x))
    for fi, x in unguarded:
        r4.check(not (init_none or none_writes), f"K2 {fi.fq}:for … in self.children",
                 "iteration over self.children is guarded against None, or None is not a state of the slot", fi.loc(x),
                 why_fail="an empty group leaves children None: TypeError: 'NoneType' object is not iterable")
    # K2b: osm tags
    for x in walk_own(loop):
        if isinstance(x, ast.For) and isinstance(x.iter, ast.Name):
            src = [a for a in walk_own(loop) if isinstance(a, ast.Assign) and isinstance(a.targets[0], ast.Name) and a.targets[0].id == x.iter.id]
            if src and isinstance(src[0].value, ast.Call) and call_name(src[0].value) == "get" and len(src[0].value.args) == 1:
                gts = guard_texts(x, stop=loop)
                exits = {norm(t) for t, _pol in early_exit_guards(x, stop=loop)}
                r4.check(any(x.iter.id in t and "not" not in t.split(x.iter.id)[0][-4:] for t in gts if t.strip() == x.iter.id or t.startswith(x.iter.id + " "))
                         or bool(exits & {f"{x.iter.id} is None", f"not {x.iter.id}"}),
                         f"K2 workbook_to_json:for … in {x.iter.id}", f"`{x.iter.id}` comes from dict.get() (None when the key is missing) and is tested before iteration", w2j.loc(x),
                         why_fail=f"{norm(src[0].value)} may be None")
    # K4: % formatting with a non-literal left operand
    k4_bad = {}
    for fi in repo.all_functions():
        if fi.fq not in reach:
            continue
        for x in walk_own(fi.node):
            left = None
            if isinstance(x, ast.BinOp) and isinstance(x.op, ast.Mod):
                left = x.left
            elif isinstance(x, ast.AugAssign) and isinstance(x.op, ast.Mod):
                left = x.target
            if left is None:
                continue
            okc, v = const_str(ctx, fi.module, left)
            if okc and isinstance(v, str):
                r4.ok(f"K4 {fi.fq}:{norm(x)[:50]}", "format string is a literal / folded constant", fi.loc(x))
            elif okc:
                continue
            else:
                tags = prov.classify(left, fi)
                numeric = tags <= {"IDX", "LIT"}
                if numeric:
                    r4.ok(f"K4 {fi.fq}:{norm(x)[:50]}", "the left operand of % is not author-controlled text", fi.loc(x))
                else:
                    k4_bad.setdefault(fi.fq, []).append((x, tags))
    # one finding per function (how many %-sites a function spreads the substitution over is an implementation detail)
    for fq_, sites_ in sorted(k4_bad.items()):
        fi_ = next(f for f in repo.all_functions() if f.fq == fq_)
        r4.fail(f"K4 {fq_}:%-formatting of author text", f"the left operand of % is not author-controlled text ({len(sites_)} site(s): " + "; ".join(norm(x_)[:40] for x_, _t in sites_[:3]) + ")", fi_.loc(sites_[0][0]))
    # K8: explicit keyword together with ** of an author-keyed dict
    from .c01 import _dead_site
    for s in xml_sites(ctx):
        if s.fi.fq not in reach or s.kind != "node" or _dead_site(prov, s):
            continue
        explicit = [k.arg for k in s.call.keywords if k.arg]
        for sp in star_kwargs(s.call):
            keys = prov.dict_keys(sp, s.fi)
            author = sorted(t for t in keys if t.startswith("CELLKEY"))
            if isinstance(sp, ast.Name):
                # keys the function removes from the dict before the call cannot collide any more
                popped = set()
                for c_ in walk_own(s.fi.node):
                    if isinstance(c_, ast.Call) and isinstance(c_.func, ast.Attribute) and c_.func.attr == "pop" and isinstance(c_.func.value, ast.Name) and c_.func.value.id == sp.id and c_.args \
                            and getattr(c_, "lineno", 0) <= getattr(s.call, "lineno", 0):
                        okp, kp = const_str(ctx, s.fi.module, c_.args[0])
                        if okp:
                            popped.add(kp)
                explicit = [k_ for k_ in explicit if k_ not in popped]
            if explicit and author:
                r4.fail(f"K8 {s.fi.fq}:{norm(s.call)[:60]}", f"explicit keyword(s) {explicit} and **dict with author-controlled keys cannot collide", s.loc,
                        why_fail=f"a column suffix equal to {explicit} raises TypeError (multiple values for keyword)")
            elif explicit or author:
                r4.ok(f"K8 {s.fi.fq}:{norm(s.call)[:60]}", "no explicit keyword can collide with an author-controlled key", s.loc)
    rules.append(r4)
    # duplicate choice names are rejected whether or not the rows carry labels (shared with C20.R2)
    from .c20 import choice_list_obligations
    r6 = Rule("C17", "C17.R6", "duplicate choice names are rejected on every list shape", floor=1,
              necessary="a duplicate accepted because one of the rows lacks a label yields two items with one value")
    choice_list_obligations(ctx, r6, "C17.R6")
    _choices_block_obligations(ctx, r6, "C17.R6")
    rules.append(r6)
    # select-from-file rows: the file name must have exactly one suffix and it must be a supported one, for every
    # spelling of the type (evaluated)
    import pathlib as _plx
    vle = ctx.func("pyxform.validators.pyxform.select_from_file:validate_list_name_extension", "C17.R6")
    sff = ctx.consts.get("pyxform.aliases", "select_from_file", "C17.R6")
    for cmd in sorted(sff)[:4] + ["select_one"]:
        for fname, ok_name in (("cities.csv", True), ("cities.xml", True), ("cities.geojson", True), ("cities", False), ("cities.txt", False), ("cities.xml.csv", False), ("data.v2.csv", False),
                               ("a.b.geojson", False), ("cities.CSV", False), (".csv", False)):
            itv = ctx.interp("C17.R6", hooks={"ext:pathlib.Path": lambda i, a, k, n: _plx.PurePosixPath(a[0])})
            itv.reset([])
            try:
                itv.call_function(vle, [], {"select_command": cmd, "list_name": fname, "row_number": 5}, None, vle.node)
                gotv = "accepted"
            except Raised as e:
                gotv = "rejected" if ("PyXFormError" in e.mro and "[row : 5]" in str(e.exc_args[0] if e.exc_args else "")) else f"raises {e.exc_name}"
            wantv = "accepted" if (ok_name or cmd == "select_one") else "rejected"
            r6.check(gotv == wantv, f"validate_list_name_extension[{cmd} {fname}]", f"{wantv}" + (" with a PyXFormError citing the row" if wantv == "rejected" else ""), vle.loc(), why_fail=gotv)
    from ..rowloop import row_prologue_obligations
    r7 = Rule("C17", "C17.R7", "rows without a type are rejected (comment rows skipped) before anything else reads them", floor=10,
              necessary="a question row whose type cell is empty that is skipped instead of rejected silently vanishes from the form")
    row_prologue_obligations(ctx, r7, "C17.R7")
    rules.append(r7)
    rules.append(_survey_sheet_settings_rule(ctx))
    # instance-id clashes are refused wherever the clashing rows sit (shared with C09.R3)
    from . import c09
    from .c08 import _take
    r9 = Rule("C17", "C17.R9", "instance-id clashes are refused in every sheet order", floor=10,
              necessary="a clash found only when the rows are adjacent lets the same instance id through for other orders")
    _take(r9, ctx.other(c09), "C09.R3", lambda c: c.startswith("_validate_external_instances[") or c.startswith("_generate_instances[choice list vs file clash") or c.startswith("_generate_instances[two files with one stem"))
    # an untidy `namespaces` cell never surfaces as an internal exception (get_nsmap evaluated on stray words, bare
    # prefixes, a lone `=`): shared with C19.R4
    from . import c19 as _c19h
    _take(r9, ctx.other(_c19h), "C19.R4", lambda c: c.startswith("get_nsmap.base[") and ("draft" in c or "bare" in c or "esri = " in c))
    rules.append(r9)
    return rules


def eval_choices_block(ctx, rid, rows, clean=True, survey_header=None, settings=None):
    """Evaluate the choices-sheet block of workbook_to_json (plus the earlier top-level assignments it depends on) on the
    given sheet rows -> (outcome, message, choices, warnings); outcome is 'ok' / 'warning' / 'error' / 'raises X' / None
    (block not recognised or not evaluable: callers skip)."""
    import builtins
    from ..interp import Obj
    from ..rowloop import toplevel_slice
    w2j = ctx.func("pyxform.xls2json:workbook_to_json", rid)
    blk = next((st for st in w2j.node.body if isinstance(st, ast.If) and isinstance(st.test, ast.Name) and st.test.id == "choices_sheet"
                and any(isinstance(c, ast.Call) and call_name(c) == "validate_and_clean_choices" for c in ast.walk(st))), None)
    if blk is None:
        return None, "the choices block of workbook_to_json was not recognised (if choices_sheet: ... validate_and_clean_choices)", None, None, None
    option_fields = set(ctx.consts.get("pyxform.question", "OPTION_FIELDS", rid))
    data = [dict(r_) for r_ in rows]
    hdr = {}
    for r_ in data:
        for k_ in r_:
            hdr.setdefault(k_, None)
    wd = Obj(None, {"choices": data, "choices_header": [hdr], "survey_header": survey_header if survey_header is not None else [{"type": None, "name": None, "label": None}],
                    "survey": [{"type": "text", "name": "q"}]}, name="workbook_dict")
    warnings = []
    env = {"choices_sheet": data, "clean_text_values_enabled": clean, "workbook_dict": wd, "option_fields": option_fields, "default_language": "default", "warnings": warnings,
           "settings": dict(settings or {}), "json_dict": {}, "choices": {}}
    mod = w2j.module

    def module_has(nm):
        return hasattr(builtins, nm) or ctx.repo.resolve_name(mod, nm) is not None
    try:
        stmts = toplevel_slice(w2j, blk, set(env), module_has)
    except AnalysisError as e:
        return None, str(e), None, None, blk
    it = ctx.interp(rid, hooks={"new:DealiasAndGroupHeadersResult": lambda i, a, k, n: Obj(None, dict(k) if k else {"headers": a[0], "data": a[1]}, name="result")})
    it.reset([])
    try:
        it.exec_block(stmts, env, mod)
        return ("warning" if warnings else "ok"), " ".join(str(w_) for w_ in warnings), env.get("choices"), warnings, blk
    except AnalysisError as e:
        return None, f"the choices block reads state this evaluation does not provide ({e})", None, None, blk
    except Raised as e:
        return ("error" if "PyXFormError" in e.mro else f"raises {e.exc_name}{e.exc_args}"), (str(e.exc_args[0]) if e.exc_args else ""), None, warnings, blk


def _choices_block_obligations(ctx, rule, rid):
    """The choices-sheet block of workbook_to_json (text cleaning on / off -> header pass -> grouping -> validation),
    evaluated as a block: a choice without a name or a repeated name is refused with the library's error citing the
    choice's row, a choice without a label gets its row-citing warning - with clean_text_values on AND off (the row
    numbers the messages cite must exist on both paths)."""
    w2j = ctx.func("pyxform.xls2json:workbook_to_json", rid)
    LISTS = {
        "a choice without a name": ([{"list_name": "l", "name": "a", "label": "A"}, {"list_name": "l", "label": "B"}], "error", 3),
        "a repeated choice name": ([{"list_name": "l", "name": "a", "label": "A"}, {"list_name": "l", "name": "b", "label": "B"}, {"list_name": "l", "name": "a", "label": "C"}], "error", 4),
        "a choice without a label": ([{"list_name": "l", "name": "a", "label": "A"}, {"list_name": "l", "name": "b"}], "warning", 3),
        "a well-formed list": ([{"list_name": "l", "name": "a", "label": "A"}, {"list_name": "m", "name": "a", "label": "A2"}], "ok", None),
        # rows that went through an earlier conversion carry the row number written then; the number cited is today's position
        "a choice without a name, rows numbered by an earlier conversion": ([{"list_name": "l", "name": "a", "label": "A", "__row": 7}, {"list_name": "l", "label": "B", "__row": 9}], "error", 3),
        "a choice without a label, rows numbered by an earlier conversion": ([{"list_name": "l", "name": "a", "label": "A", "__row": 2}, {}, {"list_name": "l", "name": "b", "__row": 3}], "warning", 4),
    }
    for clean in (True, False):
        for desc, (rows, want, row_no) in LISTS.items():
            got, msg, _choices, _w, blk = eval_choices_block(ctx, rid, rows, clean=clean)
            if got is None:
                rule.note(f"{msg}; block obligations skipped")
                return
            ok = got == want and (row_no is None or f"[row : {row_no}]" in msg)
            rule.check(ok, f"choices block[clean_text_values={'yes' if clean else 'no'}; {desc}]", {"error": f"refused with PyXFormError citing row {row_no}", "warning": f"accepted with a warning citing row {row_no}", "ok": "accepted silently"}[want],
                       w2j.loc(blk), why_fail=f"{got}: {msg[:120]}")


def _survey_sheet_settings_rule(ctx):
    """A setting given as a survey-sheet row (type form_id / form_title / ... with the value in the name cell): the value
    the row loop stores for a BLANK name cell must be one Survey.validate refuses as an empty id.  The producer (the
    settings branch of the row loop, evaluated as a dependency slice) and the consumer (Survey.validate, evaluated) are
    two sites in two files that must agree on the sentinel."""
    from ..rowloop import dependency_slice, row_loop_of
    from ..interp import Obj, _Continue
    r = Rule("C17", "C17.R8", "a blank form id given on the survey sheet is refused (producer and validator agree on the empty value)", floor=3,
             necessary="an empty id that the validator does not recognise becomes the XForm's id attribute")
    repo = ctx.repo
    w2j = ctx.func("pyxform.xls2json:workbook_to_json", "C17.R8")
    loop = row_loop_of(w2j)
    anchors = [n for n in ast.walk(loop) if isinstance(n, ast.Attribute) and n.attr == "settings_header"]
    if not anchors:
        r.note("the row loop no longer reads settings from survey-sheet rows; nothing to agree on")
        r.floor = 0
        return r
    known = {"row": None, "row_number": 7, "question_type": None, "json_dict": None, "warnings": None, "settings": None}
    from ..astutil import stmt_of
    a_st = stmt_of(anchors[0])
    tnames = {t.id for t in getattr(a_st, "targets", []) if isinstance(t, ast.Name)}
    users = [x.test for x in ast.walk(loop) if isinstance(x, ast.If) and x is not a_st and tnames & {y.id for y in ast.walk(x.test) if isinstance(y, ast.Name)}]
    stmts = dependency_slice(w2j, loop, [anchors[0], *users[:1]], lambda nm: nm in known)
    sh = ctx.consts.get("pyxform.aliases", "settings_header", "C17.R8")
    id_types = sorted(k for k, v in sh.items() if v == "id_string")
    scls = repo.cls("pyxform.survey:Survey")
    val = scls.methods["validate"]
    n = 0
    for qt in id_types:
        for desc, row, want in (("blank name cell", {"type": qt}, "refused"), ("name cell given", {"type": qt, "name": "my_form"}, "accepted"), ("name cell `None` typed by the author", {"type": qt, "name": "None"}, None)):
            jd = {"type": "survey", "name": "data", "children": []}
            env = {"row": row, "row_number": 7, "question_type": qt, "json_dict": jd, "warnings": [], "settings": {}}
            free = {x.id for st in stmts for x in ast.walk(st) if isinstance(x, ast.Name)}
            env = {k: v for k, v in env.items() if k in free}
            it = ctx.interp("C17.R8")
            it.reset([])
            try:
                it.exec_block(stmts, env, w2j.module)
            except _Continue:
                pass
            except Raised as e:
                if "PyXFormError" in e.mro and want == "refused":
                    r.ok(f"survey-sheet row `{qt}`[{desc}]", "refused by the row loop itself", w2j.loc(stmts[0]))
                    n += 1
                    continue
                r.fail(f"survey-sheet row `{qt}`[{desc}]", f"the settings branch evaluates ({e.exc_name}{e.exc_args})", w2j.loc(stmts[0]))
                continue
            if want is None:
                continue
            stored = jd.get("id_string")
            sv = Obj(scls, {"id_string": stored, "name": "data", "children": []}, name="survey")
            itv = ctx.interp("C17.R8", hooks={"fnname:_validate_uniqueness_of_section_names": lambda i, a, k, n_: None, "call:super().validate": lambda i, a, k, n_: None})
            itv.reset([])
            try:
                itv.call_function(val, [sv], {}, None, val.node)
                got = "accepted"
            except Raised as e:
                got = "refused" if "PyXFormError" in e.mro else f"raises {e.exc_name}"
            n += 1
            r.check(got == want, f"survey-sheet row `{qt}`[{desc}]", f"the stored id {stored!r} is {want} by Survey.validate", val.loc(), why_fail=f"stored {stored!r}: {got}")
    r.check(n >= 2, "survey-sheet settings rows", "the id-setting row types were evaluated", w2j.loc(stmts[0]))
    return r


def _in_try(node, names) -> bool:
    for a in ancestors(node):
        if isinstance(a, ast.Try):
            for h in a.handlers:
                t = norm(h.type) if h.type is not None else "BaseException"
                if any(n in t for n in names) or h.type is None:
                    return True
    return False


def _loop_targets(loop) -> list[str]:
    t = loop.target
    if isinstance(t, ast.Tuple):
        return [e.id for e in t.elts if isinstance(e, ast.Name)]
    return [t.id] if isinstance(t, ast.Name) else []


def _depends_text(fn_node, raise_stmt, text: str) -> bool:
    """The raise message is built (through local assignments) from a literal containing text."""
    seen, todo = set(), {n.id for n in ast.walk(raise_stmt) if isinstance(n, ast.Name)}
    while todo:
        n = todo.pop()
        if n in seen:
            continue
        seen.add(n)
        for x in walk_own(fn_node):
            if isinstance(x, ast.Assign) and any(isinstance(t, ast.Name) and t.id == n for t in x.targets):
                if text in norm(x.value):
                    return True
                todo |= {y.id for y in ast.walk(x.value) if isinstance(y, ast.Name)}
            if isinstance(x, ast.Call) and call_name(x) in ("append", "extend") and isinstance(x.func, ast.Attribute) and isinstance(x.func.value, ast.Name) and x.func.value.id == n:
                if any(text in norm(a) for a in x.args):
                    return True
                for a in x.args:
                    todo |= {y.id for y in ast.walk(a) if isinstance(y, ast.Name)}
    return False


def _is_non_row_error(raise_stmt) -> bool:
    t = norm(raise_stmt)
    return "you must add an entities sheet" in t


def _membership_guarded(g, nid, d, k) -> bool:
    """Every path to nid passes a test establishing k in d: `k in d` (true edge), `k not in d` (false edge),
    or the subscript sits in a statement whose own guard is `d.get(k)` / `k in d`."""
    dom = g.dominators(skip_labels=frozenset({"exc"}))
    for t in dom.get(nid, ()):
        n = g.nodes[t]
        if n.kind != "test" or t == nid:
            continue
        txt = norm(n.stmt)
        pos = f"{k} in {d}" in txt and f"{k} not in {d}" not in txt
        neg = f"{k} not in {d}" in txt
        getg = f"{d}.get({k}" in txt
        if not (pos or neg or getg):
            continue
        # which edge of the test leads to nid?
        for y, lab in g.succ[t]:
            if lab not in ("true", "false"):
                continue
            reach = g.reachable(y, skip_labels=frozenset({"exc"}))
            other = [z for z, l2 in g.succ[t] if l2 in ("true", "false") and l2 != lab]
            other_reach = set().union(*[g.reachable(z, skip_labels=frozenset({"exc"})) for z in other]) if other else set()
            if nid in reach and nid not in other_reach:
                if (pos or getg) and lab == "true" and " or " not in txt:
                    return True
                if neg and lab == "false" and " and " in txt:
                    # `k not in d and A and B` false does not establish membership unless every other conjunct…
                    continue
                if neg and lab == "false":
                    return True
    return False


def _in_try_keyerror(e) -> bool:
    for a in ancestors(e):
        if isinstance(a, ast.Try):
            for h in a.handlers:
                if h.type is None or "KeyError" in norm(h.type) or "Exception" in norm(h.type):
                    return True
    return False
