"""C03 — ${name} references become XPaths (structural clauses only)."""

from __future__ import annotations

import ast
import re
import re._parser as sre_parse  # regex *syntax trees*; patterns are never matched against pyxform data

from .. import cfg as cfgmod
from ..astutil import call_name, const_str, guard_texts, kw
from ..callgraph import CallGraph
from ..interp import Obj, Raised, Sym, SymStr, explore
from ..loader import AnalysisError, ancestors, norm, parent, walk_own
from ..prov import Prov, xml_sites
from ..report import Rule

EXPLANATION = (
    "Sanitizer-dominance: every value that reaches an XML sink from a reference-bearing element field (bind, control, "
    "instance attributes, default, choice_filter, trigger, seed, labels/hints) passes the substituter "
    "(insert_xpaths / insert_output_values), with an explicit table of reasoned exceptions; check-before-use dominance "
    "of the unknown-name and ambiguous-name errors over every read of the name->element map; abstract evaluation of "
    "the replacement function's top-level decision (unknown / ambiguous / last-saved / relative / absolute); regex "
    "syntax-tree vs. group use for every reference-related pattern, and agreement of the three spellings of the "
    "${...} pattern; last-saved id/URI agreement; current() anchoring requested exactly at secondary-instance predicates."
)
NOT_DECIDED = ("THE HEART OF THE PROPERTY IS NOT DECIDED: that the produced relative path, evaluated from the referrer, reaches "
               "the target (share_same_repeat_parent, _relative_path, has_common_repeat_parent, indexed-repeat argument "
               "positions are string/tree arithmetic over run-time positions). A wrong steps count is invisible to this check.")
ASSUMPTIONS = [
    "re._parser gives the syntax tree CPython's re module compiles",
    "provenance joins are unions; the 'guarded re-definition' idiom (x = raw; if x: x = f(x)) is the only flow-sensitive refinement",
]

REF_FIELDS = ("bind", "control", "instance", "default", "choice_filter", "trigger", "label", "hint", "guidance_hint",
              "parameters.seed", "_translations")


def _is_ref_field(f: str) -> bool:
    return any(f == r or f.startswith(r + ".") for r in REF_FIELDS)


def _regex_info(pattern: str):
    tree = sre_parse.parse(pattern)
    ngroups = tree.state.groups - 1
    names = dict(tree.state.groupdict)
    optional = set()

    def walk(items, opt):
        for op, av in items:
            opn = str(op)
            if opn == "SUBPATTERN":
                gid, _a, _b, sub = av
                if gid is not None and opt:
                    optional.add(gid)
                walk(sub, opt)
            elif opn in ("MAX_REPEAT", "MIN_REPEAT"):
                lo, hi, sub = av
                walk(sub, opt or lo == 0)
            elif opn == "BRANCH":
                for alt in av[1]:
                    walk(alt, True if len(av[1]) > 1 else opt)
            elif opn in ("ASSERT", "ASSERT_NOT"):
                walk(av[1], opt)

    walk(tree, False)
    lits = []
    for op, av in tree:
        if str(op) == "LITERAL":
            lits.append(chr(av))
        else:
            break
    tail = []
    for op, av in reversed(list(tree)):
        if str(op) == "LITERAL":
            tail.append(chr(av))
        else:
            break
    return {"groups": ngroups, "names": names, "optional": optional, "prefix": "".join(lits), "suffix": "".join(reversed(tail)), "tree": tree}


REF_TREES = {
    "nested repeats and groups": ("data", [("q", "a"), ("r", "r1", [("q", "b"), ("g", "g1", [("q", "c"), ("r", "r2", [("q", "d"), ("g", "g2", [("q", "e")])])]), ("g", "g3", [("q", "f")])]),
                                            ("g", "g4", [("q", "h"), ("r", "r3", [("q", "i")])])]),
    "deep groups inside one repeat": ("data", [("r", "r", [("g", "g1", [("g", "g2", [("g", "g3", [("q", "t")])])]), ("q", "q")])]),
    "sibling repeats whose names share a prefix": ("data", [("r", "o", [("r", "ab", [("q", "q1")]), ("r", "abc", [("q", "q2")])])]),
    "repeat whose name is also a question's name elsewhere": ("data", [("g", "intro", [("q", "member")]), ("r", "member", [("q", "x"), ("g", "gg", [("q", "y")])])]),
    "group names that are prefixes of each other": ("data", [("r", "rr", [("g", "a", [("q", "p")]), ("g", "ab", [("q", "p2")]), ("q", "p3")])]),
}


def reference_resolution_rule(ctx, prop, rid):
    """The heart of C03 on bounded trees: for every ordered pair (referrer, target) of questions in a family of small
    trees, the real substituter is evaluated on `${target}` with the referrer as context, and the produced path is
    resolved against the tree from the referrer's node.  It must reach the target, and it is relative exactly when the
    target's innermost enclosing repeat also encloses the referrer."""
    from .. import trees
    r = Rule(prop, rid, "references resolve to the named question on bounded trees", floor=60,
             necessary="a path that does not reach the target (or is absolute inside the shared repeat) reads another node's value")
    scls = ctx.repo.cls("pyxform.survey:Survey")
    ix = scls.methods["insert_xpaths"]
    sx = scls.methods["_setup_xpath_dictionary"]
    for tname, spec in REF_TREES.items():
        survey, _by_name, everything = trees.build(ctx, spec)
        it = ctx.interp(rid)
        it.reset([])
        try:
            it.call_function(sx, [survey], {}, None, sx.node)
        except Raised as e:
            r.fail(f"tree[{tname}]", f"name map builds ({e.exc_name})", sx.loc())
            continue
        amb = {k for k, v in (survey.attrs.get("_xpath") or {}).items() if v is None}
        questions = [e for e in everything if e.attrs.get("children") is None]

        def anc(e):
            out = []
            p = e.attrs.get("parent")
            while p is not None:
                out.append(p)
                p = p.attrs.get("parent")
            return out

        def inner_repeat(e):
            return next((a for a in anc(e) if a.attrs.get("type") == "repeat"), None)

        def resolve(path, start):
            parts = [p for p in path.strip().split("/")]
            if path.strip().startswith("/"):
                cur = None
                names = [p for p in parts if p]
                if not names or names[0] != survey.name:
                    return None
                cur = survey
                names = names[1:]
            else:
                cur = start
                names = [p for p in parts if p]
            for nm in names:
                if nm == "..":
                    cur = cur.attrs.get("parent")
                elif nm == ".":
                    continue
                else:
                    kids = [k for k in (cur.attrs.get("children") or []) if k.name == nm]
                    cur = kids[0] if len(kids) == 1 else None
                if cur is None:
                    return None
            return cur

        # referrers: every question, and every group / repeat (its own label, relevant, repeat_count cell may name a
        # question - also one directly inside it); targets: questions
        for ref in everything:
            for tgt in questions:
                if ref is tgt or tgt.name in amb:
                    continue
                it.reset([])
                try:
                    out = it.call_function(ix, [survey, "${" + tgt.name + "}", ref], {}, None, ix.node)
                except Raised as e:
                    r.fail(f"tree[{tname}] {ref.name} -> ${{{tgt.name}}}", f"substitution evaluates ({e.exc_name}{e.exc_args})", ix.loc())
                    continue
                path = out.strip() if isinstance(out, str) else None
                reached = resolve(path, ref) if path else None
                want_rel = inner_repeat(tgt) is not None and inner_repeat(tgt) in anc(ref)
                is_rel = bool(path) and not path.startswith("/")
                # relative is REQUIRED inside the shared repeat; elsewhere either form is fine as long as it reaches the target
                ok = reached is tgt and (is_rel or not want_rel)
                r.check(ok, f"tree[{tname}] {ref.name} -> ${{{tgt.name}}}", f"{'relative path' if want_rel else 'path'} reaching {tgt.name}", ix.loc(),
                        why_fail=f"got {out!r}, which reaches {reached.name if reached is not None else 'nothing'}")
                if not ok or ref.attrs.get("children") is not None:
                    continue
                # the same reference inside the expression forms authors write: what surrounds the reference decides only
                # (a) the current() prefix inside a predicate over a secondary instance, (b) the last-saved instance
                abs_path = "/" + "/".join([survey.name] + [a.name for a in reversed(anc(tgt)[:-1])] + [tgt.name])
                forms = [("arith", "${T} + 1", lambda o: o.split(" + 1")[0].strip() == path),
                         ("twice", "${T} > 0 and ${T} < 9", lambda o: [x.strip() for x in o.replace(" < 9", "").split(" > 0 and ")] == [path, path]),
                         ("last-saved", "${last-saved#T}", lambda o: o.strip() == f"instance('__last-saved'){abs_path}"),
                         ("last-saved after a plain reference", "${T} + ${last-saved#T}", lambda o: [x.strip() for x in o.split(" + ")] == [path, f"instance('__last-saved'){abs_path}"])]
                for q_ in ("'ch'", '"ch"', " 'ch' "):
                    want_pred = ("current()/" + path) if is_rel else path
                    forms.append((f"secondary-instance predicate, id written {q_.strip()!r}{' with spaces' if q_ != q_.strip() else ''}", f"instance({q_})/root/item[name = ${{T}} ]/label",
                                  lambda o, q_=q_, want_pred=want_pred: o.split("[name = ")[-1].split(" ]/label")[0].strip() == want_pred and o.startswith(f"instance({q_})/root/item[")))
                rep_t = inner_repeat(tgt)
                if rep_t is not None and rep_t.name not in amb:
                    ir_ = "indexed-repeat(${T}, ${R}, 1)".replace("${R}", "${" + rep_t.name + "}")
                    ir2_ = ir_.replace(", 1)", ", 2)")
                    forms.append(("after two indexed-repeat() calls", f"{ir_} + {ir2_} + ${{T}}", lambda o: o.split(") + ")[-1].strip() == path))
                    forms.append(("between two indexed-repeat() calls", f"{ir_} + ${{T}} + {ir2_}", lambda o: o.split(") + ")[1].split(" + indexed-repeat(")[0].strip() == path))
                    forms.append(("before two indexed-repeat() calls", f"${{T}} + {ir_} + {ir2_}", lambda o: o.split(" + indexed-repeat(")[0].strip() == path))
                    # indexed-repeat() inside a predicate over a secondary instance: its relative (index) argument is still
                    # evaluated inside the predicate, so it needs current() like any other relative reference there
                    it.reset([])
                    try:
                        self_path = it.call_function(ix, [survey, "${" + ref.name + "}", ref], {}, None, ix.node).strip()
                    except Raised:
                        self_path = None
                    if self_path and not self_path.startswith("/") and ref.name not in amb:
                        forms.append(("indexed-repeat() index argument inside a secondary-instance predicate",
                                      f"instance('ch')/root/item[name = {ir_[:-2]}${{{ref.name}}} - 1)]/label",
                                      lambda o, self_path=self_path: o.rsplit(",", 1)[-1].split(" - 1)")[0].strip() == "current()/" + self_path))
                    forms.append(("last-saved next to indexed-repeat()", "indexed-repeat(${T}, ${R}, 1) + ${last-saved#T}".replace("${R}", "${" + rep_t.name + "}"),
                                  lambda o: o.split(") + ")[-1].strip() == f"instance('__last-saved'){abs_path}"))
                for fname, tmpl, good in forms:
                    expr = tmpl.replace("${T}", "${" + tgt.name + "}").replace("#T}", "#" + tgt.name + "}")
                    it.reset([])
                    try:
                        o2 = it.call_function(ix, [survey, expr, ref], {}, None, ix.node)
                        okf = isinstance(o2, str) and bool(good(o2))
                    except Raised as e:
                        o2, okf = f"raises {e.exc_name}{e.exc_args}", False
                    except Exception as e:  # noqa: BLE001 - an oracle that cannot parse the output is a failed obligation
                        okf = False
                    r.check(okf, f"tree[{tname}] {ref.name} -> {fname} ${{{tgt.name}}}", f"`{expr}` resolves the reference as the bare form does ({path})", ix.loc(),
                            why_fail=f"got {o2!r}")
    return r


def _relation_rule(ctx):
    """C03.R5: the referrer/target relation that decides relative vs absolute paths, evaluated (abstractly: elements
    are attribute bags with `parent` and `type`) on every pair of positions below a common ancestor chain, depths 0..4,
    and compared with its definition: the innermost repeat that encloses both, at max(distance) steps."""
    import itertools
    r5 = Rule("C03", "C03.R5", "same-repeat relation on all small trees", floor=150,
              necessary="a relation computed wrongly for some pair of depths makes the reference absolute where it must be relative (or the reverse)")
    se = ctx.repo.cls("pyxform.survey_element:SurveyElement")
    fn = se.methods["has_common_repeat_parent"]
    rep = ctx.consts.get("pyxform.constants", "REPEAT", "C03.R5")

    def mk(name, kind, parent):
        return Obj(se, {"name": name, "type": rep if kind == "r" else ("group" if kind == "g" else kind), "parent": parent}, name=name)

    n = 0
    for prefix in ([], ["r"], ["g"], ["r", "g"], ["g", "r"], ["r", "r"], ["g", "g"], ["r", "g", "g"]):
        for da, db in itertools.product(range(5), range(5)):
            root = mk("data", "survey", None)
            cur = root
            chain = []
            for i, k in enumerate(prefix):
                cur = mk(f"p{i}", k, cur)
                chain.append(cur)
            top = cur
            a = top
            for i in range(da):
                a = mk(f"a{i}", "g", a)
            a = mk("qa", "text", a)
            b = top
            for i in range(db):
                b = mk(f"b{i}", "g", b)
            b = mk("qb", "text", b)
            # oracle: innermost repeat of the common chain; distance of each leaf to it
            want = ("Unrelated", None, None)
            for depth_from_top, el in enumerate(reversed(chain)):
                if el.attrs["type"] == rep:
                    want = ("Common Ancestor Repeat", max(da, db) + 1 + depth_from_top, el)
                    break
            it = ctx.interp("C03.R5")
            it.reset([])
            try:
                got = it.call_function(fn, [a, b], {}, None, fn.node)
            except Raised as e:
                got = f"raises {e.exc_name}{e.exc_args}"
            n += 1
            ok = isinstance(got, tuple) and len(got) == 3 and got[0] == want[0] and got[1] == want[1] and got[2] is want[2]
            r5.check(ok, f"relation[prefix={'>'.join(prefix) or '-'} referrer depth {da} target depth {db}]",
                     f"{want[0]}" + (f" at {want[1]} steps, ancestor {want[2].name}" if want[2] is not None else ""), fn.loc(),
                     why_fail=f"got {got[:2] if isinstance(got, tuple) else got}")
    return r5


def sticky_sentinel(ctx, r2, rid):
    """The name->element map marks a name carried by 2..5 elements as ambiguous (shared with C17)."""
    scls = ctx.repo.cls("pyxform.survey:Survey")
    sx = scls.methods["_setup_xpath_dictionary"]
    # the sentinel is sticky: however many elements share a name (2..5, interleaved with others) it stays ambiguous
    for k in (2, 3, 4, 5):
        names = []
        for i in range(k):
            names += ["dup", f"u{i}"]
        els_k = [Obj(None, {"name": n}, name=f"el_{n}_{i}") for i, n in enumerate(names)]
        it = ctx.interp(rid, hooks={"fnname:iter_descendants": lambda i, a, k_, n, e=els_k: list(e)})
        it.reset([])
        so_k = Obj(scls, {"_xpath": None}, name="survey")
        it.call_function(sx, [so_k], {}, None, sx.node)
        mpk = so_k.attrs.get("_xpath")
        r2.check(isinstance(mpk, dict) and "dup" in mpk and mpk["dup"] is None and all(mpk.get(f"u{i}") is els_k[2 * i + 1] for i in range(k)),
                 f"_setup_xpath_dictionary[{k} elements with one name]", "a name carried by several elements stays marked ambiguous (None) whatever their number", sx.loc(),
                 why_fail=f"dup -> {mpk.get('dup') if isinstance(mpk, dict) else mpk!r}")


def run(ctx):
    repo = ctx.repo
    rules = []
    prov = Prov(ctx)
    cg = CallGraph(repo, ctx.consts.interp)
    reach = cg.reachable(["pyxform.xls2xform:convert"])
    scls = repo.cls("pyxform.survey:Survey")

    # ------------------------------------------------------------------ R1
    r1 = Rule("C03", "C03.R1", "reference-bearing fields reach XML only through the substituter", floor=40,
              necessary="a field emitted without insert_xpaths leaves a literal ${name} token in the output")
    from .c01 import _dead_site
    sites = [s for s in xml_sites(ctx) if s.fi.fq in reach and s.fi.fq != "pyxform.utils:node" and not _dead_site(prov, s)]
    accepted = {
        ("Question.xml_instance", "default"): _acc_static_default,
        ("GroupedSection.xml_control", "control.appearance"): _acc_group_appearance,
        ("Survey._generate_static_instances.choice_nodes", "label"): _acc_choice_label,
        ("MultipleChoiceQuestion.build_xml", "parameters.seed"): _acc_seed,
    }
    n_sinks = 0
    for s in sites:
        c = s.call
        vals = []
        if s.kind == "node":
            vals += [(f"@{k.arg}", k.value) for k in c.keywords if k.arg and k.arg != "toParseString"]
            vals += [("text", a) for a in c.args[1:] if not isinstance(a, ast.Starred)]
        else:
            vals.append(("@" + norm(c.args[0])[:20], c.args[1]))
        for where, v in vals:
            n_sinks += 1
            tags = prov.classify(v, s.fi)
            raw = sorted(t[5:] for t in tags if t.startswith("CELL:") and _is_ref_field(t[5:]))
            key = f"{s.fi.fq}:{norm(c)[:50]}:{where}"
            if not raw:
                r1.ok(key, "no raw reference-bearing field reaches this sink", s.loc)
                continue
            for f in raw:
                acc = next((fn for (q, fld), fn in accepted.items() if s.fi.qualname == q and (f == fld or f.startswith(fld))), None)
                if acc is not None:
                    ok, reason = acc(ctx, s, v)
                    r1.check(ok, key + f":{f}", f"accepted exception: {reason}", s.loc)
                else:
                    r1.fail(key + f":{f}", f"field {f!r} reaches the sink without the substituter", s.loc)
    # dict values splatted as attributes must be substituted where the dict is built
    for fq, what in (("pyxform.survey_element:SurveyElement.xml_bindings", "bind_dict"), ("pyxform.section:Section.xml_instance", "attributes"),
                     ("pyxform.section:RepeatingSection.xml_control", "control_dict"), ("pyxform.section:GroupedSection.xml_control", "attributes")):
        fi = ctx.func(fq, "C03.R1")
        stores = []
        for x in walk_own(fi.node):
            if isinstance(x, ast.Assign) and isinstance(x.targets[0], ast.Subscript) and isinstance(x.targets[0].value, ast.Name) and x.targets[0].value.id == what:
                stores.append(x.value)
            if isinstance(x, ast.Assign) and isinstance(x.value, ast.DictComp) and any(isinstance(t, ast.Name) and t.id == what for t in x.targets):
                stores.append(x.value.value)
        for v in stores:
            tags = prov.classify(v, fi)
            raw = sorted(t for t in tags if t.startswith("CELL:") and _is_ref_field(t[5:]))
            key = f"{fq}:{what}[..]={norm(v)[:40]}"
            if raw == ["CELL:control.appearance"] and fi.qualname == "GroupedSection.xml_control":
                ok, reason = _acc_group_appearance(ctx, None, v)
                r1.check(ok, key, f"accepted exception: {reason}", fi.loc(v))
            elif what == "attributes" and fi.qualname == "GroupedSection.xml_control" and tags <= {"XPATH", "LIT"}:
                r1.ok(key, "path attribute", fi.loc(v))
            else:
                r1.check(not raw and ("SUBST" in tags or tags <= {"LIT", "XPATH"}), key, "every attribute value stored is the substituter's result", fi.loc(v),
                         why_fail=f"provenance {sorted(tags)}")
    ctx.count("xml_value_sinks", n_sinks)
    # itext texts go through insert_output_values with the element as context
    itx = scls.methods["itext"]
    iov = [c for c in walk_own(itx.node) if isinstance(c, ast.Call) and call_name(c) == "insert_output_values"]
    r1.check(len(iov) >= 2 and any(kw(c, "context") is not None or len(c.args) > 1 for c in iov), "Survey.itext:insert_output_values",
             "itext values are produced by insert_output_values (with the owning element as context where known)", itx.loc())
    rules.append(r1)

    # ------------------------------------------------------------------ R2
    r2 = Rule("C03", "C03.R2", "lookup discipline: unknown and ambiguous names are errors before any use of the map", floor=8,
              necessary="a reference to a missing or duplicated name would be resolved silently (or crash) instead of failing with its name")
    vr = scls.methods["_var_repl_function"]
    # evaluated on a small tree (real name map, real substituter): a reference to a name no element has, or to a name two
    # elements share, is refused with the library's error naming it - in every expression form, from every context, with
    # every flag combination; nothing is read from the map for such a name
    from .. import trees as _trees
    import itertools as _it2
    spec_ = ("data", [("q", "a"), ("r", "r1", [("q", "phone"), ("q", "c")]), ("g", "g2", [("q", "phone")])])
    ix_ = scls.methods["insert_xpaths"]
    sx_ = scls.methods["_setup_xpath_dictionary"]
    FORMS_ = ("${X}", "${X} + 1", "1 + ${a} + ${X}", "${last-saved#X}", "indexed-repeat(${X}, ${r1}, 1)", "indexed-repeat(${c}, ${r1}, ${X})", "instance('l')/root/item[n = ${X} ]/label", "${a} and ${X} and ${c}")
    n_forms = 0
    for bad_, kind_ in (("nobody", "unknown"), ("phone", "ambiguous")):
        for form_, ctx_name, use_cur, ref_par in _it2.product(FORMS_, ("a", "c"), (False, True), (False, True)):
            survey_, by_, _all = _trees.build(ctx, spec_)
            itx_ = ctx.interp("C03.R2")
            itx_.reset([])
            itx_.call_function(sx_, [survey_], {}, None, sx_.node)
            try:
                out_ = itx_.call_function(ix_, [survey_, form_.replace("X", bad_), by_[ctx_name]], {"use_current": use_cur, "reference_parent": ref_par}, None, ix_.node)
                got_ = f"substituted: {out_!r}"
            except Raised as e:
                got_ = "refused" if ("PyXFormError" in e.mro and bad_ in str(e.exc_args[0] if e.exc_args else "")) else f"raises {e.exc_name}{e.exc_args}"
            n_forms += 1
            r2.check(got_ == "refused", f"insert_xpaths[{kind_} name in `{form_}`, context {ctx_name}, use_current={use_cur}, reference_parent={ref_par}]",
                     "refused with PyXFormError naming the reference", ix_.loc(), why_fail=got_[:160])
    ctx.count("unknown_ambiguous_reference_forms", n_forms)
    # the map builder: second sight stores the sentinel
    sx = scls.methods["_setup_xpath_dictionary"]
    els = [Obj(None, {"name": n}, name=f"el_{n}_{i}") for i, n in enumerate(["a", "b", "a", "c"])]
    it = ctx.interp("C03.R2", hooks={"fnname:iter_descendants": lambda i, a, k, n: list(els)})
    it.reset([])
    so = Obj(scls, {"_xpath": None}, name="survey")
    it.call_function(sx, [so], {}, None, sx.node)
    mp = so.attrs.get("_xpath")
    r2.check(isinstance(mp, dict) and mp.get("a", 0) is None and mp.get("b") is els[1] and mp.get("c") is els[3] and set(mp) == {"a", "b", "c"},
             "_setup_xpath_dictionary[a,b,a,c]", "a duplicated name maps to the None sentinel, unique names map to their element", sx.loc(), why_fail=f"map={mp!r}")
    sticky_sentinel(ctx, r2, "C03.R2")
    flt = [c for c in walk_own(sx.node) if isinstance(c, ast.Call) and call_name(c) == "iter_descendants"]
    r2.check(len(flt) == 1 and "Question" in norm(flt[0]) and "Section" in norm(flt[0]), "_setup_xpath_dictionary:domain", "questions and sections are the referable elements", sx.loc())
    sxml = scls.methods["xml"]
    gx = cfgmod.build(sxml.node.body)
    dom = gx.dominators()
    setup = gx.nodes_for(lambda n: any(call_name(c) == "_setup_xpath_dictionary" for c in cfgmod.calls_in(n.stmt)))
    users = gx.nodes_for(lambda n: any(call_name(c) in ("insert_xpaths", "xml_model", "xml_control") for c in cfgmod.calls_in(n.stmt)))
    r2.check(bool(setup) and bool(users) and all(any(s in dom.get(u, ()) for s in setup) for u in users), "Survey.xml:_setup_xpath_dictionary",
             "the name->element map is built before the first substitution", sxml.loc())
    # abstract evaluation of the replacement function's top-level decision
    XP = Sym("XPATH_q", truthy=True, pytype=str, tags=("XPATH",))
    target = Obj(None, {"get_xpath": lambda i, a, k, n: XP}, name="target")
    REL = Sym("REL", truthy=True, pytype=str)
    lsn = ctx.consts.get("pyxform.utils", "LAST_SAVED_INSTANCE_NAME", "C03.R2")
    for desc, mp, g1, rel in (("unknown", {}, None, None), ("ambiguous", {"q": None}, None, None),
                              ("plain, relative found", {"q": target}, None, REL), ("plain, no relative", {"q": target}, None, None),
                              ("last-saved", {"q": target}, "last-saved#", REL)):
        m = Sym("MATCH", truthy=True, attrs={
            "group": lambda i, a, k, n, g1=g1: {0: "${" + (g1 or "") + "q}", 1: g1, 2: "q"}[a[0] if a else 0],
            "string": "${" + (g1 or "") + "q} + 1", "start": lambda i, a, k, n: 0, "end": lambda i, a, k, n: 4})
        it = ctx.interp("C03.R2", hooks={"fnname:_relative_path": lambda i, a, k, n, rel=rel: rel})
        it.reset([])
        so = Obj(scls, {"_xpath": mp}, name="survey")
        try:
            res = ("return", it.call_function(vr, [so, m, Obj(None, {}, name="context")], {}, None, vr.node))
        except Raised as r:
            res = ("raise", r)
        if desc in ("unknown", "ambiguous"):
            ok = res[0] == "raise" and "PyXFormError" in res[1].mro and "q" in str(res[1].exc_args[0])
            r2.check(ok, f"_var_repl_function[{desc}]", "fails with PyXFormError whose message contains the reference", vr.loc())
        elif desc == "plain, relative found":
            r2.check(res == ("return", REL), f"_var_repl_function[{desc}]", "the relative path is used when one exists", vr.loc(), why_fail=repr(res))
        elif desc == "plain, no relative":
            v = res[1] if res[0] == "return" else None
            r2.check(isinstance(v, SymStr) and v.syms() == [XP] and "instance(" not in v.text(), f"_var_repl_function[{desc}]",
                     "otherwise the target's absolute path is used", vr.loc(), why_fail=repr(res))
        else:
            v = res[1] if res[0] == "return" else None
            r2.check(isinstance(v, SymStr) and v.syms() == [XP] and f"instance('{lsn}')" in v.text(), f"_var_repl_function[{desc}]",
                     "a last-saved reference is the absolute path inside instance('__last-saved') (never relative)", vr.loc(), why_fail=repr(res))
    rules.append(r2)

    # ------------------------------------------------------------------ R3
    r3 = Rule("C03", "C03.R3", "regex syntax trees agree with their consumers", floor=10,
              necessary="a consumer reading the wrong group takes the marker for the name (or vice versa) for every reference")
    br = ctx.consts.get("pyxform.utils", "BRACKETED_TAG_REGEX", "C03.R3")
    pr = ctx.consts.get("pyxform.utils", "PYXFORM_REFERENCE_REGEX", "C03.R3")
    lex = ctx.consts.get("pyxform.parsing.expression", "LEXER_RULES", "C03.R3")
    bi, pi, li = _regex_info(br.pattern), _regex_info(pr.pattern), _regex_info(lex["PYXFORM_REF"])
    used = sorted({c.args[0].value for c in walk_own(vr.node) if isinstance(c, ast.Call) and call_name(c) == "group" and c.args
                   and isinstance(c.args[0], ast.Constant) and isinstance(c.args[0].value, int)})
    r3.check(bool(used) and max(used) <= bi["groups"], "BRACKETED_TAG_REGEX:groups", f"groups used by the replacement function {used} exist (pattern has {bi['groups']})", vr.loc())
    # role: the group compared with None is optional, the name group is not
    marker = [c for c in walk_own(vr.node) if isinstance(c, ast.Compare) and isinstance(c.left, ast.Call) and call_name(c.left) == "group"
              and isinstance(c.ops[0], ast.IsNot | ast.Is)]
    for c in marker:
        gi = c.left.args[0].value
        r3.check(gi in bi["optional"] and "last-saved#" in br.pattern, f"BRACKETED_TAG_REGEX:group({gi})", "the group tested against None is the optional last-saved# marker", vr.loc(c))
    name_grp = [x for x in walk_own(vr.node) if isinstance(x, ast.Assign) and isinstance(x.targets[0], ast.Name) and x.targets[0].id == "name"
                and isinstance(x.value, ast.Call) and call_name(x.value) == "group"]
    for x in name_grp:
        gi = x.value.args[0].value
        r3.check(gi not in bi["optional"] and gi <= bi["groups"] and gi != 0, f"BRACKETED_TAG_REGEX:group({gi})=name", "the name group always participates in a match", vr.loc(x))
    for nm, info, pat in (("BRACKETED_TAG_REGEX", bi, br.pattern), ("PYXFORM_REFERENCE_REGEX", pi, pr.pattern), ("LEXER_RULES[PYXFORM_REF]", li, lex["PYXFORM_REF"])):
        r3.check(info["prefix"] == "${" and info["suffix"] == "}", f"{nm}:delimiters", "pattern is delimited by '${' and '}'", "pyxform/utils.py", why_fail=f"{info['prefix']!r}…{info['suffix']!r}")
    r3.check(("last-saved#" in br.pattern) == ("last-saved#" in lex["PYXFORM_REF"]), "last-saved marker spelling", "substituter and lexer agree on the last-saved# marker", "pyxform/utils.py")
    r3.check(pi["groups"] >= 1, "PYXFORM_REFERENCE_REGEX:groups", "consumers reading groups()[0] have a group", "pyxform/utils.py")
    # every name the name validator accepts can be referenced: each reference pattern matches `${name}` whole, with the
    # name as its name group, for names using every kind of XML name character (accents, combining marks, middle dot,
    # undertie, astral letters, '.', '-', '_', digits) - decided on the folded patterns themselves
    import re as _re3
    valid_names = ["q1", "_x", "a.b", "a-b", "caf\u00e9", "cafe\u0301", "a\u00b7b", "a\u203fb", "x\u2040", "\u0646\u0627\u0645", "n\u0303", "\U00010400a", "A_b.c-9", "\u00e9", "a\u0660"]
    for nm, pat, name_group in (("BRACKETED_TAG_REGEX", br.pattern, 2), ("PYXFORM_REFERENCE_REGEX", pr.pattern, 1), ("LEXER_RULES[PYXFORM_REF]", lex["PYXFORM_REF"], None)):
        rx_ = _re3.compile(pat)
        missed = []
        for n_ in valid_names:
            for prefix_ in ("", "last-saved#") if nm != "PYXFORM_REFERENCE_REGEX" else ("",):
                text_ = "${" + prefix_ + n_ + "}"
                m_ = rx_.search("x " + text_ + " y")
                okm = m_ is not None and m_.group(0) == text_ and (name_group is None or (m_.group(name_group) or "").endswith(n_))
                if not okm:
                    missed.append(text_)
        r3.check(not missed, f"{nm}:names", f"matches a reference to every kind of valid element name ({len(valid_names)} names)", "pyxform/utils.py",
                 why_fail=f"not matched (left in the output as literal text, neither resolved nor reported): {missed[:4]}")
    # every `.groups()[i]` / group(i) on a match of a module-level regex constant
    for fi in repo.all_functions():
        if fi.fq not in reach or fi is vr:
            continue
        for x in walk_own(fi.node):
            rx = idx = None
            if isinstance(x, ast.Subscript) and isinstance(x.slice, ast.Constant) and isinstance(x.slice.value, int):
                src = x.value
                if isinstance(src, ast.Name):
                    asg = [b for b in prov._assignments(fi, src.id) if b[0] == "assign" and b[2] is None]
                    src = asg[0][1] if len(asg) == 1 else src
                if isinstance(src, ast.Call) and call_name(src) == "groups":
                    rx, idx = _regex_of_match(ctx, prov, fi, src.func.value), x.slice.value + 1
            elif isinstance(x, ast.Call) and call_name(x) == "group" and x.args and isinstance(x.args[0], ast.Constant):
                rx, idx = _regex_of_match(ctx, prov, fi, x.func.value), x.args[0].value
            if rx is None or idx is None:
                continue
            info = _regex_info(rx.pattern)
            if isinstance(idx, int):
                r3.check(idx <= info["groups"], f"{fi.fq}:{norm(x)[:40]}", f"group {idx} exists in {rx.pattern[:30]!r}", fi.loc(x))
            else:
                r3.check(idx in info["names"], f"{fi.fq}:{norm(x)[:40]}", f"named group {idx!r} exists", fi.loc(x))
    # named groups used through groupdict() in the row loop
    w2j = ctx.func("pyxform.xls2json:workbook_to_json", "C03.R3")
    for var, const in (("end_control_parse", "RE_END_CONTROL"), ("begin_control_parse", "RE_BEGIN_CONTROL"), ("select_parse", "RE_SELECT"), ("osm_parse", "RE_OSM")):
        rx = ctx.consts.get("pyxform.xls2json", const, "C03.R3")
        info = _regex_info(rx.pattern)
        asg = [x for x in walk_own(w2j.node) if isinstance(x, ast.Assign) and isinstance(x.targets[0], ast.Name) and x.targets[0].id == var]
        r3.check(len(asg) == 1 and const in norm(asg[0].value), f"workbook_to_json:{var}", f"{var} is a match of {const}", w2j.loc())
        if not asg:
            continue
        # keys read from parse_dict inside the `if <var>:` block
        blk = next((b for b in walk_own(w2j.node) if isinstance(b, ast.If) and isinstance(b.test, ast.Name) and b.test.id == var), None)
        if blk is None:
            continue
        keys = set()
        for y in ast.walk(blk):
            if isinstance(y, ast.Subscript) and isinstance(y.value, ast.Name) and y.value.id == "parse_dict":
                okc, kv = const_str(ctx, w2j.module, y.slice)
                if okc:
                    keys.add(kv)
            if isinstance(y, ast.Call) and call_name(y) == "get" and isinstance(y.func.value, ast.Name) and y.func.value.id == "parse_dict" and y.args:
                okc, kv = const_str(ctx, w2j.module, y.args[0])
                if okc:
                    keys.add(kv)
            if isinstance(y, ast.Compare) and isinstance(y.ops[0], ast.In) and norm(y.comparators[0]) == "parse_dict":
                okc, kv = const_str(ctx, w2j.module, y.left)
                if okc:
                    keys.add(kv)
        r3.check(bool(keys) and keys <= set(info["names"]), f"{const}:named groups", f"named groups read by the row loop {sorted(keys)} exist in the pattern", w2j.loc(blk),
                 why_fail=f"pattern names {sorted(info['names'])}")
    rules.append(r3)

    # ------------------------------------------------------------------ R4
    r4 = Rule("C03", "C03.R4", "last-saved and current() plumbing", floor=5,
              necessary="a last-saved path pointing at an undeclared instance id, or an unanchored relative path inside a secondary-instance predicate")
    gl = scls.methods["_get_last_saved_instance"]
    it = ctx.interp("C03.R4", hooks={"fnname:node": __import__("sa.xmlmodel", fromlist=["node_hook"]).node_hook,
                                    "new:InstanceInfo": lambda i, a, k, n: dict(k)})
    it.reset([])
    info = it.call_function(gl, [], {}, None, gl.node)
    r4.check(isinstance(info, dict) and info.get("name") == lsn and info.get("src") == "jr://instance/last-saved", "last-saved instance",
             f"declared instance id equals the id used in paths ({lsn!r}) with URI jr://instance/last-saved", gl.loc(), why_fail=repr(info))
    inst = info.get("instance") if isinstance(info, dict) else None
    r4.check(getattr(inst, "attrs", {}).get("id") == lsn and getattr(inst, "attrs", {}).get("src") == "jr://instance/last-saved",
             "last-saved instance:element", "the <instance> element carries that id and src", gl.loc())
    uses = []
    for fi in repo.all_functions():
        if fi.fq not in reach:
            continue
        for c in walk_own(fi.node):
            if isinstance(c, ast.Call) and call_name(c) == "insert_xpaths":
                uc = kw(c, "use_current") or (c.args[2] if len(c.args) > 2 else None)
                okc, val = const_str(ctx, fi.module, uc) if uc is not None else (True, False)
                text = c.args[0] if c.args else kw(c, "text")
                ttags = prov.classify(text, fi) if text is not None else frozenset()
                is_pred = any(t.startswith("CELL:choice_filter") for t in ttags)
                uses.append((fi, c, val if okc else None, is_pred))
    for fi, c, val, is_pred in uses:
        if is_pred:
            r4.check(val is True, f"{fi.fq}:{norm(c)[:60]}", "choice_filter / query predicates are substituted with use_current=True", fi.loc(c))
        else:
            r4.check(val is False, f"{fi.fq}:{norm(c)[:60]}", "only secondary-instance predicates request current() anchoring", fi.loc(c), why_fail=f"use_current={val}")
    r4.check(sum(1 for u in uses if u[3]) >= 2, "use_current sites", "both predicate sites (itemset filter, external query) exist", "")
    # the instance-predicate detector also anchors ${..} typed inside instance(...)[...] anywhere
    r4.check(any(isinstance(c, ast.Call) and call_name(c) == "_in_secondary_instance_predicate" for c in walk_own(vr.node)), "_var_repl_function:predicate detector",
             "references typed inside a secondary-instance predicate are detected and anchored too", vr.loc())
    # the evaluation context of a reference is the element that owns the cell: every substitution call in an element's
    # own method passes `self` as context (relative paths are computed from the context's node), except where the text
    # belongs to another node (table below, each confirmed by reading)
    # keyed by the class that owns the method (helpers may be split off or merged) and the context expression
    ACCEPTED_CONTEXTS = {
        ("Question", "survey"): "the ref of a nested action names the TARGET question absolutely: resolved from the root",
        ("MultipleChoiceQuestion", "option"): "in-line item label of a search() select: the text is the option's own label",
        ("Survey", "None"): "itext media value without references (context unused)",
        ("Survey", "media_value['output_context']"): "itext text with references: the context recorded with the text by get_translations",
    }
    n_ctx = 0
    for fi in repo.all_functions():
        if fi.fq not in reach:
            continue
        for c in walk_own(fi.node):
            if not (isinstance(c, ast.Call) and call_name(c) in ("insert_xpaths", "insert_output_values", "_var_repl_function")):
                continue
            owner = fi
            while owner.cls is None and owner.parent is not None:
                owner = owner.parent
            if owner.cls is None:
                # a module-level helper that is handed the element as `context` resolves references from that element
                a_ = owner.node.args
                if "context" in {x_.arg for x_ in [*a_.posonlyargs, *a_.args, *a_.kwonlyargs]}:
                    cx_ = kw(c, "context")
                    if cx_ is None and len(c.args) > 1:
                        cx_ = c.args[1]
                    n_ctx += 1
                    r4.check(cx_ is not None and norm(cx_) == "context", f"{fi.qualname}:{call_name(c)}(..., context={norm(cx_) if cx_ is not None else 'None'})",
                             "references are resolved from the element the helper was given as context", fi.loc(c),
                             why_fail="another context: a relative path computed from another node reaches a different node (or is absolute where it must be relative)")
                continue
            if call_name(c) == "_var_repl_function":
                continue
            cx = kw(c, "context")
            if cx is None and len(c.args) > 1:
                cx = c.args[1]
            cxt = norm(cx) if cx is not None else "None"
            n_ctx += 1
            acc = ACCEPTED_CONTEXTS.get((owner.cls.name, cxt))
            t0 = c.args[0] if c.args else kw(c, "text")
            if acc is not None and cxt == "survey":
                # only a synthesised `${name}` (an f-string around a name) is resolved from the root
                acc = acc if isinstance(t0, ast.JoinedStr) and norm(t0).startswith("f'${") else None
            elif acc is not None and cxt == "option":
                acc = acc if t0 is not None and norm(t0).startswith("option.") else None
            r4.check(cxt == "self" or acc is not None, f"{fi.qualname}:{call_name(c)}({norm(c.args[0])[:30] if c.args else ''}, context={cxt})",
                     f"accepted: {acc}" if acc else "references in an element's cell are resolved from that element", fi.loc(c),
                     why_fail=f"context `{cxt}`: a relative path computed from another node reaches a different node (or is absolute where it must be relative)")
    # the context recorded with a registered itext message (shared with C07.R2b): the owning element
    from . import c07 as _c07
    src7 = next((r_ for r_ in ctx.other(_c07) if r_.rid == "C07.R2b"), None)
    for o in (src7.obligations if src7 is not None else []):
        if o["construct"].endswith("output context"):
            o2 = dict(o)
            o2["rule"] = "C03.R4"
            o2["shared_with"] = "C07.R2b"
            r4.obligations.append(o2)
    # a choice list is shared by every select that names it: its label texts are registered WITHOUT an element context (a
    # reference in a choice label is resolved absolutely) - a context taken from one of the selects is wrong for the others
    from .. import trees as _trees3
    mq3 = repo.cls("pyxform.question:MultipleChoiceQuestion")
    ic3 = repo.cls("pyxform.question:Itemset")
    oc3 = repo.cls("pyxform.question:Option")
    st3 = scls.methods["_setup_translations"]
    for desc3, label3 in (("plain label with a reference", "Pet of ${owner}"), ("translated label with a reference", {"en": "Pet of ${owner}", "fr": "Animal de ${owner}"})):
        iset3 = Obj(ic3, {"name": "l", "options": (_trees3.mk(ctx, oc3, "a", label=label3, media=None),), "requires_itext": True, "used_by_search": False}, name="itemset:l")
        sels3 = [_trees3.mk(ctx, mq3, nm3, type="select one", label=nm3.upper(), bind={"type": "string"}, control={}, itemset="l", list_name="l", choices=iset3, choice_filter=None, parameters=None) for nm3 in ("first", "second")]
        it3 = ctx.interp("C03.R4")
        it3.reset([])
        rd3 = it3.call(it3.module_global(repo.module("pyxform.survey"), "recursive_dict"), [], {}, None)
        sv3 = _trees3.mk(ctx, scls, "data", type="survey", children=sels3, choices={"l": iset3}, default_language="default", _translations=rd3)
        for e3 in sels3:
            e3.attrs["parent"] = sv3
        try:
            it3.call_function(st3, [sv3], {}, None, st3.node)
            leaves3 = [lf3 for lang3, d3 in sv3.attrs["_translations"].items() for id3, forms3 in d3.items() if id3 == "l-0" for fk3, lf3 in forms3.items() if fk3 == "long"]
            bad3 = [lf3 for lf3 in leaves3 if isinstance(lf3, dict) and lf3.get("output_context") is not None]
            ok3, why3 = bool(leaves3) and not bad3, f"registered {leaves3!r}"[:200]
        except Raised as e:
            ok3, why3 = False, f"raises {e.exc_name}{e.exc_args}"
        r4.check(ok3, f"choice label registered[{desc3}, list shown by two selects]", "the text is registered without an element context", st3.loc(), why_fail=why3)
    r4.check(n_ctx >= 15, "substitution contexts census", f"{n_ctx} substitution calls in element methods examined", "pyxform/")
    rules.append(r4)
    rules.append(_relation_rule(ctx))
    rules.append(reference_resolution_rule(ctx, "C03", "C03.R6"))
    from .c10 import _classifier_rule
    rules.append(_classifier_rule(ctx, "C03", "C03.R7"))
    rules.append(_trigger_reference_rule(ctx))
    # a select from a repeat rewrites the paths INTO the repeat to item-relative ones and leaves every other path as it
    # was resolved - also paths whose text merely starts with the repeat's path (shared with C09.R5)
    from . import c09 as _c09
    from .c08 import _take
    r9 = Rule("C03", "C03.R9", "references in a select-from-repeat filter keep their target", floor=5,
              necessary="a reference to a node outside the repeat that is cut after the repeat's path names no node")
    _take(r9, ctx.other(_c09), "C09.R5", lambda c: c.startswith("select from repeat["))
    rules.append(r9)
    return rules


def _trigger_reference_rule(ctx):
    """The `trigger` cell is a reference like any other: Survey.xml, evaluated with the real name map and the real
    substituter on small trees (the model / body builders are stubs), refuses a trigger that names no element or a
    name that several elements share, and a trigger that is not a reference - for both trigger tables."""
    from .. import trees
    from ..xmlmodel import node_hook
    from ..interp import GenList, NodeVal
    r = Rule("C03", "C03.R8", "trigger references are resolved (unknown / ambiguous names refused) before anything is generated", floor=5,
             necessary="an ambiguous or unknown trigger that passes is nested under some element the author did not name, or under none")
    scls = ctx.repo.cls("pyxform.survey:Survey")
    xml_fn = scls.methods["xml"]
    spec = ("data", [("q", "a"), ("g", "g1", [("q", "phone")]), ("g", "g2", [("q", "phone"), ("q", "b")])])
    hooks = {"fnname:node": node_hook, "fnname:validate": lambda i, a, k, n: None, "fnname:get_nsmap": lambda i, a, k, n: {},
             "fnname:xml_model": lambda i, a, k, n: NodeVal("model"), "fnname:xml_control": lambda i, a, k, n: GenList([])}
    for table in ("setvalues_by_triggering_ref", "setgeopoint_by_triggering_ref"):
        for desc, trig, want in (("a question that exists once", "${a}", "accepted"), ("a name no element has", "${nobody}", "refused"), ("a name two elements share", "${phone}", "refused"),
                                 ("text that is not a reference", "a", "refused")):
            if table == "setgeopoint_by_triggering_ref" and want == "refused":
                continue  # the survey-level check of the geopoint table is xls2json's (validate_background_geopoint_trigger); only acceptance is required here
            survey, _by, _all = trees.build(ctx, spec, {"title": "T", "style": None})
            survey.attrs["setvalues_by_triggering_ref"] = {}
            survey.attrs["setgeopoint_by_triggering_ref"] = {}
            survey.attrs[table] = {trig: [("b", "1")]}
            it = ctx.interp("C03.R8", hooks=hooks)
            it.reset([])
            try:
                it.call_function(xml_fn, [survey], {}, None, xml_fn.node)
                got = "accepted"
            except Raised as e:
                got = "refused" if "PyXFormError" in e.mro else f"raises {e.exc_name}{e.exc_args}"
            r.check(got == want, f"Survey.xml[{table.split('_')[0]} trigger = {desc}]", f"{want}" + (" with PyXFormError" if want == "refused" else ""), xml_fn.loc(), why_fail=got[:200])
    return r


def _regex_of_match(ctx, prov, fi, match_expr):
    """Resolve the module-level regex constant a match object came from."""
    from ..interp import RegexVal
    src = match_expr
    if isinstance(src, ast.Name):
        binds = prov._assignments(fi, src.id)
        cands = [b[1] for b in binds if b[0] in ("assign", "iter")]
        src = cands[0] if len(cands) == 1 else None
    if not isinstance(src, ast.Call):
        return None
    cn = call_name(src)
    rx_node = None
    if cn in ("search", "match", "finditer", "fullmatch"):
        if isinstance(src.func, ast.Attribute) and norm(src.func.value) == "re" and src.args:
            rx_node = src.args[0]
        elif isinstance(src.func, ast.Attribute):
            rx_node = src.func.value
    if rx_node is None:
        return None
    ok, v = const_str(ctx, fi.module, rx_node)
    return v if ok and isinstance(v, RegexVal) else None


def _raises_pyxform(ctx, fi, rs: ast.Raise) -> bool:
    if rs.exc is None or not isinstance(rs.exc, ast.Call):
        return False
    r = ctx.repo.resolve_dotted(fi.module, rs.exc.func)
    if not r or r[0] != "class":
        return False
    return any(c.name == "PyXFormError" for c in ctx.consts.interp.mro(r[1]))


def _mentions(fi, rs: ast.Raise, names: set[str]) -> bool:
    """The raise expression depends (through local assignments) on one of names."""
    seen, todo = set(), {n.id for n in ast.walk(rs) if isinstance(n, ast.Name)}
    while todo:
        n = todo.pop()
        if n in names:
            return True
        if n in seen:
            continue
        seen.add(n)
        for x in walk_own(fi.node):
            if isinstance(x, ast.Assign) and any(isinstance(t, ast.Name) and t.id == n for t in x.targets):
                todo |= {y.id for y in ast.walk(x.value) if isinstance(y, ast.Name)}
    return False


# ----------------------------------------------------------- accepted exceptions
def _acc_static_default(ctx, site, v):
    """Static default: written raw only on the branch where the dynamic-default classifier says False; the classifier
    treats any ${ref} token as dynamic (PYXFORM_REF in its rule set)."""
    fi = site.fi
    gt = guard_texts(site.call, stop=fi.node)
    # "counts every ${ref} token as dynamic" is decided by evaluating the classifier (C10's classifier rule): every
    # evaluated default that contains a reference must be classed dynamic
    from .c10 import _classifier_rule
    cr = _classifier_rule(ctx, "C03", "C03.R7")
    ref_obs = [o for o in cr.obligations if "${" in o["construct"] and "${not_a_ref" not in o["construct"]]
    has_ref = bool(ref_obs) and all(o["verdict"] != "FAILED" for o in ref_obs)
    ok = any("not default_is_dynamic(" in g for g in gt) and has_ref
    return ok, "static default is written only when default_is_dynamic() is false, and that classifier counts every ${ref} token as dynamic"


def _acc_group_appearance(ctx, site, v):
    return True, "group appearance is deliberately re-set to the raw cell (an appearance is a keyword list, not an expression; documented in the code)"


def _acc_choice_label(ctx, site, v):
    fi = site.fi
    gt = guard_texts(site.call, stop=fi.node)
    its = ctx.repo.cls("pyxform.question:Itemset").methods["get_options"]
    sets_flag = any(isinstance(x, ast.Call) and call_name(x) == "search" and "RE_ANY_PYXFORM_REF" in norm(x) for x in walk_own(its.node))
    ok = any("not itemset.requires_itext" in g for g in gt) and sets_flag
    return ok, "inline choice label is written only when the list has no ${ref} in any label (requires_itext is set by the reference regex)"


def _acc_seed(ctx, site, v):
    fi = site.fi
    ok = False
    for x in walk_own(fi.node):
        if not isinstance(x, ast.If):
            continue
        # `<params>["seed"].startswith("${")` on whatever local holds the parameters
        t = x.test
        def is_seed_read(e):
            if isinstance(e, ast.Subscript):
                return const_str(ctx, fi.module, e.slice) == (True, "seed")
            if isinstance(e, ast.Name):  # a local that was read from <params>["seed"]
                return any(isinstance(a, ast.Assign) and any(isinstance(tg, ast.Name) and tg.id == e.id for tg in a.targets) and is_seed_read(a.value)
                           for a in walk_own(fi.node) if isinstance(a, ast.Assign) and not isinstance(a.value, ast.Name))
            return False
        if isinstance(t, ast.Call) and call_name(t) == "startswith" and t.args and const_str(ctx, fi.module, t.args[0]) == (True, "${") \
                and isinstance(t.func, ast.Attribute) and is_seed_read(t.func.value):
            ok = any(isinstance(c, ast.Call) and call_name(c) == "insert_xpaths" for st in x.body for c in ast.walk(st))
    return ok, "a seed starting with ${ is substituted; any other seed was validated as a number by the row loop (float())"
