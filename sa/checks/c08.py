"""C08 — each language shows exactly the text written for it (PARTIAL: the structural / bounded clauses only).

The property as a whole is a value-level bijection (row x translatable column x language -> shown text) over every
workbook, which no static argument in reach decides.  What IS decided here, exhaustively over small enumerated domains
by abstract evaluation of the functions that implement the mapping (never by running a conversion):

* R1  texts are filed under their own language: for every combination of {absent, empty, text, text+reference,
      per-language dict} label x media x hint x guidance hint of a question, each text the author wrote is written
      inline or filed in the translations under exactly its own language (shared with C07.R2);
* R2  a choice is shown its own label: item ids and text ids are positions in the same whole list, also around a
      choice without a label (shared with C07.R1);
* R3  where nothing was written the entry is the '-' placeholder and nothing else is touched: all 256 presence patterns
      of 2 languages x 2 ids x 2 forms through the padder (shared with C07.R3);
* R4  which cell lands under which language does not depend on the order of the columns: every permutation of small
      column sets mixing plain / translated / nested spellings through the header grouping (shared with C13.R7);
* R5  unsuffixed cells are grouped under the very language the survey treats (and marks) as default, for every
      combination of the default_language setting and argument (shared with C11.R3 / C11.R6).

These are necessary conditions of C08 - breaking one shows a user of some language another text, or none.
"""

from __future__ import annotations

from ..report import Rule

EXPLANATION = (
    "PARTIAL. Bounded-exhaustive abstract evaluation (the analyser's own evaluator on attribute-bag elements; pyxform is "
    "never imported or run) of the functions that decide which text a language is shown: get_translations / "
    "_setup_translations / _setup_media for every label x media x hint x guidance shape of a question; the choice id "
    "enumeration on both sides; the padder over all 256 presence patterns; process_header / process_row / merge_dicts over "
    "every permutation of small mixed column sets; the resolution of the grouping language against the survey's default "
    "language over setting x argument combinations."
)
NOT_DECIDED = ("the property itself: that for EVERY workbook every (row, translatable column, language) cell is shown to that language - only the "
               "enumerated shapes are evaluated; group / repeat labels, constraint / required messages per language beyond C07's emit=>register, "
               "media values per language, delimiter styles other than '::' and ':' as evaluated by C13.R3")
ASSUMPTIONS = ["the evaluated shapes are representative only of themselves (bounded domains, printed in each obligation)",
               "summaries of the node factory / substituter record flows only"]


def _take(rule_out: Rule, rules, rid: str, pred):
    src = next((r for r in rules if r.rid == rid), None)
    if src is None:
        return
    for o in src.obligations:
        if pred(o["construct"]):
            o2 = dict(o)
            o2["rule"] = rule_out.rid
            o2["shared_with"] = rid
            rule_out.obligations.append(o2)


def run(ctx):
    from . import c07, c11, c13
    r07 = c07.run(ctx)
    r11 = c11.run(ctx)
    rules = []
    r1 = Rule("C08", "C08.R1", "each text a question carries is filed under its own language (or written inline)", floor=100,
              necessary="a label / hint / guidance text filed under another language, or dropped, is shown to the wrong users or to nobody")
    _take(r1, r07, "C07.R2", lambda c: c.endswith(":texts kept"))
    rules.append(r1)
    r2 = Rule("C08", "C08.R2", "each choice is shown its own label", floor=1,
              necessary="text ids numbered over a different sequence than the items' ids show the next row's label")
    _take(r2, r07, "C07.R1", lambda c: c == "choice texts under their own id")
    rules.append(r2)
    r3 = Rule("C08", "C08.R3", "missing entries are the '-' placeholder, existing ones are untouched (all presence patterns)", floor=1,
              necessary="a language without an entry would fall back to another language's text")
    _take(r3, r07, "C07.R3", lambda c: c.startswith("_add_empty_translations"))
    rules.append(r3)
    r4 = c13.column_order_rule(ctx, "C08", "C08.R4", {k: v for k, v in c13.COLUMN_SETS.items() if "label" in k or "hint" in k or "image" in k})
    r4.title = "which language a cell lands under does not depend on column order"
    rules.append(r4)
    r5 = Rule("C08", "C08.R5", "unsuffixed cells are grouped under the survey's default language", floor=10,
              necessary="two different resolutions of the default language file the unsuffixed texts under a language that is not the default")
    _take(r5, r11, "C11.R3", lambda c: c.startswith("grouping language["))
    _take(r5, r11, "C11.R6", lambda c: True)
    rules.append(r5)
    return rules
