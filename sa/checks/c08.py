"""C08 — each language shows exactly the text written for it (PARTIAL: the structural / bounded clauses only).

The property as a whole is a value-level bijection (row x translatable column x language -> shown text) over every
workbook, which no static argument in reach decides.  What IS decided here, exhaustively over small enumerated domains
by abstract evaluation of the functions that implement the mapping (never by running a conversion):

* R1  texts are filed under their own language: for every combination of {absent, empty, text, text+reference,
      per-language dict} label x media x hint x guidance hint of a question, each text the author wrote is written
      inline or filed in the translations under exactly its own language (shared with C07.R2);
* R2  a choice is shown its own label: item ids and text ids are positions in the same whole list, also around a
      choice without a label (shared with C07.R1);
* R3  where nothing was written the entry is the '-' placeholder and nothing else is touched: all 256 presence patterns
      of 2 languages x 2 ids x 2 forms through the padder (shared with C07.R3);
* R4  which cell lands under which language does not depend on the order of the columns: every permutation of small
      column sets mixing plain / translated / nested spellings through the header grouping (shared with C13.R7);
* R5  unsuffixed cells are grouped under the very language the survey treats (and marks) as default, for every
      combination of the default_language setting and argument (shared with C11.R3 / C11.R6).

These are necessary conditions of C08 - breaking one shows a user of some language another text, or none.
"""

from __future__ import annotations

from ..report import Rule

EXPLANATION = (
    "PARTIAL. Bounded-exhaustive abstract evaluation (the analyser's own evaluator on attribute-bag elements; pyxform is "
    "never imported or run) of the functions that decide which text a language is shown: get_translations / "
    "_setup_translations / _setup_media for every label x media x hint x guidance shape of a question; the choice id "
    "enumeration on both sides; the padder over all 256 presence patterns; process_header / process_row / merge_dicts over "
    "every permutation of small mixed column sets; the resolution of the grouping language against the survey's default "
    "language over setting x argument combinations."
)
NOT_DECIDED = ("the property itself: that for EVERY workbook every (row, translatable column, language) cell is shown to that language - only the "
               "enumerated shapes are evaluated; group / repeat labels, constraint / required messages per language beyond C07's emit=>register, "
               "media values per language, delimiter styles other than '::' and ':' as evaluated by C13.R3")
ASSUMPTIONS = ["the evaluated shapes are representative only of themselves (bounded domains, printed in each obligation)",
               "summaries of the node factory / substituter record flows only"]


def _take(rule_out: Rule, rules, rid: str, pred):
    src = next((r for r in rules if r.rid == rid), None)
    if getattr(rules, "broken", None):
        rule_out.floor = 0
        rule_out.note(f"the analysis these obligations are shared from stopped early ({rules.broken}); what it had completed is kept, the floor is waived")
    if src is None:
        return
    for o in src.obligations:
        if pred(o["construct"]):
            o2 = dict(o)
            o2["rule"] = rule_out.rid
            o2["shared_with"] = rid
            rule_out.obligations.append(o2)


def run(ctx):
    from . import c07, c11, c13
    r07 = ctx.other(c07)
    r11 = ctx.other(c11)
    rules = []
    r1 = Rule("C08", "C08.R1", "each text a question carries is filed under its own language (or written inline)", floor=100,
              necessary="a label / hint / guidance text filed under another language, or dropped, is shown to the wrong users or to nobody")
    _take(r1, r07, "C07.R2", lambda c: c.endswith(":texts kept"))
    rules.append(r1)
    r2 = Rule("C08", "C08.R2", "each choice is shown its own label", floor=1,
              necessary="text ids numbered over a different sequence than the items' ids show the next row's label")
    _take(r2, r07, "C07.R1", lambda c: c == "choice texts under their own id" or c.startswith("search() in-line items"))
    rules.append(r2)
    r3 = Rule("C08", "C08.R3", "missing entries are the '-' placeholder, existing ones are untouched (all presence patterns)", floor=1,
              necessary="a language without an entry would fall back to another language's text")
    _take(r3, r07, "C07.R3", lambda c: c.startswith("_add_empty_translations"))
    rules.append(r3)
    r4 = c13.column_order_rule(ctx, "C08", "C08.R4", {k: v for k, v in c13.COLUMN_SETS.items() if "label" in k or "hint" in k or "image" in k})
    r4.title = "which language a cell lands under does not depend on column order"
    from .c12 import spacer_column_obligations
    spacer_column_obligations(ctx, r4, "C08.R4")
    # translated bind messages written with the bind group (bind::jr:constraintMsg::French): the attribute name keeps its
    # spelling and the language its place (shared with C13.R3's header cases)
    _take(r4, ctx.other(c13), "C13.R3", lambda c: (c.startswith("process_header[") and ("jr:" in c or "::fr" in c or "image" in c))
          or c.startswith("dealias_and_group_headers[language names") or c.startswith("dealias_and_group_headers[the same language"))
    rules.append(r4)
    r5 = Rule("C08", "C08.R5", "unsuffixed cells are grouped under the survey's default language", floor=10,
              necessary="two different resolutions of the default language file the unsuffixed texts under a language that is not the default")
    _take(r5, r11, "C11.R3", lambda c: c.startswith("grouping language["))
    _take(r5, r11, "C11.R6", lambda c: True)
    _take(r5, r07, "C07.R2b", lambda c: c.endswith(":default language"))
    rules.append(r5)
    rules.append(_loop_template_rule(ctx))
    rules.append(_recollect_rule(ctx))
    rules.append(_constructor_texts_rule(ctx))
    return rules


def _constructor_texts_rule(ctx):
    """The question constructor merges the question type's defaults into the author's values.  For the display texts the
    merge must be all-or-nothing: the author's value (a string or a per-language dict) exactly as written, or the type's
    default when the author wrote nothing — a type default folded into the author's per-language dict is a text for a
    language the author did not write it for."""
    import itertools
    from ..interp import Obj, Raised
    r = Rule("C08", "C08.R8", "the question constructor stores the author's display texts exactly (type defaults never merged into them)", floor=30,
             necessary="a type default merged under a language key is shown to that language's users instead of the '-' placeholder")
    repo = ctx.repo
    qc = repo.cls("pyxform.question:Question")
    init = qc.methods["__init__"]
    VALUES = {"absent": None, "text": "Written", "one language": {"fr": "Écrit"}, "two languages": {"en": "Written", "fr": "Écrit"}, "default language key": {"default": "W"}}
    for slot, with_default in itertools.product(("hint", "label", "guidance_hint"), (False, True)):
        for vn, v in VALUES.items():
            qtd = {"t": {"bind": {"type": "int"}, "control": {"tag": "input"}}}
            if with_default:
                qtd["t"][slot] = "Type text"
            kw = {"name": "q", "type": "t", "question_type_dictionary": qtd}
            if v is not None:
                kw[slot] = dict(v) if isinstance(v, dict) else v
            it = ctx.interp("C08.R8", inline=lambda fi: True)
            it.reset([])
            o = Obj(qc, {}, name="q")
            try:
                it.call_function(init, [o], kw, None, None)
                got = o.attrs.get(slot)
            except Raised as e:
                got = f"raises {e.exc_name}"
            want = v if v is not None else ("Type text" if with_default else None)
            r.check(got == want, f"Question({slot}={vn}, type default {'present' if with_default else 'absent'})", f"the stored {slot} is the author's value, else the type default", init.loc(),
                    why_fail=f"stored {got!r}, expected {want!r}")
    return r


def _recollect_rule(ctx):
    """A Survey object may be rendered, edited and rendered again (the builder API): the texts shown are the ones the
    tree carries at the time of each render.  The collectors are evaluated, a label / hint / choice label is edited,
    and they are evaluated again on the same object: every language must now be given the new text."""
    from ..interp import Obj, Raised
    from .c07 import _hooks, _mk
    repo = ctx.repo
    r = Rule("C08", "C08.R7", "texts are collected afresh on every render of the same survey object", floor=4,
             necessary="texts memoised from an earlier render keep showing every language the text that was edited away")
    scls = repo.cls("pyxform.survey:Survey")
    qcls = repo.cls("pyxform.question:InputQuestion")
    ocls = repo.cls("pyxform.question:Option")
    icls = repo.cls("pyxform.question:Itemset")
    xp = {"q1": "/data/q1", "data": "/data"}
    it = ctx.interp("C08.R7", hooks=_hooks(xp))
    it.reset([])
    rd = it.call(it.module_global(repo.module("pyxform.survey"), "recursive_dict"), [], {}, None)
    q = _mk(ctx, qcls, "q1", label={"en": "Old label", "fr": "Vieux"}, hint={"en": "Old hint"}, media=None, guidance_hint=None, type="text", bind={"type": "string"}, control={"tag": "input"})
    opts = tuple(_mk(ctx, ocls, f"o{i}", label={"en": f"Old {i}"}, media=None) for i in range(2))
    iset = Obj(icls, {"name": "lst", "options": opts, "requires_itext": True, "used_by_search": False}, name="itemset")
    s = _mk(ctx, scls, "data", children=[q], default_language="default", choices={"lst": iset}, _translations=rd, type="survey", setvalues_by_triggering_ref={}, setgeopoint_by_triggering_ref={})
    q.attrs["parent"] = s

    def collect():
        it.call_function(scls.methods["_setup_translations"], [s], {}, None, None)
        it.call_function(scls.methods["_setup_media"], [s], {}, None, None)
        it.call_function(scls.methods["_add_empty_translations"], [s], {}, None, None)
        return s.attrs["_translations"]

    def shown(tr, lang, path, form="long"):
        v = ((tr.get(lang) or {}).get(path) or {}).get(form)
        return v.get("text") if isinstance(v, dict) else v

    try:
        t1 = collect()
        first = (shown(t1, "en", "/data/q1:label"), shown(t1, "en", "/data/q1:hint"), shown(t1, "en", "lst-0"))
        q.attrs["label"] = {"en": "New label", "fr": "Nouveau"}
        q.attrs["hint"] = {"en": "New hint"}
        opts[0].attrs["label"] = {"en": "New 0"}
        t2 = collect()
        second = (shown(t2, "en", "/data/q1:label"), shown(t2, "fr", "/data/q1:label"), shown(t2, "en", "/data/q1:hint"), shown(t2, "en", "lst-0"), shown(t2, "en", "lst-1"))
    except Raised as e:
        r.fail("collect / edit / collect", f"collectors evaluate ({e.exc_name}{e.exc_args})", scls.methods["_setup_translations"].loc())
        return r
    r.check(first == ("Old label", "Old hint", "Old 0"), "first render", "the first collection registers the texts of the tree", scls.methods["_setup_translations"].loc(), why_fail=repr(first))
    for what, got, want in (("question label [en]", second[0], "New label"), ("question label [fr]", second[1], "Nouveau"), ("question hint [en]", second[2], "New hint"),
                            ("choice label [en]", second[3], "New 0"), ("untouched choice label [en]", second[4], "Old 1")):
        r.check(got == want, f"second render: {what}", f"shows {want!r}, the text the tree carries now", scls.methods["_setup_translations"].loc(), why_fail=f"shows {got!r}")
    return r


def _loop_template_rule(ctx):
    """`begin loop over <list>`: each child's texts are templates filled per choice.  With per-language choice labels the
    text of language L must be filled with the choice's label in L (and the name with the choice's name), for every
    language, and the caller's template and choice must come out unchanged."""
    import copy
    from ..interp import Raised
    r = Rule("C08", "C08.R6", "loop templates are filled per language with that language's choice label", floor=6,
             necessary="a substitution table shared between languages shows every language the last language's choice label")
    fn = ctx.func("pyxform.builder:SurveyElementBuilder._name_and_label_substitutions", "C08.R6")
    cases = {
        "two languages": ({"name": "%(name)s_count", "type": "integer", "label": {"en": "How many %(label)s?", "fr": "Combien de %(label)s ?"}, "hint": {"en": "count %(label)s", "fr": "compter %(label)s"}},
                          {"name": "apple", "label": {"en": "apples", "fr": "pommes"}}),
        "three languages, template lacks one": ({"name": "q_%(name)s", "label": {"en": "E %(label)s", "es": "S %(label)s"}},
                                               {"name": "b", "label": {"en": "eb", "fr": "fb", "es": "sb"}}),
        "plain choice label": ({"name": "%(name)s_n", "label": {"en": "How many %(label)s?", "fr": "Combien de %(label)s ?"}}, {"name": "pear", "label": "pears"}),
        "plain template": ({"name": "%(name)s_n", "label": "Number of %(name)s"}, {"name": "fig", "label": {"en": "figs", "fr": "figues"}}),
    }
    for desc, (tmpl, choice) in cases.items():
        t0, c0 = copy.deepcopy(tmpl), copy.deepcopy(choice)
        it = ctx.interp("C08.R6")
        it.reset([])
        try:
            out = it.call_function(fn, [tmpl, choice], {}, None, fn.node)
        except Raised as e:
            r.fail(f"loop template[{desc}]", f"substitution evaluates ({e.exc_name}{e.exc_args})", fn.loc())
            continue
        want = {}
        for k, v in t0.items():
            if isinstance(v, str):
                want[k] = v % c0
            elif isinstance(v, dict):
                want[k] = {lang: text % ({"name": c0["name"], "label": c0["label"][lang]} if isinstance(c0["label"], dict) and lang in c0["label"] else c0) for lang, text in v.items()}
            else:
                want[k] = v
        r.check(out == want, f"loop template[{desc}]", "every language's text is filled with that language's choice label", fn.loc(), why_fail=f"got {out!r}, expected {want!r}")
        r.check(tmpl == t0 and choice == c0, f"loop template[{desc}]:inputs", "the shared template and the choice are left unchanged (they are reused for the next choice)", fn.loc(),
                why_fail=f"template now {tmpl!r}")
    return r
