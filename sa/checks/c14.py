"""C14 — conversion is a pure function of its input (effects, memoisation, ordering, shared state)."""

from __future__ import annotations

import ast

from ..astutil import call_name, const_str, guard_texts
from ..callgraph import CallGraph
from ..effects import (MUTATORS, comprehension_consumer, local_aliases_of_global, module_mutables, param_mutation_summary,
                       refers_to_global, root_name, set_iterations, writes_in)
from ..loader import AnalysisError, ancestors, norm, parent, walk_own
from ..report import Rule
from .c18 import check_temp_pairing, temp_sites

EXPLANATION = (
    "Effect analysis over the whole package: census of module-level mutable objects and of every function that may "
    "write them (directly, through local aliases, or by passing them to a parameter-mutating function); purity of "
    "every lru_cache'd function in its parameters and non-mutation of the shared values they return; every write to "
    "survey/element state reachable from XML generation must be an overwrite independent of the previous value (or a "
    "reasoned read-modify-write); every iteration over a set-typed value must end in an order-insensitive consumer, a "
    "sorted(), or a reasoned exception; temp-file release on all exits (shared with C18.R1); module-level instances "
    "of classes with per-call instance state (re.Scanner) must not be shared without a lock; writes through "
    "caller-owned input dicts."
)
NOT_DECIDED = ("byte equality of outputs as such (implied by the absence of the enumerated sources of nondeterminism, not computed); "
               "nondeterminism inside third-party parsers (openpyxl/xlrd); dict ordering derived from input order is deterministic by language definition")
ASSUMPTIONS = [
    "set iteration order of str depends on PYTHONHASHSEED; dict preserves insertion order; functools.lru_cache is thread-safe and keeps strong references to keys",
    "re.Scanner.scan stores the current match on the instance (CPython Lib/re/__init__.py) and is therefore not re-entrant across threads",
    "call resolution is by name (class-hierarchy analysis); an unresolved dynamic call could hide a writer",
]

# (function qualname, normalised iterated expression) -> reason.  Each entry was confirmed by reading.
ACCEPTED_SET_ITER = {
    ("Survey._setup_translations", "search_lists"): "only selects which of several equivalent PyXFormErrors is raised first; no successful output depends on it",
    ("Survey._setup_translations", "non_search_lists"): "orders the question names quoted inside that same PyXFormError message only; no successful output depends on it",
    ("workbook_to_json", "setcomp lang over c[constants.LABEL], itemset_choices"):
        "keys of the generated 'other' label: every language in the set was already inserted into the translations map, in sheet order, by the list's earlier choices; the label dict's own order is never serialised",
    ("dealias_and_group_headers", "missing"): "at most one required header at every call site (checked below by folding the headers_required arguments), so the joined message has one element",
    ("validate_list_name_extension", "EXTERNAL_INSTANCE_EXTENSIONS"): "text of an error message only; no successful conversion result depends on it",
    ("Translations._find_missing", "self.columns_seen"): "consumer format_missing_translations_msg sorts the columns of every language before joining (checked below)",
}

def _iter_key(expr):
    """Key of an iterated expression for the accepted table: a set comprehension is keyed by what it yields and what it
    ranges over (its filters only shrink the set, so they are not part of the identity); anything else by its text."""
    if isinstance(expr, ast.SetComp):
        return f"setcomp {norm(expr.elt)} over " + ", ".join(sorted(norm(g.iter) for g in expr.generators))
    return norm(expr)


ACCEPTED_RMW = {
    ("Survey.get_nsmap", "self.namespaces"): "appends the entities declaration again on every generation; duplicates collapse in the namespace dict (same key, same value), so regenerated XML is identical",
}


def _regeneration(ctx, r3):
    """Generating the body control of a search() select twice from the same element (Survey.xml() may be called any
    number of times): the second evaluation must succeed and build the same control.  Evaluated abstractly with the
    element state left behind by the first generation."""
    from ..interp import NodeVal, Obj, Raised
    from ..xmlmodel import node_hook
    from .c07 import _mk
    repo = ctx.repo
    scls = repo.cls("pyxform.survey:Survey")
    mq = repo.cls("pyxform.question:MultipleChoiceQuestion")
    ocls = repo.cls("pyxform.question:Option")
    icls = repo.cls("pyxform.question:Itemset")
    bx = mq.methods["build_xml"]
    ris = scls.methods["_redirect_is_search_itext"]
    for app in ("search('fruits')", "minimal"):
        opts = tuple(_mk(ctx, ocls, f"o{i}", label=f"L{i}", media=None) for i in range(2))
        iset = Obj(icls, {"name": "lst", "options": opts, "requires_itext": False, "used_by_search": False}, name="itemset")
        el = _mk(ctx, mq, "s1", control={"appearance": app}, itemset="lst", choices=iset, list_name="lst", type="select one", bind={"type": "string"}, label="S",
                 choice_filter=None, parameters=None)
        runs = []
        for rnd in (1, 2, 3):
            CTRL = NodeVal("select1")
            hooks = {"fnname:node": node_hook, "fnname:_build_xml": lambda i, a, k, n, C=CTRL: C,
                     "fnname:insert_xpaths": lambda i, a, k, n: "S[" + str([x for x in a if isinstance(x, str)][0]) + "]"}
            sv = Obj(scls, {"choices": {"lst": iset}}, name="survey")
            hooks["fnname:_redirect_is_search_itext"] = None
            hooks.pop("fnname:_redirect_is_search_itext")
            it = ctx.interp("C14.R3", hooks=hooks)
            it.reset([])
            try:
                red = it.call_function(ris, [sv], {"element": el}, None, ris.node)  # as _setup_translations does for every select
                it.call_function(bx, [el], {"survey": sv}, None, bx.node)
                runs.append(repr(red) + repr([(c.tag, sorted((k, str(v)) for k, v in c.attrs.items()), [g.tag for g in c.children if isinstance(g, NodeVal)]) for c in CTRL.children if isinstance(c, NodeVal)]))
            except Raised as e:
                runs.append(f"raises {e.exc_name}{e.exc_args}")
        r3.check(len(set(runs)) == 1 and not runs[0].startswith("raises"), f"regeneration[select, appearance={app!r}]",
                 "three successive generations of the same element build the same control", bx.loc(), why_fail=f"{runs}"[:300])


def _trigger_lookup_readonly(ctx, r3):
    """The trigger tables are the builder's defaultdict(list) objects handed to the survey: a lookup that indexes them
    (instead of .get) creates an entry for every question rendered, and the next generation resolves every such key as
    a trigger reference.  Evaluated: builder.__init__ + _save_trigger build the tables, the survey's lookup is called for
    triggering and non-triggering names, and the tables must be exactly as before."""
    from ..interp import Obj, Raised
    repo = ctx.repo
    bcls = repo.cls("pyxform.builder:SurveyElementBuilder")
    scls = repo.cls("pyxform.survey:Survey")
    look = scls.methods.get("get_trigger_values_for_question_name")
    if look is None:
        r3.fail("trigger lookup", "Survey.get_trigger_values_for_question_name exists (anchor)", "pyxform/survey.py")
        return
    for rows in ([{"name": "c1", "type": "calculate", "trigger": "${t}", "bind": {"calculate": "1"}}, {"name": "p", "type": "background-geopoint", "trigger": "${t}"}], []):
        it = ctx.interp("C14.R3")
        it.reset([])
        b = Obj(bcls, {}, name="builder")
        it.call_function(bcls.methods["__init__"], [b], {}, None, None)
        for d in rows:
            it.call_function(bcls.methods["_save_trigger"], [b], {"d": d}, None, None)
        sv = Obj(scls, {"setvalues_by_triggering_ref": b.attrs.get("setvalues_by_triggering_ref"), "setgeopoint_by_triggering_ref": b.attrs.get("setgeopoint_by_triggering_ref")}, name="survey")
        before = ({k: list(v) for k, v in sv.attrs["setvalues_by_triggering_ref"].items()}, {k: list(v) for k, v in sv.attrs["setgeopoint_by_triggering_ref"].items()})
        outs = []
        try:
            for qn in ("t", "other", "c1"):
                for kind in ("setvalue", "setgeopoint"):
                    outs.append(it.call_function(look, [sv], {"question_name": qn, "trigger_type": kind}, None, look.node))
        except Raised as e:
            outs = f"raises {e.exc_name}{e.exc_args}"
        after = ({k: list(v) for k, v in sv.attrs["setvalues_by_triggering_ref"].items()}, {k: list(v) for k, v in sv.attrs["setgeopoint_by_triggering_ref"].items()})
        r3.check(isinstance(outs, list) and after == before, f"trigger lookup[{len(rows)} trigger row(s)]", "looking a question up leaves both trigger tables exactly as they were (no entry created by reading)", look.loc(),
                 why_fail=f"tables before {before} after {after}; lookups {outs!r}"[:300])
        if isinstance(outs, list) and rows:
            r3.check(outs[0] == [("c1", "1")] and outs[1] == [("p", "")] and not outs[2] and not outs[3], "trigger lookup[answers]", "the triggering question gets its actions, the others nothing", look.loc(), why_fail=repr(outs)[:200])


def module_state_obligations(ctx, r1, only_writers=None):
    """Every module-level mutable object (dict / list / set literals and constructors, instances of repository classes,
    objects of library classes such as a StringIO) and every function of the package that writes it.  `only_writers`
    restricts the report to writers satisfying the predicate (used by C15 for the serialiser classes)."""
    repo = ctx.repo
    funcs = [f for f in repo.all_functions()]
    pmut = param_mutation_summary(repo)
    muts = module_mutables(repo)
    ctx.count("module_level_mutables", len(muts))
    idents = {}
    for fi in funcs:
        ids = set()
        for n in walk_own(fi.node):
            if isinstance(n, ast.Name):
                ids.add(n.id)
            elif isinstance(n, ast.Attribute):
                ids.add(n.attr)
        idents[fi.fq] = ids
    for m, name, kind, st in muts:
        writers = []
        for fi in funcs:
            if name not in idents[fi.fq]:
                continue
            aliases = local_aliases_of_global(repo, fi, m, name)
            for x in walk_own(fi.node):
                if isinstance(x, ast.Global) and name in x.names and fi.module is m:
                    writers.append((fi, x, "global rebinding"))
            for wkind, tgt, node in writes_in(fi.node):
                if wkind == "augname":
                    continue
                if refers_to_global(repo, fi, tgt, m, name) or (root_name(tgt) in aliases):
                    writers.append((fi, node, wkind))
            if kind.startswith("external:"):
                # a library object: every method call on it (other than the known read-only ones) is a state change
                from ..effects import READ_ONLY_METHODS
                for c in walk_own(fi.node):
                    if isinstance(c, ast.Call) and isinstance(c.func, ast.Attribute) and c.func.attr not in READ_ONLY_METHODS and \
                            (refers_to_global(repo, fi, c.func.value, m, name) or (isinstance(c.func.value, ast.Name) and c.func.value.id in aliases)):
                        writers.append((fi, c, f"method {c.func.attr}() of a shared library object"))
                    elif isinstance(c, ast.Call) and any(refers_to_global(repo, fi, a_, m, name) and not isinstance(a_, ast.Call) for a_ in [*c.args, *[k_.value for k_ in c.keywords]]):
                        writers.append((fi, c, f"handed to {call_name(c)}() (a shared library object used as a per-call buffer)"))
            # passed to a parameter-mutating callee
            for c in walk_own(fi.node):
                if not isinstance(c, ast.Call):
                    continue
                for i, a in enumerate(c.args):
                    if refers_to_global(repo, fi, a, m, name) and not isinstance(a, ast.Call):
                        for g in [g for g in funcs if g.name == call_name(c)][:4]:
                            ga = g.node.args
                            gp = [x.arg for x in [*ga.posonlyargs, *ga.args]]
                            off = 1 if g.cls is not None and gp and gp[0] in ("self", "cls") and isinstance(c.func, ast.Attribute) else 0
                            if i + off < len(gp) and gp[i + off] in pmut.get(g.fq, ()):
                                writers.append((fi, c, f"passed to {g.qualname} which mutates parameter {gp[i + off]}"))
        key = f"{m.name}.{name}"
        if only_writers is not None:
            writers = [w for w in writers if only_writers(w[0])]
        if not writers:
            r1.ok(key, f"module-level {kind}: no function in the package writes it", f"{m.relpath}:{st.lineno}")
        for fi, node, how in writers:
            r1.fail(f"{key} <- {fi.fq}:{norm(node)[:50]}", f"module-level {kind} is written at run time ({how})", fi.loc(node))
    return muts


def run(ctx):
    repo = ctx.repo
    it0 = ctx.consts.interp
    rules = []
    cg = CallGraph(repo, it0)
    reach = cg.reachable(["pyxform.xls2xform:convert"])
    funcs = [f for f in repo.all_functions()]
    pmut = param_mutation_summary(repo)

    # ------------------------------------------------------------------ R1
    r1 = Rule("C14", "C14.R1", "no run-time writer of module-level mutable state", floor=25,
              necessary="a module-level table written during a conversion changes the result of the next conversion in the process")
    muts = module_state_obligations(ctx, r1)
    rules.append(r1)

    # ------------------------------------------------------------------ R1b
    r1b = Rule("C14", "C14.R1b", "module-level objects that escape into per-conversion data are never mutated afterwards", floor=1,
               necessary="a shared dict inserted by reference into one form's data and later edited in place leaks into every later form")
    mut_names = {(m.name, n) for m, n, k, s in muts}
    elem_mutators = []
    for fi in funcs:
        if fi.fq not in reach:
            continue
        for wkind, tgt, node in writes_in(fi.node):
            if wkind in ("store", "del", "mutator", "aug"):
                rn = root_name(tgt)
                # loop variables ranging over choice lists
                for a in ancestors(node):
                    if isinstance(a, ast.For) and isinstance(a.target, ast.Name) and a.target.id == rn and \
                            any(w in norm(a.iter) for w in ("choices", "options", "itemset_choices", "choice_list")):
                        elem_mutators.append((fi, node))
    for fi in funcs:
        if fi.fq not in reach:
            continue
        for c in walk_own(fi.node):
            if isinstance(c, ast.Call) and call_name(c) in ("append", "extend", "insert") and c.args:
                a = c.args[-1]
                r = repo.resolve_dotted(fi.module, a) if isinstance(a, ast.Name | ast.Attribute) else None
                if r and r[0] == "const" and (r[1].name, r[2]) in mut_names:
                    # mutations of choice elements must all precede (be called before) this escape in the same function,
                    # or live in functions called only before it
                    later = [(f2, n2) for f2, n2 in elem_mutators
                             if not (f2.name in ("validate_and_clean_choices",) or (f2 is fi and n2.lineno < c.lineno))]
                    r1b.check(not later, f"{fi.fq}:{norm(c)[:60]}", f"shared object {r[2]} is inserted by reference; no later in-place edit of list elements exists",
                              fi.loc(c), why_fail=f"in-place edits: {[(f.fq, norm(n)[:40]) for f, n in later]}")
    if not r1b.obligations:
        r1b.ok("escape census", "no module-level mutable object is inserted by reference into conversion data", "")
    rules.append(r1b)

    # ------------------------------------------------------------------ R2
    r2 = Rule("C14", "C14.R2", "memoised functions are pure in their parameters; shared results are not mutated", floor=5,
              necessary="a cache keyed on less than what the result depends on returns a stale answer to a later conversion")
    cached = [f for f in funcs if any("lru_cache" in norm(d) or norm(d) in ("cache", "functools.cache") for d in f.node.decorator_list)]
    mutable_globals = {(m.name, n) for m, n, k, s in muts}
    for f in cached:
        a = f.node.args
        params = [x.arg for x in [*a.posonlyargs, *a.args, *a.kwonlyargs]]
        problems = []
        for wkind, tgt, node in writes_in(f.node):
            rn = root_name(tgt)
            if wkind == "augname":
                continue
            local_new = _locally_created(f, rn)
            if not local_new:
                problems.append(f"writes {norm(tgt)[:30]}")
        for n in walk_own(f.node):
            if isinstance(n, ast.Name) and isinstance(n.ctx, ast.Load) and n.id not in params:
                r = repo.resolve_name(f.module, n.id)
                if r and r[0] == "const" and (r[1].name, r[2]) in mutable_globals and r[2] not in ("XML_TEXT_SUBS", "XML_TEXT_TABLE", "LEXER_RULES"):
                    if r[2] == "_EXPRESSION_LEXER":
                        continue  # shared scanner: R6's subject
                    problems.append(f"reads mutable global {r[2]}")
            if isinstance(n, ast.Attribute) and isinstance(n.value, ast.Name) and n.value.id == "self":
                problems.append("reads self state")
        # file reads: a file shipped with the package (path anchored on a module constant derived from __file__) is
        # immutable data; a file NAMED BY AN ARGUMENT is external state that is not part of the cache key
        for n in walk_own(f.node):
            if isinstance(n, ast.Call) and (call_name(n) in ("open", "read_text", "read_bytes")):
                path_expr = n.args[0] if (call_name(n) == "open" and n.args) else (n.func.value if isinstance(n.func, ast.Attribute) else None)
                anchored = False
                if path_expr is not None:
                    from ..astutil import subst_locals
                    path_expr = subst_locals(path_expr, f.node)
                for nm in ast.walk(path_expr) if path_expr is not None else ():
                    if isinstance(nm, ast.Name):
                        r = repo.resolve_name(f.module, nm.id)
                        if r and r[0] == "const" and any("__file__" in norm(st) for st in r[1].assigns.get(r[2], [])):
                            anchored = True
                if not anchored:
                    problems.append(f"reads a file whose path is not anchored in the package ({norm(path_expr)[:30] if path_expr is not None else '?'}): its content is not part of the cache key")
        # a DOM node (or a survey element) has ONE parent: handing the same object to a second document / tree
        # detaches it from the first, so such objects must be built per call, never memoised
        for n in walk_own(f.node):
            if isinstance(n, ast.Call) and call_name(n) in ("node", "DetachableElement", "PatchedText", "Element", "createElement", "createTextNode", "parseString", "InstanceInfo"):
                problems.append(f"builds an XML node ({call_name(n)}(...)): the memoised object would be shared by every document that appends it")
        # a memoised GENERATOR function caches the generator object: it yields once and is exhausted for every later caller
        if any(isinstance(n, ast.Yield | ast.YieldFrom) for n in walk_own(f.node)):
            problems.append("is a generator function: the cached generator object is exhausted after its first consumer (later renders get nothing)")
        # a memoised function of an ELEMENT reads the element's cells, which may be edited between renders: the cache key (the
        # element's identity) does not change with them
        if any(p in ("element", "self") for p in params) and any(isinstance(n, ast.Attribute | ast.Subscript) and isinstance(n.value, ast.Name) and n.value.id in ("element", "self") for n in walk_own(f.node)):
            problems.append("reads cells of the element it is keyed on: the key (identity) does not change when a cell does")
        ident_params = [p for p in params if p in ("survey", "self", "element", "context")]
        r2.check(not problems, f"{f.fq}", "memoised function only reads its parameters, immutable constants and files shipped with the package; no writes",
                 f.loc(), why_fail="; ".join(problems))
        for p in ident_params:
            r2.ok(f"{f.fq}:param {p}", "identity-hashed key (SurveyElement.__hash__ = id): accepted — the cache keeps the key alive so an id is never reused, "
                  "and the result depends only on the tree reachable from the key, which is not restructured after construction (C02.R3)", f.loc())
        # shared mutable results: the cached object, and everything reached from it (an element drawn from it by a loop
        # or a subscript, a container built from such elements and returned to another function), is never written
        returns_mutable = any(isinstance(x, ast.Return) and x.value is not None and _maybe_mutable(x.value, f) for x in walk_own(f.node))
        if returns_mutable:
            carriers = {}          # functions whose result holds (parts of) the cached object
            for _round in range(3):
                grew = False
                for cf in funcs:
                    if cf is f or cf.name in carriers:
                        continue
                    sh, ho = _tainted_names(cf, {f.name}, set(carriers))
                    if not (sh or ho):
                        continue
                    if any(isinstance(x, ast.Return) and x.value is not None and (sh | ho) & {n.id for n in ast.walk(x.value) if isinstance(n, ast.Name)} for x in walk_own(cf.node)):
                        carriers[cf.name] = cf
                        grew = True
                if not grew:
                    break
            for cf in funcs:
                if cf is f:
                    continue
                sh, ho = _tainted_names(cf, {f.name}, set(carriers) - {cf.name})
                if not (sh or ho):
                    continue
                bad = []
                for wkind, tgt, node in writes_in(cf.node):
                    if wkind == "augname":
                        continue
                    rn = root_name(tgt)
                    if rn in sh:
                        bad.append(node)
                    elif rn in ho and isinstance(tgt, ast.Attribute | ast.Subscript) and isinstance(tgt.value, ast.Subscript | ast.Attribute):
                        bad.append(node)   # holder[i].attr = ... / holder[i][k] = ... : through an element
                via = sorted(c_ for c_ in carriers if any(isinstance(x, ast.Call) and call_name(x) == c_ for x in walk_own(cf.node)))
                r2.check(not bad, f"{cf.fq}:uses {f.name}()" + (f" via {', '.join(via)}" if via else ""),
                         "the shared (cached) result, and the objects drawn from it, are not mutated by this caller", cf.loc(),
                         why_fail=f"{[norm(b)[:50] for b in bad]}: the write lands in the memoised object and changes what the next caller with the same arguments is given")
    # object identity as data: id(x) is only unique among LIVE objects (CPython hands a collected survey's address to the
    # next one), so an id that outlives the function that took it - a key in a closure / module / object table - answers
    # a later conversion from an earlier one's entries.  Accepted: __hash__/__repr__/__str__ (the id never leaves the
    # object it names) and ids kept in containers created by the same call (visited sets).
    n_id = 0
    for f in funcs:
        for c in walk_own(f.node):
            if isinstance(c, ast.Call) and isinstance(c.func, ast.Name) and c.func.id == "id" and len(c.args) == 1:
                n_id += 1
                if f.name in ("__hash__", "__repr__", "__str__", "__unicode__"):
                    r2.ok(f"{f.fq}:id()", "identity stays with the object it names (hash / repr)", f.loc(c))
                    continue
                stores = set()
                for wkind, tgt, node in writes_in(f.node):
                    if wkind != "augname" and isinstance(tgt, ast.Subscript | ast.Attribute):
                        stores.add(root_name(tgt))
                for x in walk_own(f.node):
                    if isinstance(x, ast.Call) and isinstance(x.func, ast.Attribute) and x.func.attr in ("add", "append", "setdefault", "update", "insert", "extend") and isinstance(x.func.value, ast.Name):
                        stores.add(x.func.value.id)
                for x in walk_own(f.node):
                    if isinstance(x, ast.Return | ast.Yield) and x.value is not None and any(y is c for y in ast.walk(x.value)):
                        stores.add("<returned>")
                outliving = sorted(s_ for s_ in stores if s_ is not None and not _locally_created(f, s_))
                r2.check(not outliving, f"{f.fq}:id({norm(c.args[0])[:20]})", "an object's id does not outlive the call that took it (no identity-keyed table)", f.loc(c),
                         why_fail=f"kept in {outliving}: ids are reused once the object is collected, so a later survey is answered from an earlier one's entries")
    ctx.count("id_calls_inspected", n_id)
    rules.append(r2)

    # ------------------------------------------------------------------ R3
    r3 = Rule("C14", "C14.R3", "generation-time writes to survey/element state are idempotent", floor=8,
              necessary="a non-idempotent write makes the second to_xml() of the same survey differ from the first")
    gen_reach = cg.reachable(["pyxform.survey:Survey.xml"], all_live=True) & reach
    ctx.count("functions_reachable_from_generation", len(gen_reach))
    for fi in funcs:
        if fi.fq not in gen_reach or fi.name == "__init__":
            continue
        a = fi.node.args
        params = [x.arg for x in [*a.posonlyargs, *a.args, *a.kwonlyargs]]
        for wkind, tgt, node in writes_in(fi.node):
            rn = root_name(tgt)
            if wkind == "augname" or rn is None:
                continue
            if _locally_created(fi, rn) and rn not in params:
                continue
            owner = fi
            while owner.cls is None and owner.parent is not None:
                owner = owner.parent
            in_elem_cls = owner.cls is not None and any(k.name in ("SurveyElement", "Itemset") for k in it0.mro(owner.cls))
            is_state = (rn == "self" and in_elem_cls) or rn in ("element", "itemset", "opt", "survey", "item", "e", "child", "option", "context")
            if not is_state:
                continue
            key = f"{fi.fq}:{norm(node)[:60]}"
            acc = ACCEPTED_RMW.get((fi.qualname, norm(tgt)))
            if wkind == "store":
                val = node.value
                reads_prev = norm(tgt) in norm(val) and not _is_dict_init(node)
                if isinstance(val, ast.Call) and call_name(val) == "get" and norm(val.func.value) in norm(tgt):
                    reads_prev = False  # d[k] = d.get(k, {}) : creates-if-missing, idempotent
                r3.check(not reads_prev or acc is not None, key, "overwrite with a value that does not depend on the previous value" + (f" (accepted: {acc})" if acc else ""),
                         fi.loc(node))
            elif wkind == "aug":
                r3.check(acc is not None, key, f"read-modify-write of state during generation{' — accepted: ' + acc if acc else ''}", fi.loc(node))
            elif wkind == "mutator":
                m = node.func.attr
                if m in ("update", "setdefault", "add"):
                    r3.ok(key, f"{m}() with the same content is idempotent (keyed container)", fi.loc(node))
                elif m in ("pop",) and len(node.args) == 2:
                    r3.ok(key, "pop(key, default) is idempotent", fi.loc(node))
                elif m in ("append", "extend", "insert") and _target_is_generation_local(fi, tgt):
                    continue
                else:
                    r3.fail(key, f"in-place {m}() on survey/element state during generation is not idempotent", fi.loc(node))
            elif wkind == "del":
                r3.fail(key, "deletion from survey/element state during generation", fi.loc(node))
    _regeneration(ctx, r3)
    _trigger_lookup_readonly(ctx, r3)
    # the general form: attributes that hold a defaultdict (census of `self.X = defaultdict(...)`) are never INDEXED for
    # reading by code reachable from generation - directly or through a local alias; indexing creates the entry
    dd_attrs = set()
    for fi in funcs:
        for x in walk_own(fi.node):
            if isinstance(x, ast.Assign | ast.AnnAssign) and x.value is not None and isinstance(x.value, ast.Call) and call_name(x.value) == "defaultdict":
                for t in (x.targets if isinstance(x, ast.Assign) else [x.target]):
                    if isinstance(t, ast.Attribute):
                        dd_attrs.add(t.attr)
    survey_init = repo.cls("pyxform.survey:Survey").methods["__init__"]
    dd_attrs &= {t.attr for x in walk_own(survey_init.node) if isinstance(x, ast.Assign | ast.AnnAssign) for t in (x.targets if isinstance(x, ast.Assign) else [x.target])
                 if isinstance(t, ast.Attribute) and isinstance(t.value, ast.Name) and t.value.id == "self"}  # those the survey keeps across generations
    seen_positive = 0
    for fi in funcs:
        aliases = set()
        for x in walk_own(fi.node):
            if isinstance(x, ast.Assign) and isinstance(x.value, ast.Attribute) and x.value.attr in dd_attrs:
                aliases |= {t.id for t in x.targets if isinstance(t, ast.Name)}
        for x in walk_own(fi.node):
            if isinstance(x, ast.Subscript) and isinstance(x.ctx, ast.Load) and ((isinstance(x.value, ast.Attribute) and x.value.attr in dd_attrs) or (isinstance(x.value, ast.Name) and x.value.id in aliases)):
                if fi.fq in gen_reach and fi.name != "__init__":
                    r3.fail(f"{fi.fq}:{norm(x)[:50]}", "a defaultdict table is read with .get()/in during generation (indexing it creates an entry on every read)", fi.loc(x))
                else:
                    seen_positive += 1
    r3.check(bool(dd_attrs) and seen_positive >= 1, "defaultdict tables:census", f"tables {sorted(dd_attrs)}; {seen_positive} construction-time indexing site(s) recognised (builder), none reachable from generation", "pyxform/builder.py")
    rules.append(r3)

    # ------------------------------------------------------------------ R4
    r4 = Rule("C14", "C14.R4", "no unordered (set) iteration flows into an ordered result", floor=6,
              necessary="iteration order of a str set depends on PYTHONHASHSEED; anything ordered by it makes output bytes seed-dependent")
    module_sets = set()
    for m, name, kind, st in muts:
        if kind == "set":
            module_sets.add(name)
            module_sets.add(f"{m.name}.{name}")
    n_iter = 0
    for fi in funcs:
        if fi.fq not in reach:
            continue
        for it_expr, consumer, how in set_iterations(repo, fi, module_sets):
            n_iter += 1
            key = f"{fi.fq}:iterate {norm(it_expr)[:70]}"
            status = None
            if how == "comprehension":
                if comprehension_consumer(consumer) == "order-free":
                    status = "order-insensitive consumer (any/all/set/sorted/len/...)"
                elif isinstance(consumer, ast.GeneratorExp) and isinstance(parent(consumer), ast.Call) and call_name(parent(consumer)) in ("any", "all", "sorted", "set", "sum", "min", "max"):
                    status = "order-insensitive consumer"
            elif how.startswith("call:") and isinstance(parent(consumer), ast.Call) and call_name(parent(consumer)) == "sorted":
                status = "sorted"
            if status is None:
                # body that only tests membership / raises / adds to a set is order-free
                if how == "for" and _order_free_body(consumer):
                    status = "loop body is order-insensitive (membership tests, set.add, any-order raise)"
            acc = ACCEPTED_SET_ITER.get((fi.qualname, _iter_key(it_expr)))
            if status:
                r4.ok(key, status, fi.loc(it_expr))
            elif acc:
                r4.ok(key, f"accepted: {acc}", fi.loc(it_expr))
            else:
                r4.fail(key, f"set-typed value is iterated in hash order into an order-sensitive consumer ({how})", fi.loc(it_expr))
    ctx.count("set_iterations_examined", n_iter)
    # reasons that are mechanically checkable
    dh = ctx.func("pyxform.parsing.sheet_headers:dealias_and_group_headers", "C14.R4")
    for cf in funcs:
        for c in walk_own(cf.node):
            if isinstance(c, ast.Call) and call_name(c) == "dealias_and_group_headers":
                hr = next((k.value for k in c.keywords if k.arg == "headers_required"), None)
                if hr is not None:
                    okc, v = const_str(ctx, cf.module, hr)
                    r4.check(okc and len(v) <= 1, f"{cf.fq}:headers_required={norm(hr)}", "at most one required header (so the 'missing' set has at most one element)", cf.loc(c))
    # the missing-translations advisory names languages and columns in ONE order whatever order they were collected in
    # (evaluated: every permutation of three columns x both orders of two languages gives the same text)
    import itertools as _itp
    from ..interp import Raised as _Raised
    fm = ctx.func("pyxform.validators.pyxform.translations_checks:format_missing_translations_msg", "C14.R4")
    texts = set()
    for cols_ in _itp.permutations(("label", "hint", "media::image")):
        for langs_ in (("fr", "en"), ("en", "fr")):
            itf_ = ctx.interp("C14.R4", inline=lambda fi: True)
            itf_.reset([])
            arg_ = {"survey": {l_: list(cols_) for l_ in langs_}, "choices": {"fr": [c_ for c_ in cols_ if c_ != "media::image"]}}
            try:
                texts.add(itf_.call_function(fm, [], {"_in": arg_}, None, fm.node))
            except _Raised as e:
                texts.add(f"raises {e.exc_name}")
    r4.check(len(texts) == 1 and isinstance(next(iter(texts)), str) and "label" in next(iter(texts)), "format_missing_translations_msg:columns",
             "the advisory text does not depend on the order in which languages and columns were collected", fm.loc(), why_fail=f"{len(texts)} different texts, e.g. {sorted(map(str, texts))[:2]}")
    rules.append(r4)

    # ------------------------------------------------------------------ R5
    r5 = Rule("C14", "C14.R5", "temporary resources are released on all exits", floor=2,
              necessary="a surviving temp file is residue of a conversion")
    for fi, c, f in temp_sites(ctx):
        if not fi.module.name.startswith("pyxform.validators.updater"):
            check_temp_pairing(r5, fi, c, f)
    from .c18 import validated_file_obligations
    validated_file_obligations(ctx, r5, "C14.R5")
    from .c18 import scratch_name_obligations
    n_scratch = scratch_name_obligations(ctx, r5)
    ctx.count("scratch_file_moves_examined", n_scratch)
    rules.append(r5)

    # ------------------------------------------------------------------ R6
    r6 = Rule("C14", "C14.R6", "no unsynchronised stateful singleton", floor=1,
              necessary="an object with per-call instance state shared by all threads corrupts concurrent conversions")
    stateful = []
    for m, name, kind, st in muts:
        v = st.value
        is_scanner = kind == "instance:re.Scanner"
        if kind.startswith("result:"):
            fn = repo.find_func(f"{m.name}:{kind.split(':')[1]}")
            if fn and any(isinstance(x, ast.Return) and isinstance(x.value, ast.Call) and norm(x.value.func) in ("re.Scanner", "Scanner") for x in walk_own(fn.node)):
                is_scanner = True
        if is_scanner:
            stateful.append((m, name, st))
    for m, name, st in stateful:
        users = []
        for fi in funcs:
            for c in walk_own(fi.node):
                if isinstance(c, ast.Call) and isinstance(c.func, ast.Attribute) and c.func.attr == "scan" and refers_to_global(repo, fi, c.func.value, m, name):
                    locked = any(isinstance(a, ast.With) and any("lock" in norm(i.context_expr).lower() for i in a.items) for a in ancestors(c))
                    users.append((fi, c, locked))
        for fi, c, locked in users:
            r6.check(locked, f"{m.name}.{name}.scan in {fi.fq}", "shared re.Scanner (scan() stores the current match on the instance) is used under a lock or per call",
                     fi.loc(c), why_fail="module-level re.Scanner used concurrently without synchronisation")
    if not stateful:
        r6.ok("singleton census", "no module-level instance of a class with per-call instance state", "")
    rules.append(r6)

    # ------------------------------------------------------------------ R7
    r7 = Rule("C14", "C14.R7", "caller-owned input is not consumed", floor=3,
              necessary="destructive reads of the caller's dict make converting the same input twice differ")
    w2j = ctx.func("pyxform.xls2json:workbook_to_json", "C14.R7")
    # names bound directly to workbook_dict fields (possibly `or []`)
    owned = set()
    for x in walk_own(w2j.node):
        if isinstance(x, ast.Assign) and isinstance(x.targets[0], ast.Name) and "workbook_dict." in norm(x.value) and not any(isinstance(n, ast.Call) for n in ast.walk(x.value)):
            owned.add(x.targets[0].id)
    r7.check(bool(owned), "workbook_to_json:owned names", "names aliasing the caller's sheets were identified", w2j.loc())
    rebinds = {}
    for x in walk_own(w2j.node):
        if isinstance(x, ast.Assign) and isinstance(x.targets[0], ast.Name) and x.targets[0].id in owned and any(isinstance(n, ast.Call) for n in ast.walk(x.value)):
            rebinds.setdefault(x.targets[0].id, x.lineno)
    for wkind, tgt, node in writes_in(w2j.node):
        rn = root_name(tgt)
        if rn in owned and node.lineno < rebinds.get(rn, 10 ** 9) and wkind != "augname":
            key = f"workbook_to_json:{norm(node)[:60]}"
            if wkind == "mutator" and node.func.attr == "pop":
                r7.fail(key, "pops a key from the caller's sheet data (second conversion of the same dict sees different input)", w2j.loc(node))
            else:
                r7.fail(key, "writes into the caller's sheet data", w2j.loc(node))
    fresh_rows_obligations(ctx, r7, "C14.R7")
    # the definition's byte stream may be the caller's own BytesIO / open file (it is passed through as it is): a reader
    # reads it, and neither closes nor truncates it - the same object is converted again by the caller
    n_streams = 0
    for fi in funcs:
        defs = {t.id for x in walk_own(fi.node) if isinstance(x, ast.Assign) and isinstance(x.value, ast.Call) and call_name(x.value) == "get_definition_data" for t in x.targets if isinstance(t, ast.Name)}
        if not defs:
            continue
        aliases_ = set()
        for x in walk_own(fi.node):
            if isinstance(x, ast.Assign) and isinstance(x.value, ast.Attribute) and x.value.attr == "data" and isinstance(x.value.value, ast.Name) and x.value.value.id in defs:
                aliases_ |= {t.id for t in x.targets if isinstance(t, ast.Name)}
        n_streams += 1
        bad = []
        for c in walk_own(fi.node):
            if isinstance(c, ast.Call) and isinstance(c.func, ast.Attribute) and c.func.attr in ("close", "truncate", "write", "detach"):
                rv = c.func.value
                if (isinstance(rv, ast.Attribute) and rv.attr == "data" and isinstance(rv.value, ast.Name) and rv.value.id in defs) or (isinstance(rv, ast.Name) and rv.id in aliases_):
                    bad.append(c)
        r7.check(not bad, f"{fi.fq}:definition stream", "the reader leaves the definition's stream open and as it was", fi.loc(bad[0]) if bad else fi.loc(),
                 why_fail=f"{[norm(b)[:40] for b in bad]}: a caller-supplied BytesIO is unusable for the next conversion")
    r7.check(n_streams >= 4, "definition stream census", f"{n_streams} functions that obtain a definition stream examined", "pyxform/xls2json_backends.py")
    ctv = ctx.func("pyxform.xls2json:clean_text_values", "C14.R7")
    for wkind, tgt, node in writes_in(ctv.node):
        if wkind == "store":
            val = norm(node.value)
            idem = "row_number" in val or ("sub(" in val)
            r7.check(idem, f"clean_text_values:{norm(node)[:50]}", "in-place clean-up of the caller's rows is idempotent (normalised text / deterministic row number)", ctv.loc(node))
    rules.append(r7)
    # the same holds for the definition dict the builder builds from (ConvertResult._pyxform, a loaded JSON form): shared
    # with C16.R9
    from .c16 import builder_input_rule
    rules.append(builder_input_rule(ctx, "C14", "C14.R8"))
    # what the output depends on must not include whether somebody formatted or hashed an element while the tree was
    # being put together (logging level, a debugger): shared with C02.R3
    from . import c02 as _c02i
    from .c08 import _take as _take_i
    r_i = Rule("C14", "C14.R9", "implicitly called element methods leave no state behind", floor=1,
               necessary="a repr / hash that caches a partial path makes the XForm depend on the logging configuration")
    _take_i(r_i, ctx.other(_c02i), "C02.R3", lambda c: c.startswith("implicit methods:"))
    rules.append(r_i)
    return rules


def fresh_rows_obligations(ctx, r7, rid):
    """The assumption behind "rebound by a call => no longer the caller's": the header grouping hands back NEW row dicts.
    Evaluated: process_row's result is never the row object it was given (the row loop pops cells - disabled, ... - from
    its rows, so an aliased row is consumed: the same dict converted twice then emits the disabled rows)."""
    from ..interp import Raised
    pr = ctx.func("pyxform.parsing.sheet_headers:process_row", rid)
    for desc, row, key in (("plain headers only", {"type": "text", "name": "q", "disabled": "yes"}, {"type": ("type",), "name": ("name",), "disabled": ("disabled",)}),
                           ("one plain header", {"type": "text"}, {"type": ("type",)}),
                           ("translated header", {"type": "text", "label::en": "L"}, {"type": ("type",), "label::en": ("label", "en")}),
                           ("row number only", {"__row": 2}, {}),
                           ("empty row", {}, {})):
        itp = ctx.interp(rid)
        itp.reset([])
        before = dict(row)
        try:
            out = itp.call_function(pr, [], {"sheet_name": "survey", "row": row, "header_key": key, "default_language": "default"}, None, pr.node)
        except Raised as e:
            out = f"raises {e.exc_name}"
        r7.check(isinstance(out, dict) and out is not row and row == before, f"process_row[{desc}]", "returns a new dict and leaves the caller's row as it was", pr.loc(),
                 why_fail=("the caller's row object itself is returned: the row loop's pops (disabled, ...) then consume the caller's input" if out is row else repr(out)[:120]))


    # ... and so does the whole header pass, whichever route a row takes through it (plain headers, aliased, grouped)
    dg = ctx.func("pyxform.parsing.sheet_headers:dealias_and_group_headers", rid)
    sh_ = ctx.consts.get("pyxform.aliases", "survey_header", rid)
    cols_ = set(ctx.consts.get("pyxform.question", "SELECT_QUESTION_FIELDS", rid))
    for desc, rows in (("rows using plain headers only", [{"type": "text", "name": "a", "label": "A", "disabled": "yes", "__row": 2}, {"type": "text", "name": "b", "__row": 3}]),
                       ("plain and translated rows mixed", [{"type": "text", "name": "a", "__row": 2}, {"type": "text", "name": "b", "label::en": "B", "__row": 3}]),
                       ("an empty row between plain rows", [{"type": "text", "name": "a"}, {}, {"type": "note", "name": "n"}])):
        itd = ctx.interp(rid, hooks={"new:DealiasAndGroupHeadersResult": lambda i, a, k, n: dict(k) if k else {"headers": a[0], "data": a[1]}})
        itd.reset([])
        before = [dict(r_) for r_ in rows]
        hdr = {}
        for r_ in rows:
            for k_ in r_:
                hdr.setdefault(k_, None)
        try:
            res_ = itd.call_function(dg, [], {"sheet_name": "survey", "sheet_data": rows, "sheet_header": [hdr], "header_aliases": sh_, "header_columns": cols_,
                                              "headers_required": {"type"}, "default_language": "default"}, None, dg.node)
            out_rows = list(itd.iterate(res_.get("data"), dg.node)) if isinstance(res_, dict) else None
        except Raised as e:
            out_rows = f"raises {e.exc_name}{e.exc_args}"
        aliased = [j for j, o_ in enumerate(out_rows) if any(o_ is r_ for r_ in rows)] if isinstance(out_rows, list) else None
        r7.check(isinstance(out_rows, list) and not aliased and rows == before, f"dealias_and_group_headers[{desc}]", "every returned row is a new dict and the caller's rows are as they were", dg.loc(),
                 why_fail=(f"returned row(s) {aliased} ARE the caller's row objects: the row loop's pops then consume the caller's input" if aliased else repr(out_rows)[:160]))


def _tainted_names(fi, cached: set, carriers: set):
    """-> (shared, holders).  `shared`: local names that may BE (a part of) a memoised result - bound to a call of a
    function in `cached` (or unpacked from it), drawn from a shared name or from a holder by a loop / comprehension /
    subscript / attribute / unpacking, or assigned from a shared name.  `holders`: fresh local containers (and results of
    `carriers`, functions that return such containers) that HOLD shared objects: growing or re-slotting the holder is
    harmless, writing through one of its elements is not."""
    shared, holders = set(), set()

    def kind_of(expr):
        """'shared' | 'holder' | None for the value of expr."""
        if isinstance(expr, ast.Call):
            cn = call_name(expr)
            if cn in cached:
                return "shared"
            if cn in carriers:
                return "holder"
            if cn in ("list", "tuple", "sorted", "reversed", "zip", "enumerate", "iter", "chain") and any(kind_of(a) for a in expr.args):
                return "holder"
            return None
        if isinstance(expr, ast.Name):
            return "shared" if expr.id in shared else ("holder" if expr.id in holders else None)
        if isinstance(expr, ast.Subscript | ast.Attribute):
            k = kind_of(expr.value)
            return "shared" if k else None
        if isinstance(expr, ast.Starred):
            return kind_of(expr.value)
        if isinstance(expr, ast.List | ast.Tuple | ast.Set):
            return "holder" if any(kind_of(e) for e in expr.elts) else None
        if isinstance(expr, ast.Dict):
            return "holder" if any(kind_of(v) for v in expr.values if v is not None) else None
        if isinstance(expr, ast.ListComp | ast.SetComp | ast.GeneratorExp):
            return "holder" if (kind_of(expr.elt) or any(kind_of(g.iter) for g in expr.generators)) else None
        if isinstance(expr, ast.IfExp):
            return kind_of(expr.body) or kind_of(expr.orelse)
        if isinstance(expr, ast.BoolOp):
            return next((k for k in map(kind_of, expr.values) if k), None)
        return None

    def bind(target, k, unpacking=False):
        if k is None:
            return
        if isinstance(target, ast.Name):
            (shared if (k == "shared" or unpacking) else holders).add(target.id)
        elif isinstance(target, ast.Tuple | ast.List):
            for e in target.elts:
                bind(e.value if isinstance(e, ast.Starred) else e, "shared", True)   # a part of a shared object / an element of a holder

    for _ in range(6):
        before = (len(shared), len(holders))
        for x in walk_own(fi.node):
            if isinstance(x, ast.Assign | ast.AnnAssign) and x.value is not None:
                k = kind_of(x.value)
                for t in (x.targets if isinstance(x, ast.Assign) else [x.target]):
                    bind(t, k)
            elif isinstance(x, ast.For | ast.comprehension):
                if kind_of(x.iter):
                    bind(x.target, "shared", True)
            elif isinstance(x, ast.NamedExpr):
                bind(x.target, kind_of(x.value))
            elif isinstance(x, ast.Call) and isinstance(x.func, ast.Attribute) and x.func.attr in ("append", "extend", "add", "insert") and isinstance(x.func.value, ast.Name) \
                    and any(kind_of(a) for a in x.args) and x.func.value.id not in shared:
                holders.add(x.func.value.id)
        if (len(shared), len(holders)) == before:
            break
    return shared, holders - shared


def _locally_created(fi, name) -> bool:
    """name is a local bound (somewhere in fi) to a fresh container / comprehension / call result, not a parameter."""
    if name is None:
        return False
    a = fi.node.args
    params = {x.arg for x in [*a.posonlyargs, *a.args, *a.kwonlyargs]}
    if a.kwarg:
        params.add(a.kwarg.arg)
    if name in params:
        return False
    for x in walk_own(fi.node):
        if isinstance(x, ast.Assign | ast.AnnAssign):
            tgts = x.targets if isinstance(x, ast.Assign) else [x.target]
            for t in tgts:
                for n in ast.walk(t):
                    if isinstance(n, ast.Name) and n.id == name and isinstance(n.ctx, ast.Store):
                        v = x.value
                        if isinstance(v, ast.Dict | ast.List | ast.Set | ast.ListComp | ast.DictComp | ast.SetComp | ast.Tuple | ast.Constant | ast.JoinedStr | ast.BinOp):
                            return True
                        if isinstance(v, ast.Call) and not (isinstance(v.func, ast.Attribute) and v.func.attr in ("get", "setdefault")):
                            return True
    return False


def _closure_state(fi, name) -> bool:
    return False


def _maybe_mutable(v, f) -> bool:
    if isinstance(v, ast.Constant | ast.JoinedStr | ast.Compare | ast.BoolOp):
        return False
    if isinstance(v, ast.Name):
        # str-typed by annotation?
        ret = f.node.returns
        return not (ret is not None and norm(ret) in ("str", "bool", "int"))
    if isinstance(v, ast.Call) and call_name(v) in ("translate", "join", "str", "format"):
        return False
    if isinstance(v, ast.Tuple):
        return any(_maybe_mutable(e, f) for e in v.elts)
    ret = f.node.returns
    if ret is not None and norm(ret) in ("str", "bool", "int"):
        return False
    return True


def _is_dict_init(node) -> bool:
    return False


def _target_is_generation_local(fi, tgt) -> bool:
    rn = root_name(tgt)
    return _locally_created(fi, rn)


def _order_free_body(loop: ast.For) -> bool:
    """Loop body consists only of membership tests, set.add / counters, and raises."""
    for st in loop.body:
        for n in ast.walk(st):
            if isinstance(n, ast.Call):
                cn = call_name(n)
                if cn in ("append", "extend", "insert", "write", "writerow", "join", "update", "setAttribute", "appendChild", "node"):
                    return False
            if isinstance(n, ast.Assign) and any(isinstance(t, ast.Subscript) for t in n.targets):
                return False
            if isinstance(n, ast.Yield | ast.YieldFrom | ast.Return):
                return False
    return True
