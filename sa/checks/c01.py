"""C01 — every successful conversion returns a well-formed, namespace-valid XForm."""

from __future__ import annotations

import ast
import itertools
import re

from ..astutil import call_name, const_str, guard_texts, star_kwargs
from ..callgraph import CallGraph
from ..interp import GenList, NodeVal, Obj, Raised, Sym, SymStr, explore
from ..loader import AnalysisError, norm, walk_own
from ..prov import Prov, xml_sites
from ..report import Rule
from ..writer_model import eval_element_writer, find_writer_classes, flatten, shapes
from ..xmlmodel import node_hook

EXPLANATION = (
    "Construction-site census of every node()/setAttribute call reachable from convert(): every literal or "
    "table-derived prefixed name must have its prefix declared (folded NSMAP or the guarded entities namespace); "
    "provenance analysis of every value reaching an element/attribute *name* position (only literals, folded "
    "tables and validated element names are accepted); abstract evaluation of Survey.xml / xml_model / "
    "xml_instance giving the abstract skeleton tree and the order of model children; abstract evaluation of the "
    "element writer giving the language of writes per child shape (balanced tags, attribute values only through "
    "the escaping writer); def-use of the serialisation channel."
)
NOT_DECIDED = ("whether author-supplied namespace URIs are sensible; attribute *values*; what expat accepts inside the "
               "toParseString channel beyond C06's typestate argument; prefixes typed by the author inside custom "
               "bind::/control:: column names (a recorded finding, not a new claim)")
ASSUMPTIONS = [
    "minidom Element.setAttribute replaces a same-named attribute; _write_data escapes & < > \" in attribute values",
    "the call graph over-approximates calls by method name (class-hierarchy analysis without types)",
    "VNAME: element names are validated by SurveyElement.validate on every generation path (established by C02.R4)",
]

NAME_OK = ("LIT", "VNAME")


def _prefixes_of_value(v, acc):
    if isinstance(v, str):
        if re.fullmatch(r"[A-Za-z_][\w.-]*:[A-Za-z_][\w.-]*", v) and not v.startswith(("jr://", "http")):
            acc.add(v)
    elif isinstance(v, dict):
        for k, x in v.items():
            _prefixes_of_value(k, acc)
    elif isinstance(v, list | tuple | set):
        for x in v:
            _prefixes_of_value(x, acc)


def run(ctx):
    repo = ctx.repo
    rules = []
    prov = Prov(ctx)
    cg = CallGraph(repo, ctx.consts.interp)
    reach = cg.reachable(["pyxform.xls2xform:convert"])
    ctx.count("functions_reachable_from_convert", len(reach))
    ctx.count("call_sites_resolved", cg.resolved)
    ctx.count("call_sites_unresolved", cg.unresolved)
    sites = [s for s in xml_sites(ctx) if s.fi.fq in reach and s.fi.fq != "pyxform.utils:node"]
    dead = [s for s in sites if _dead_site(prov, s)]
    sites = [s for s in sites if s not in dead]
    ctx.count("xml_sites_in_dead_code", len(dead))
    ctx.count("xml_construction_sites", len(sites))
    nsmap = ctx.consts.get("pyxform.constants", "NSMAP", "C01.R1")
    declared = {k.split(":", 1)[1] for k in nsmap if k.startswith("xmlns:")}

    # ------------------------------------------------------------------ R1
    r1 = Rule("C01", "C01.R1", "every prefix the program itself writes is declared", floor=25,
              necessary="an undeclared prefix makes the document namespace-invalid for every form that emits that name")
    names: dict[str, list[str]] = {}

    def add(n, where):
        if isinstance(n, str) and ":" in n and re.fullmatch(r"[A-Za-z_][\w.-]*:[A-Za-z_][\w.\-]*", n):
            names.setdefault(n, []).append(where)

    for s in sites:
        c = s.call
        if s.kind == "node":
            if c.args and not isinstance(c.args[0], ast.Starred):
                ok, v = const_str(ctx, s.fi.module, c.args[0])
                if ok:
                    add(v, s.loc)
            for k in c.keywords:
                if k.arg:
                    add(k.arg, s.loc)
        else:
            ok, v = const_str(ctx, s.fi.module, c.args[0])
            if ok:
                add(v, s.loc)
    # dict-literal / subscript-store keys that are prefixed names (later splatted as attributes)
    for fi in repo.all_functions():
        if fi.fq not in reach:
            continue
        for x in walk_own(fi.node):
            keys = []
            if isinstance(x, ast.Dict):
                keys = [k for k in x.keys if k is not None]
            elif isinstance(x, ast.Assign) and isinstance(x.targets[0], ast.Subscript):
                keys = [x.targets[0].slice]
            for k in keys:
                ok, v = const_str(ctx, fi.module, k)
                if ok and isinstance(v, str) and not v.startswith("xmlns"):
                    add(v, fi.loc(k))
    # folded tables whose keys/values become element or attribute names
    qtd = ctx.consts.get("pyxform.question_type_dictionary", "QUESTION_TYPE_DICT", "C01.R1")
    for typ, spec in qtd.items():
        for sect in ("bind", "control", "action"):
            for k, v in (spec.get(sect) or {}).items():
                add(k, f"QUESTION_TYPE_DICT[{typ!r}].{sect}")
                if k in ("tag", "name"):
                    add(v, f"QUESTION_TYPE_DICT[{typ!r}].{sect}.{k}")
    for k, v in ctx.consts.get("pyxform.aliases", "survey_header", "C01.R1").items():
        if isinstance(v, tuple):
            for part in v[1:]:
                add(part, f"aliases.survey_header[{k!r}]")
    ent_guarded = _entities_guard(ctx)
    for n, where in sorted(names.items()):
        p = n.split(":", 1)[0]
        if p in ("xmlns", "xml"):
            continue
        if p == "jr" and n.startswith("jr:itext"):
            continue
        if p == "entities":
            r1.check(ent_guarded, f"name {n}", "prefix 'entities' is declared by get_nsmap under entity_features (C19.R4 ties emissions to the same atom)", where[0])
        else:
            r1.check(p in declared, f"name {n}", f"prefix {p!r} is declared in the folded NSMAP", where[0],
                     why_fail=f"declared prefixes: {sorted(declared)}")
    # every prefix the author declares in the `namespaces` setting is bound on the root (it is what the author's
    # `bind::p:x` / `instance::p:x` / `body::p:x` columns use), whatever its URI is
    from .c19 import _NS_CASES, nsmap_table
    for desc, feats, ns, res in nsmap_table(ctx, "C01.R1"):
        if not ns:
            continue
        missing = [p_ for p_, u_ in _NS_CASES[ns] if not (isinstance(res, dict) and res.get(f"xmlns:{p_}") == u_)]
        r1.check(not missing, f"get_nsmap[{desc}]", "each prefix of the namespaces setting is declared with its URI", "pyxform/survey.py",
                 why_fail=f"prefix(es) {missing} are not bound: an attribute column using them yields an unbound prefix")
    r1.check("xmlns" in nsmap and nsmap.get("xmlns") == "http://www.w3.org/2002/xforms", "NSMAP[xmlns]", "default namespace is XForms", "pyxform/constants.py")
    r1.check(nsmap.get("xmlns:h") == "http://www.w3.org/1999/xhtml", "NSMAP[xmlns:h]", "h: is XHTML", "pyxform/constants.py")
    # the standard prefixes of an ODK XForm are always bound (ODK XForms spec, "Namespaces"): authors use them on
    # attribute columns (body::ev:event, bind::odk:..., instance::orx:...) without declaring anything themselves
    STANDARD_NS = {"xmlns:ev": "http://www.w3.org/2001/xml-events", "xmlns:xsd": "http://www.w3.org/2001/XMLSchema", "xmlns:jr": "http://openrosa.org/javarosa",
                   "xmlns:orx": "http://openrosa.org/xforms", "xmlns:odk": "http://www.opendatakit.org/xforms"}
    for k_, v_ in STANDARD_NS.items():
        r1.check(nsmap.get(k_) == v_, f"NSMAP[{k_}]", f"the standard prefix is bound to {v_}", "pyxform/constants.py", why_fail=f"got {nsmap.get(k_)!r}")
    rules.append(r1)

    # ------------------------------------------------------------------ R2
    r2 = Rule("C01", "C01.R2", "name positions are closed (no author text becomes an element or attribute name)", floor=60,
              necessary="author text in a name position yields ill-formed or namespace-invalid XML that convert() returns as success")
    for s in sites:
        c = s.call
        if s.kind == "node":
            if c.args and not isinstance(c.args[0], ast.Starred):
                tags = prov.classify(c.args[0], s.fi)
                bad = sorted(t for t in tags if not t.startswith(NAME_OK))
                r2.check(not bad, f"{s.fi.fq}:tag:{norm(c.args[0])[:50]}", "element name is a literal, table value or validated element name",
                         s.loc, why_fail=f"provenance {bad}")
            for v in star_kwargs(c):
                tags = prov.dict_keys(v, s.fi)
                bad = sorted(t for t in tags if not t.startswith(NAME_OK))
                r2.check(not bad, f"{s.fi.fq}:attrs:**{norm(v)[:40]} on {norm(c.args[0])[:20] if c.args else '?'}",
                         "attribute names splatted onto the element are literals / table keys", s.loc, why_fail=f"key provenance {bad}")
        else:
            tags = prov.classify(c.args[0], s.fi)
            bad = sorted(t for t in tags if not t.startswith(NAME_OK))
            if bad == ["CELLKEY:parameters"] and s.fi.qualname == "RangeQuestion.build_xml" and _range_params_validated(ctx):
                r2.ok(f"{s.fi.fq}:setAttribute:{norm(c.args[0])[:40]}",
                      "attribute names are parameter keys validated against a literal allow-list of XML names "
                      "(process_range_question_type: allowed=start/end/step; 'range' is the only type mapped to RangeQuestion)", s.loc)
                continue
            r2.check(not bad, f"{s.fi.fq}:setAttribute:{norm(c.args[0])[:40]}", "attribute name is a literal / table key", s.loc,
                     why_fail=f"provenance {bad}")
    # the element factory itself: node() is the trusted summary of every site above, so inside it (and anywhere else on
    # the conversion path) an element may only be constructed from the factory's own tag argument
    nf = ctx.func("pyxform.utils:node", "C01.R2")
    tag_names = set()
    for x in walk_own(nf.node):
        if isinstance(x, ast.Assign) and len(x.targets) == 1 and isinstance(x.targets[0], ast.Name):
            srcs = {norm(n) for n in ast.walk(x.value) if isinstance(n, ast.Subscript)}
            if srcs and srcs <= {"args[0]", "kwargs['tag']"} and not any(isinstance(n, ast.Call) and call_name(n) != "len" for n in ast.walk(x.value)):
                tag_names.add(x.targets[0].id)
    ELEMENT_CTORS = {"DetachableElement", "Element", "createElement", "createElementNS", "createAttribute", "createAttributeNS", "setAttributeNS", "setAttributeNode"}
    n_ctor = 0
    for fi in repo.all_functions():
        if fi.fq not in reach and fi.fq != nf.fq:
            continue
        for c in walk_own(fi.node):
            if not isinstance(c, ast.Call):
                continue
            cn = call_name(c)
            if cn in ELEMENT_CTORS:
                n_ctor += 1
                a0 = c.args[0] if c.args else None
                ok_ = fi.fq == nf.fq and isinstance(a0, ast.Name) and a0.id in tag_names
                r2.check(ok_, f"{fi.fq}:{cn}({norm(a0)[:30] if a0 is not None else ''})", "elements are constructed only by the factory, from its tag argument", fi.loc(c),
                         why_fail="an element constructed outside node(), or from something other than node()'s tag argument, is a name position the rules above do not see")
            elif fi.fq == nf.fq and cn == "node":
                ok_, v_ = const_str(ctx, fi.module, c.args[0]) if c.args else (False, None)
                r2.check(ok_ and isinstance(v_, str), f"{fi.fq}:node({norm(c.args[0])[:30] if c.args else ''})", "the factory creates further elements only with literal names", fi.loc(c),
                         why_fail="the factory names an element after a value found in its arguments (dict key, attribute value, child text)")
    r2.check(n_ctor >= 1 and bool(tag_names), "element constructors census", f"{n_ctor} element constructor call(s) on the conversion path; factory tag variable(s) {sorted(tag_names)}", nf.loc())
    rules.append(r2)

    # ------------------------------------------------------------------ R3
    r3 = Rule("C01", "C01.R3", "ODK skeleton: html[head[title, model], body]; model children in order", floor=8,
              necessary="a different skeleton is not an ODK XForm (missing/duplicated title, model, body, or primary instance not first)")
    scls = repo.cls("pyxform.survey:Survey")
    xml_fn = scls.methods.get("xml")
    order = []
    TITLE = Sym("TITLE", truthy=None, pytype=str)
    NS = {"xmlns": "u0", "xmlns:h": "u1"}
    MODEL = NodeVal("model")
    CTRL = [NodeVal("input"), NodeVal("group")]
    hooks = {
        "fnname:node": node_hook,
        "fnname:validate": lambda i, a, k, n: order.append("validate"),
        "fnname:_setup_xpath_dictionary": lambda i, a, k, n: order.append("xpath_dict"),
        "fnname:get_nsmap": lambda i, a, k, n: (order.append("nsmap"), dict(NS))[1],
        "fnname:xml_model": lambda i, a, k, n: (order.append("model"), MODEL)[1],
        "fnname:xml_control": lambda i, a, k, n: (order.append("control"), GenList(CTRL))[1],
        "fnname:insert_xpaths": lambda i, a, k, n: Sym("SUBST", pytype=str),
    }
    for style in (None, Sym("STYLE", truthy=True, pytype=str)):
        it = ctx.interp("C01.R3", hooks=hooks)
        s = Obj(scls, {"title": TITLE, "style": style, "setvalues_by_triggering_ref": {}}, name="survey")
        # (every resolution of a guard on the title text - empty or not - is a path of its own)
        from ..interp import explore as _explore
        paths_ = list(_explore(it, lambda: (order.clear(), it.call_function(xml_fn, [s], {}, None, xml_fn.node))[1]))
        for dec_, out_, _eff, _ass in paths_:
            root = out_[1] if out_[0] == "return" else None
            desc = f"style={'set' if style else 'unset'}" + (f" decisions={dec_}" if dec_ else "")
            ok = isinstance(root, NodeVal) and root.tag == "h:html" and len(root.children) == 2 and root.text is None
            head = root.children[0] if ok else None
            body = root.children[1] if ok else None
            ok = ok and isinstance(head, NodeVal) and head.tag == "h:head" and isinstance(body, NodeVal) and body.tag == "h:body"
            r3.check(ok, f"Survey.xml[{desc}]:root", "root is h:html with exactly [h:head, h:body]", xml_fn.loc(), why_fail=repr(root)[:200])
            if ok:
                hk = head.children
                r3.check(len(hk) == 2 and isinstance(hk[0], NodeVal) and hk[0].tag == "h:title" and hk[0].text is TITLE and not hk[0].children
                         and hk[1] is MODEL and not head.attrs, f"Survey.xml[{desc}]:head",
                         "head holds exactly one h:title (the title text) and the model", xml_fn.loc(), why_fail=repr(head)[:200])
                r3.check(body.children == CTRL and body.text is None, f"Survey.xml[{desc}]:body", "body holds exactly the controls, in order", xml_fn.loc())
                r3.check(dict(root.attrs) == NS and not any(str(k).startswith("xmlns") for k in {**head.attrs, **body.attrs}),
                         f"Survey.xml[{desc}]:namespaces", "the namespace map is placed on the root element and only there", xml_fn.loc(),
                         why_fail=f"root attrs={root.attrs}")
                r3.check(dict(body.attrs) == ({"class": style} if style else {}), f"Survey.xml[{desc}]:body.class", "body class is the style setting (only)", xml_fn.loc(),
                         why_fail=f"body attrs={body.attrs}")
                r3.check("validate" in order and "model" in order and "control" in order and order.index("validate") < order.index("model") and order.index("validate") < order.index("control") and order[0] == "validate",
                         f"Survey.xml[{desc}]:validate-first", "validation precedes all generation, on every call (the survey may have been edited since the last one)", xml_fn.loc(), why_fail=f"order={order}")
    # model children order
    xm = scls.methods.get("xml_model")
    ed_cls_ = repo.cls("pyxform.entities.entity_declaration:EntityDeclaration")
    for trans, subm, entity in itertools.product((False, True), (False, True), (False, True)):
        if True:
            mo = []
            ITEXT, PRIMARY = NodeVal("itext"), NodeVal("data")
            SEC, BIND, ACT = NodeVal("instance", attrs={"id": "sec"}), NodeVal("bind"), NodeVal("odk:recordaudio")
            mh = {
                "fnname:node": node_hook,
                "fnname:_setup_translations": lambda i, a, k, n: mo.append("translations"),
                "fnname:_setup_media": lambda i, a, k, n: mo.append("media"),
                "fnname:_add_empty_translations": lambda i, a, k, n: mo.append("pad"),
                "fnname:itext": lambda i, a, k, n: (mo.append("itext"), ITEXT)[1],
                "fnname:xml_instance": lambda i, a, k, n: (mo.append("instance"), PRIMARY)[1],
                "fnname:_generate_instances": lambda i, a, k, n: GenList([SEC]),
                "fnname:xml_descendent_bindings": lambda i, a, k, n: GenList([BIND, None]),
                "fnname:xml_actions": lambda i, a, k, n: GenList([ACT]),
            }
            if entity:
                # an entity-updating form: the declaration is among the descendants, the features are listed
                decl_ = Obj(ed_cls_, {"name": "entity", "type": "entity", "parameters": {"dataset": "trees", "entity_id": "${tree}", "update_if": "true()", "label": "a"}}, name="entity")
                mh["fnname:iter_descendants"] = lambda i, a, k, n, decl_=decl_: iter([x_ for x_ in [decl_] if (k.get("condition") is None or i.truth(i.call(k["condition"], [x_], {}, n)))])
            it = ctx.interp("C01.R3", hooks=mh)
            s = Obj(scls, {"_translations": {"en": {}} if trans else {}, "entity_features": (["create", "update", "offline"] if entity else None),
                           "submission_url": Sym("URL", truthy=True, pytype=str) if subm else None, "public_key": None,
                           "auto_send": None, "auto_delete": None}, name="survey")
            it.reset([])
            model = it.call_function(xm, [s], {}, None, xm.node)
            desc = f"translations={trans} submission={subm}" + (" entity-updating form" if entity else "")
            ok = isinstance(model, NodeVal) and model.tag == "model"
            if ok:
                kids = model.children
                exp_tags = (["submission"] if subm else []) + (["itext"] if trans else []) + ["instance", "instance", "bind", "odk:recordaudio"]
                got = [k.tag if isinstance(k, NodeVal) else repr(k) for k in kids]
                okk = got == exp_tags
                if entity:
                    # (further secondary instances are a matter for C09 / C19; what C01 fixes is the order of the kinds)
                    import re as _re_m
                    okk = bool(_re_m.fullmatch(r"(submission )?(itext )?(instance )+bind odk:recordaudio ", "".join(t_ + " " for t_ in got)))
                first_inst = next((k for k in kids if isinstance(k, NodeVal) and k.tag == "instance"), None)
                okk = okk and first_inst is not None and first_inst.children == [PRIMARY] and not first_inst.attrs
                r3.check(okk, f"Survey.xml_model[{desc}]", "model children: [submission][itext] instance(primary, exactly one root) secondary-instances binds actions",
                         xm.loc(), why_fail=f"children={got}")
                r3.check(mo[:3] == ["translations", "media", "pad"], f"Survey.xml_model[{desc}]:setup-order",
                         "translations, media and padding are prepared (in that order) before anything is emitted", xm.loc(), why_fail=f"order={mo}")
            else:
                r3.fail(f"Survey.xml_model[{desc}]", "returns a model element", xm.loc())
    rules.append(r3)

    # ------------------------------------------------------------------ R4
    r4 = Rule("C01", "C01.R4", "the primary instance root always carries the form id (and protected attributes win)", floor=4,
              necessary="a root without @id, or an attribute:: setting overriding id/version, breaks form identity")
    xi = scls.methods.get("xml_instance")
    IDS, VER = Sym("ID_STRING", truthy=None, pytype=str), Sym("VERSION", truthy=True, pytype=str)
    for attr in (None, {"id": Sym("EVIL_ID", truthy=True), "version": Sym("EVIL_VER", truthy=True), "custom": Sym("CUSTOM", truthy=True)}):
        ROOT = NodeVal(Sym("FORMNAME", truthy=True, pytype=str))
        it = ctx.interp("C01.R4", hooks={"fn:pyxform.section:Section.xml_instance": lambda i, a, k, n, R=ROOT: R})
        s = Obj(scls, {"attribute": attr, "id_string": IDS, "instance_xmlns": None, "version": VER, "prefix": None, "delimiter": None}, name="survey")
        for dec, out, eff, assumed in explore(it, lambda: it.call_function(xi, [s], {}, None, xi.node)):
            desc = f"attribute::={'id,version,custom' if attr else 'none'}"
            ok = out[0] == "return" and out[1] is ROOT and ROOT.attrs.get("id") is IDS
            r4.check(ok, f"Survey.xml_instance[{desc}]:id", "root @id is the form id on every path (attribute::id cannot replace it)", xi.loc(),
                     why_fail=f"attrs={ROOT.attrs}")
            r4.check(ROOT.attrs.get("version") is VER, f"Survey.xml_instance[{desc}]:version", "root @version is the version setting", xi.loc())
            if attr:
                r4.check(ROOT.attrs.get("custom") is attr["custom"], f"Survey.xml_instance[{desc}]:custom", "custom attributes are still added", xi.loc())
    rules.append(r4)

    # ------------------------------------------------------------------ R5
    r5 = Rule("C01", "C01.R5", "one serialisation channel from the node tree to the returned text", floor=4,
              necessary="text assembled by another route bypasses the balanced, escaping writer")
    pf = ctx.func("pyxform.survey:Survey.print_xform_to_file", "C01.R5")
    # evaluated: whatever mode and validators are asked for, the text returned IS the serialiser's result for that mode
    # (nothing is built from it, nothing is put in front of it), and the same text is what is written to the file the
    # validators read
    from .. import printxform
    for pretty_, validate_, enketo_ in itertools.product((True, False), (True, False), (True, False)):
        res_ = printxform.run(ctx, "C01.R5", pretty_print=pretty_, validate=validate_, enketo=enketo_, translations={"English (en)": {}}, bad=[])
        want_ = printxform.PRETTY if pretty_ else printxform.UGLY
        desc_ = f"pretty_print={pretty_} validate={validate_} enketo={enketo_}"
        r5.check(res_.outcome == "return" and res_.value is want_, f"print_xform_to_file[{desc_}]:returned", "the returned text is exactly the serialiser's result for the requested mode", pf.loc(),
                 why_fail=f"{res_.outcome}: {res_.value!r}")
        r5.check(res_.written == [want_], f"print_xform_to_file[{desc_}]:written", "the text written for the validators is that same text, written once", pf.loc(), why_fail=repr(res_.written))
    tx = ctx.func("pyxform.survey:Survey.to_xml", "C01.R5")
    rets = [x for x in walk_own(tx.node) if isinstance(x, ast.Return)]
    okr = len(rets) == 1 and isinstance(rets[0].value, ast.Name)
    if okr:
        var = rets[0].value.id
        assigns = [x for x in walk_own(tx.node) if isinstance(x, ast.Assign) and any(isinstance(t, ast.Name) and t.id == var for t in x.targets)]
        okr = len(assigns) == 1 and isinstance(assigns[0].value, ast.Call) and call_name(assigns[0].value) == "print_xform_to_file"
    r5.check(okr, "Survey.to_xml:return", "to_xml returns exactly what print_xform_to_file produced", tx.loc())
    cv = ctx.func("pyxform.xls2xform:convert", "C01.R5")
    okc = False
    for x in walk_own(cv.node):
        if isinstance(x, ast.Call) and call_name(x) == "ConvertResult":
            xf = next((k.value for k in x.keywords if k.arg == "xform"), None)
            if isinstance(xf, ast.Name):
                asg = [a for a in walk_own(cv.node) if isinstance(a, ast.Assign) and any(isinstance(t, ast.Name) and t.id == xf.id for t in a.targets)]
                okc = len(asg) == 1 and isinstance(asg[0].value, ast.Call) and call_name(asg[0].value) == "to_xml"
    r5.check(okc, "convert:xform", "ConvertResult.xform is the value returned by to_xml", cv.loc())
    rules.append(r5)

    # ------------------------------------------------------------------ R6
    r6 = Rule("C01", "C01.R6", "the element writer emits balanced tags; attribute values only through the escaping writer", floor=20,
              necessary="an unbalanced or differently named end tag, or a raw attribute value, is ill-formed XML")
    elem_cls, text_cls = find_writer_classes(ctx, "C01.R6")
    wfn = elem_cls.methods["writexml"]
    for shape in shapes(2):
        for n_attrs in (0, 2):
            results, fmt = eval_element_writer(ctx, "C01.R6", elem_cls, shape, n_attrs)
            for events, assumed in results:
                ok, why = _balanced(events, shape, n_attrs)
                r6.check(ok, f"writexml[children={shape or '-'} attrs={n_attrs}]", "writes '<'T attrs ('/>' | '>' children '</'T'>') with the same T", wfn.loc(), why_fail=why)
    rules.append(r6)

    # ------------------------------------------------------------------ R7
    r7 = Rule("C01", "C01.R7", "text sinks are total over the XML Char production", floor=3,
              necessary="a character outside Char (C0 controls) in any cell yields a document no XML parser accepts")
    from .c06 import escaper_failures
    esc_fn, samples, bad = escaper_failures(ctx, "C01.R7")
    r7.check(not bad, "text escaper[adversarial alphabet]", f"{len(samples)} strings over {{& < > ; # a}} and entity / CDATA-end / comment-like sequences: the text written is well-formed character data "
             "(every & < > escaped, so `]]>` and entity-like input cannot break the document)", esc_fn.loc(), why_fail="; ".join(f"{a!r} -> {b!r}" for a, b, c in bad[:3]))
    # ... and the text writer writes exactly the escaper's result (nothing is rewritten after escaping)
    from ..writer_model import eval_text_writer
    _ecls, tcls = find_writer_classes(ctx, "C01.R7")
    for events, _esc, assumed, _o in eval_text_writer(ctx, "C01.R7", tcls, ["", "", ""]):
        nonempty = any(k[0] == "truth" and v for k, v in assumed.items())
        for w_ in [e[1] for e in events if e[0] == "write"]:
            pristine = isinstance(w_, Sym) and "ESC" in w_.tags and "derived" not in w_.tags and "derived_from" not in w_.attrs
            r7.check(pristine or not nonempty, f"{tcls.name}.writexml[{'data' if nonempty else 'empty'}]", "character data is written as the escaper returned it",
                     tcls.methods["writexml"].loc(), why_fail=f"written value {w_!r} is computed from the escaped text (an un-escaping rewrite can produce ill-formed references)")
    subs = ctx.consts.try_get("pyxform.utils", "XML_TEXT_SUBS") or {}
    if not isinstance(subs, dict):
        subs = {}
    for ch in "&<":
        r7.check(not any(b[0] == ch for b in bad), f"text escaper[{ch!r}]", "markup-significant character is replaced by an entity", esc_fn.loc())
    handles_c0 = any(isinstance(k, str) and len(k) == 1 and ord(k) < 0x20 and k not in "\t\n\r" for k in subs)
    if not handles_c0:
        for modname in ("pyxform.xls2json", "pyxform.xls2json_backends", "pyxform.utils", "pyxform.parsing.sheet_headers"):
            m = repo.modules.get(modname)
            if not m:
                continue
            for name in m.assigns:
                v = ctx.consts.try_get(modname, name)
                pat = getattr(v, "pattern", v if isinstance(v, str) else None)
                if isinstance(pat, str) and re.search(r"\\x0[0-8]|\\x1[0-9a-f]|[\x00-\x08]", pat):
                    handles_c0 = True
    r7.check(handles_c0, "cells->text sinks:C0 controls", "C0 control characters (other than TAB/LF/CR) are escaped, stripped or rejected before reaching a text or attribute sink",
             "pyxform/utils.py", why_fail="no escaper entry and no validator pattern covers U+0000-U+001F")
    rules.append(r7)
    rules.append(name_validator_rule(ctx, "C01", "C01.R8"))
    choice_header_obligations(ctx, r2, "C01.R2")
    return rules


def choice_header_obligations(ctx, r2, rid):
    """Choices-sheet headers become element names of the choice items: the header validator reports AND removes every
    header that is blank or contains a space, and ONLY those - any other header (non-ASCII letters, dots, dashes,
    underscores, digits after the first character) is an extra column whose cells belong in the choice items."""
    vh = ctx.func("pyxform.validators.pyxform.choices:validate_headers", rid)
    it = ctx.interp(rid)
    it.reset([])
    w = []
    keep = ("list_name", "name", "label", "region", "list name", "région", "население", "h-I", "J.k", "_x", "col2", "ñandú", "a.b-c_d")
    drop = ("", "my col", " ", "a b c")
    hdrs = tuple((h,) for h in keep + drop)
    try:
        bad = it.call_function(vh, [], {"headers": hdrs, "warnings": w}, None, vh.node)
    except Raised as e:
        bad = f"raises {e.exc_name}"
    r2.check(isinstance(bad, tuple) and set(bad) >= set(drop) and len(w) >= len(drop), "validate_headers[blank / spaced headers]",
             "blank headers and headers with spaces are reported and returned for removal (list name excepted)", vh.loc(), why_fail=f"returned {bad!r}, {len(w)} warnings")
    wrongly = sorted(set(bad) & set(keep)) if isinstance(bad, tuple) else []
    r2.check(isinstance(bad, tuple) and not wrongly and len(w) == len(drop), "validate_headers[other headers are kept]",
             "a header that is a valid XML name (including non-ASCII letters, '.', '-', '_') is not reported and not removed: its cells are extra choice data", vh.loc(),
             why_fail=f"removed {wrongly}; {len(w)} warnings for {len(drop)} invalid headers")


def name_validator_rule(ctx, prop, rid):
    """The XML-name validator (is_xml_tag -> RE_ONLY_NCNAME) accepts nothing that is not an XML NCName[:NCName]:
    decided on the syntax tree of the folded pattern against productions [4]/[4a] of XML 1.0 (fifth edition)."""
    from .. import regexlang as R
    r = Rule(prop, rid, "the name validator accepts only XML names", floor=3,
             necessary="a name accepted by the validator is written as an element name; a character outside NameChar makes the document ill-formed")
    rx = ctx.consts.get("pyxform.parsing.expression", "RE_ONLY_NCNAME", rid)
    pat = getattr(rx, "pattern", None)
    if not isinstance(pat, str):
        raise AnalysisError(rid, "RE_ONLY_NCNAME did not fold to a pattern")
    loc = "pyxform/parsing/expression.py"
    r.check(pat.startswith("^") and pat.endswith("$"), "RE_ONLY_NCNAME:anchors", "the pattern is anchored at both ends (whole-string match)", loc)
    bad_any = R.subtract(R.universe(pat), R.NCNAME_CHAR + [(0x3A, 0x3A)])
    r.check(not bad_any, "RE_ONLY_NCNAME:characters", "every character the pattern can match is an XML NameChar (or the single prefix colon)", loc,
            why_fail=f"also matches {R.fmt(bad_any)}")
    bad_first = R.subtract(R.first_set(pat), R.NCNAME_START)
    r.check(not bad_first, "RE_ONLY_NCNAME:first character", "every possible first character is an XML NameStartChar", loc, why_fail=f"also starts with {R.fmt(bad_first)}")
    ixt = ctx.func("pyxform.parsing.expression:is_xml_tag", rid)
    uses = [n for n in ast.walk(ixt.node) if isinstance(n, ast.Name) and n.id == "RE_ONLY_NCNAME"]
    r.check(bool(uses), "is_xml_tag:pattern", "is_xml_tag decides with that pattern", ixt.loc())
    # ... and with nothing else: the function itself, evaluated on names around the edges of the Name production (an
    # oracle built from the XML 1.0 NameStartChar / NameChar tables, not from the pattern)
    def _is_ncname(t):
        def inr(ch, table):
            return any(lo <= ord(ch) <= hi for lo, hi in table)
        return bool(t) and inr(t[0], R.NCNAME_START) and all(inr(c, R.NCNAME_CHAR) for c in t[1:])

    def _is_qname(t):
        parts = t.split(":")
        return len(parts) in (1, 2) and all(_is_ncname(p_) for p_ in parts)
    samples = ["q1", "_x", "a.b", "a-b", "caf\u00e9", "cafe\u0301", "\u00e9t\u00e9", "dose_\u00b5g", "n\u00aa", "n\u00ba_1", "a\u00b7b", "\u00b7a", "1a", "-a", ".a", "a b", "a\tb", "", " ", "a%b", "a/b", "a:b", "a:b:c", ":a", "a:",
               "\u0660", "a\u0660", "\u2160x", "x\u2160", "\u00d7", "a\u00d7", "\u00f7a", "\u037e", "a\u037e", "\u203f", "a\u203f", "\u2040a", "\U00010000", "a\U00010000", "\ufffe", "a\ufdd0", "x" * 200, "A_b.c-9"]
    bad_s = []
    for t in samples:
        itn = ctx.interp(rid)
        itn.reset([])
        try:
            got = bool(itn.call_function(ixt, [t], {}, None, ixt.node))
        except Raised as e:
            got = f"raises {e.exc_name}"
        want = _is_qname(t)
        # the validator may be stricter than XML (rejecting a valid name is not an ill-formed document); it must never accept a non-name
        if got is True and not want:
            bad_s.append(f"{t!r} accepted")
        elif got not in (True, False):
            bad_s.append(f"{t!r}: {got}")
    r.check(not bad_s, "is_xml_tag[names around the edges of the XML Name production]", f"{len(samples)} names: nothing that is not an XML name is accepted", ixt.loc(), why_fail="; ".join(bad_s[:4]))
    must_accept = ["q1", "_x", "a.b", "a-b", "caf\u00e9", "A_b.c-9", "cafe\u0301", "a\u00b7b"]
    rej = []
    for t in must_accept:
        itn = ctx.interp(rid)
        itn.reset([])
        if itn.call_function(ixt, [t], {}, None, ixt.node) is not True:
            rej.append(t)
    # ... and the validator is applied to every element of the tree, whatever its kind and depth (whole-tree evaluation)
    from .c02 import tree_validation_obligations
    tree_validation_obligations(ctx, r, rid)
    r.check(not rej, "is_xml_tag[ordinary valid names]", "ordinary valid names (letters, digits, '.', '-', '_', accents, combining marks) are accepted", ixt.loc(), why_fail=f"rejected {rej}")
    # the element validator refuses every name the pattern rejects - also one made of individually allowed characters
    se = ctx.repo.cls("pyxform.survey_element:SurveyElement")
    sev = se.methods["validate"]
    for valid, found in ((True, True), (False, True), (False, False)):
        it = ctx.interp(rid, hooks={"fnname:is_xml_tag": lambda i, a, k, n, v=valid: v,
                                   "ext:re.search": lambda i, a, k, n, f=found: Sym("M", truthy=True, attrs={"group": lambda i2, a2, k2, n2: "?"}) if f else None})
        it.reset([])
        o = Obj(se, {"name": Sym("NAME", truthy=True, pytype=str)}, name="el")
        desc = f"SurveyElement.validate[name {'valid' if valid else 'invalid'}{'' if found or valid else ', no single offending character'}]"
        try:
            it.call_function(sev, [o], {}, None, sev.node)
            r.check(valid, desc, "only valid XML names pass", sev.loc())
        except Raised as e:
            r.check(not valid and "PyXFormError" in e.mro, desc, "an invalid name is refused with PyXFormError", sev.loc(), why_fail=f"raised {e.exc_name}")
    return r


def _dead_site(prov, site) -> bool:
    """Statements after `if v: return ...` where v can only be an XML node object
    (curated fact: xml.dom.Node.__bool__ is always true) never execute."""
    from ..loader import ancestors
    body = site.fi.node.body
    top = site.call
    for a in ancestors(site.call):
        if a is site.fi.node:
            break
        top = a
    try:
        idx = next(i for i, st in enumerate(body) if st is top)
    except StopIteration:
        return False
    for st in body[:idx]:
        if isinstance(st, ast.If) and isinstance(st.test, ast.Name) and st.body and isinstance(st.body[-1], ast.Return) and not st.orelse:
            if prov.classify(st.test, site.fi) == frozenset({"NODE"}):
                return True
    return False


def _range_params_validated(ctx) -> bool:
    """The only producer of RangeQuestion parameters validates the keys against a
    literal allow-list, and only the `range` type reaches RangeQuestion."""
    fn = ctx.repo.find_func("pyxform.xls2json:process_range_question_type")
    if fn is None:
        return False
    allowed = None
    vline = sline = None
    for x in walk_own(fn.node):
        if isinstance(x, ast.Call) and call_name(x) == "validate":
            a = next((k.value for k in x.keywords if k.arg == "allowed"), None)
            ok, v = const_str(ctx, fn.module, a) if a is not None else (False, None)
            if ok:
                allowed, vline = v, x.lineno
        if isinstance(x, ast.Assign) and isinstance(x.targets[0], ast.Subscript):
            ok, k = const_str(ctx, fn.module, x.targets[0].slice)
            if ok and k == "parameters":
                sline = x.lineno
    if not allowed or vline is None or sline is None or vline > sline:
        return False
    if not all(isinstance(a, str) and re.fullmatch(r"[A-Za-z_][\w.-]*", a) for a in allowed):
        return False
    qtd = ctx.consts.get("pyxform.question_type_dictionary", "QUESTION_TYPE_DICT", "C01.R2")
    range_types = [t for t, spec in qtd.items() if (spec.get("control") or {}).get("tag") == "range"]
    qc = ctx.consts.get("pyxform.builder", "QUESTION_CLASSES", "C01.R2")
    to_range = [k for k, v in qc.items() if getattr(getattr(v, "ci", None), "name", "") == "RangeQuestion"]
    return range_types == ["range"] and to_range == ["range"]


def _entities_guard(ctx) -> bool:
    """get_nsmap declares the entities prefix whenever `entity_features` is set — for every author-supplied
    `namespaces` setting of the evaluation table (including prefixes that merely end in "entities") and on repeated
    generation; and never otherwise."""
    from .c19 import nsmap_table
    for desc, feats, ns, res in nsmap_table(ctx, "C01.R1"):
        has = isinstance(res, dict) and res.get("xmlns:entities") == "http://www.opendatakit.org/xforms/entities"
        if feats and not has:
            return False
        if not feats and isinstance(res, dict) and "xmlns:entities" in res:
            return False
    return True


def _balanced(events, shape, n_attrs):
    """events of one evaluation -> (ok, why)."""
    ev = list(events)
    if not ev or ev[0][0] != "write":
        return False, "no opening write"
    first = flatten(ev[0][1])
    lits = [p for p in first if isinstance(p, str)]
    tag = [p for p in first if isinstance(p, Sym) and "TAG" in p.tags]
    if "".join(lits) != "<" or len(tag) != 1 or first[-1] is not tag[0]:
        return False, f"opening write is {first!r}, expected [indent] '<' TAG"
    i = 1
    for a in range(n_attrs):
        try:
            w1, wd, w2 = ev[i], ev[i + 1], ev[i + 2]
        except IndexError:
            return False, "attribute writes missing"
        p1 = flatten(w1[1]) if w1[0] == "write" else []
        if not (len(p1) == 3 and p1[0] == " " and isinstance(p1[1], Sym) and "ATTRNAME" in p1[1].tags and p1[2] == '="'):
            return False, f"attribute prefix write is {p1!r}"
        if not (wd[0] == "write_data" and isinstance(wd[1], Sym) and "ATTRVAL" in wd[1].tags and wd[1].name[-1] == p1[1].name[-1]):
            return False, f"attribute value is not written through the escaping writer: {wd!r}"
        if not (w2[0] == "write" and w2[1] == '"'):
            return False, f"attribute is not closed by a quote: {w2!r}"
        i += 3
    rest = ev[i:]
    if any(e[0] == "write_data" for e in rest):
        return False, "escaping writer used outside attribute values"
    if not shape:
        ok = len(rest) == 1 and rest[0][0] == "write" and "".join(p for p in flatten(rest[0][1]) if isinstance(p, str)) == "/>"
        return ok, f"empty element should end with '/>': {rest!r}"
    if not (rest and rest[0] == ("write", ">")):
        return False, f"start tag is not closed by '>': {rest[:1]!r}"
    last = rest[-1]
    lp = flatten(last[1]) if last[0] == "write" else []
    lit = "".join(p for p in lp if isinstance(p, str))
    tg = [p for p in lp if isinstance(p, Sym) and "TAG" in p.tags]
    if lit != "</>" or len(tg) != 1 or tg[0].name != tag[0].name or not (isinstance(lp[0], str) and lp[0] == "</"):
        return False, f"end tag write is {lp!r}, expected '</' TAG '>' [newl]"
    mid = rest[1:-1]
    for e in mid:
        if e[0] == "write":
            txt = "".join(p for p in flatten(e[1]) if isinstance(p, str))
            if "<" in txt or ">" in txt or '"' in txt:
                return False, f"markup written between the tags by the element itself: {e!r}"
    if [e[1] for e in mid if e[0] == "child"] != list(range(len(shape))):
        return False, "children are not serialised exactly once in order"
    return True, ""
