"""C09 — choice lists survive intact and selects are wired to their own list."""

from __future__ import annotations

import ast

from .. import spec_xlsform as spec
from ..astutil import call_name, const_str, guard_texts
from ..interp import ClassVal, GenList, NodeVal, Obj, Raised, Sym, explore
from ..loader import AnalysisError, norm, walk_own
from ..report import Rule
from ..xmlmodel import node_hook
from .c07 import _mk
from .c19 import _row_loop

EXPLANATION = (
    "Abstract evaluation (analyser's own evaluator, representative concrete rows) of the choice pipeline pieces: "
    "grouping by list name, choice cleaning, Itemset construction, the choice-instance generator (per-item field "
    "emission in order), the instance de-duplicator (same id same URI -> once; different URI -> PyXFormError; "
    "search-only lists skipped; choices last), each instance producer's URI against the documented convention, the "
    "select control builder (nodeset reads the receiver's own list, filter, randomize/seed, value/label refs, "
    "geojson defaults), the external query, the or-other companion literals, and the itemsets.csv writer (every "
    "cell under its own header) with its reader-side type constant."
)
NOT_DECIDED = ("that arbitrary sheets are grouped correctly at run time beyond the order/size preservation of each stage on representative "
               "rows; content of labels per language (C08)")
ASSUMPTIONS = ["representative rows stand for their shape class (complete / sparse / shared list / extra columns)", "csv.writer.writerow is positional"]


def _choices_threading_rule(ctx):
    """A select finds its list's Itemset (and with it the decision itext vs. in-line labels) through the `choices`
    mapping the builder threads down the recursion: every builder method that receives `choices` hands it on at every
    call of a builder method that accepts it - also for the children of loops and included sections."""
    r = Rule("C09", "C09.R9", "the choices mapping is threaded through every recursive builder call", floor=3,
             necessary="a select built without the mapping is not bound to its list: its labels are read from `label` while the list's items carry itextId only")
    bcls = ctx.repo.cls("pyxform.builder:SurveyElementBuilder")
    scls = ctx.repo.cls("pyxform.survey:Survey")
    cf = bcls.methods["create_survey_element_from_dict"]
    MAPPING = {"l": Obj(None, {"name": "l"}, name="itemset:l"), "m": Obj(None, {"name": "m"}, name="itemset:m")}
    seen = []

    def _section(cls_):
        def h(i, a, k, n):
            return Obj(cls_, {"name": k.get("name"), "type": k.get("type"), "children": [], "choices": (MAPPING if k.get("type") == "survey" else None),
                              "add_child": lambda i2, a2, k2, n2: None, "add_children": lambda i2, a2, k2, n2: None,
                              "setvalues_by_triggering_ref": None, "setgeopoint_by_triggering_ref": None, "entity_features": None}, name=f"section:{k.get('name')}")
        return h
    hooks = {"fnname:_create_question_from_dict": lambda i, a, k, n: (seen.append((k.get("d", a[0] if a else {}).get("name"), k.get("choices"))), Obj(None, {"name": "q"}, name="q"))[1],
             "new:GroupedSection": _section(ctx.repo.cls("pyxform.section:GroupedSection")), "new:RepeatingSection": _section(ctx.repo.cls("pyxform.section:RepeatingSection")), "new:Survey": _section(scls)}
    sel = lambda nm: {"type": "select one", "name": nm, "itemset": "l", "list_name": "l"}
    FORMS = {
        "select at the top level": ([sel("s0")], ["s0"]),
        "select in a group in a repeat": ([{"type": "group", "name": "g", "children": [{"type": "repeat", "name": "r", "children": [sel("s1"), {"type": "text", "name": "t"}]}]}], ["s1", "t"]),
        "select in a loop template (one copy per column)": ([{"type": "loop", "name": "lp", "columns": [{"name": "x", "label": "X"}, {"name": "y", "label": "Y"}], "children": [sel("s2_%(name)s")]}], ["s2_x", "s2_y"]),
        "select in a group inside a loop template": ([{"type": "loop", "name": "lp", "columns": [{"name": "x", "label": "X"}], "children": [{"type": "group", "name": "g_%(name)s", "children": [sel("s3")]}]}], ["s3"]),
    }
    for fname, (kids, want_names) in FORMS.items():
        seen.clear()
        it = ctx.interp("C09.R9", hooks=hooks, inline=lambda fi: True)
        it.reset([])
        b = Obj(bcls, {}, name="builder")
        it.call_function(bcls.methods["__init__"], [b], {}, None, None)
        try:
            it.call_function(cf, [b], {"d": {"type": "survey", "name": "data", "choices": {"l": [{"name": "a", "label": "A"}]}, "children": kids}}, None, cf.node)
            got = [(nm, ch is MAPPING) for nm, ch in seen]
        except Raised as e:
            got = f"raises {e.exc_name}{e.exc_args}"
        r.check(got == [(nm, True) for nm in want_names], f"builder:choices mapping[{fname}]", "every question is built with the survey's own choices mapping, wherever it sits", cf.loc(), why_fail=repr(got)[:200])
    return r


def pulldata_text_obligations(ctx, rule, rid):
    """Only expressions are scanned for pulldata(): the words `pulldata('x', ...)` typed in a message (plain text shown to
    the user) or a label declare nothing - author text never adds an element to the form."""
    repo = ctx.repo
    scls = repo.cls("pyxform.survey:Survey")
    gp = scls.methods["_generate_pulldata_instances"]
    msg = "Not a code that pulldata('fruits', 'name', 'key', 1) can find"
    for desc, attrs in (("constraint message", {"bind": {"type": "string", "constraint": ". > 1", "jr:constraintMsg": msg}}), ("required message", {"bind": {"type": "string", "jr:requiredMsg": msg}}),
                        ("noAppErrorString", {"bind": {"type": "string", "jr:noAppErrorString": msg}}), ("label", {"bind": {"type": "string"}, "label": msg}), ("hint", {"bind": {"type": "string"}, "hint": msg})):
        it = ctx.interp(rid, hooks={"fnname:node": node_hook, "new:InstanceInfo": lambda i, a, k, n: dict(k)})
        it.reset([])
        kw_ = {"choice_filter": None, "default": None}
        kw_.update(attrs)
        el = _mk(ctx, repo.cls("pyxform.question:InputQuestion"), "q", parent=Obj(None, {"type": "survey", "name": "data"}, name="data"), **kw_)
        try:
            got = [i_.get("name") for i_ in it.call_function(gp, [], {"element": el}, None, gp.node)]
        except Raised as e:
            got = f"raises {e.exc_name}"
        rule.check(got == [], f"pulldata[the words in a {desc}]", "declare no instance (text is not an expression)", gp.loc(), why_fail=f"instances {got!r}")


def sparse_extra_columns_obligation(ctx, rule, rid):
    repo = ctx.repo
    scls = repo.cls("pyxform.survey:Survey")
    ocls = repo.cls("pyxform.question:Option")
    icls = repo.cls("pyxform.question:Itemset")
    gsi = scls.methods["_generate_static_instances"]
    # sparse extra columns: a column that is empty on the list's FIRST row (or on any other row) is still emitted for the
    # rows that have it, in every position of the list
    import itertools as _it2
    cells = [{"region": "r1"}, {"pop": "5"}, None, {"region": "r2", "pop": "7"}]
    for perm in _it2.permutations(range(4), 4):
        opts_s = tuple(_mk(ctx, ocls, f"o{j}", label=f"L{j}", extra_data=(dict(cells[j]) if cells[j] else None)) for j in perm)
        iset_s = Obj(icls, {"name": "lst", "options": opts_s, "requires_itext": False, "used_by_search": False}, name="itemset")
        its = ctx.interp(rid, hooks={"fnname:node": node_hook, "new:InstanceInfo": lambda i, a, k, n: dict(k)})
        its.reset([])
        try:
            info_s = its.call_function(gsi, [Obj(scls, {}, name="survey")], {"list_name": "lst", "itemset": iset_s}, None, gsi.node)
            items_s = info_s["instance"].children[0].children
            got_s = [{c.tag: c.text for c in item.children if c.tag not in ("name", "label")} for item in items_s]
        except Raised as e:
            got_s = f"raises {e.exc_name}"
        want_s = [dict(cells[j]) if cells[j] else {} for j in perm]
        if got_s != want_s:
            rule.fail(f"_generate_static_instances[sparse extra columns, row order {perm}]", "every extra cell of every choice is in its item", gsi.loc(), why_fail=f"got {got_s!r}, expected {want_s!r}")
            break
    else:
        rule.ok("_generate_static_instances[sparse extra columns, all 24 row orders]", "every extra cell of every choice is in its item, whichever row comes first", gsi.loc())


def has_external_choices_obligations(ctx, rule, rid):
    """The decision whether itemsets.csv is produced: true iff an external select occurs anywhere in the JSON form."""
    he = ctx.func("pyxform.utils:has_external_choices", rid)
    it = ctx.interp(rid)
    sel = ctx.consts.get("pyxform.aliases", "select", rid)
    ext_type = sel.get("select_one_external")
    for desc, js, want in (("nested external select", {"type": "survey", "children": [{"type": "group", "children": [{"type": ext_type, "name": "q"}]}]}, True),
                           ("no external select", {"type": "survey", "children": [{"type": "select one", "name": "q"}]}, False),
                           ("external select in a group that has bind / control / translated label before its children",
                            {"type": "survey", "name": "data", "children": [{"type": "text", "name": "a", "bind": {"required": "yes"}, "label": {"en": "A"}},
                                                                          {"type": "group", "name": "g", "bind": {"relevant": "${a} = 1"}, "control": {"appearance": "field-list"}, "label": {"en": "G", "fr": "G"},
                                                                           "children": [{"type": "text", "name": "b"}, {"type": ext_type, "name": "q", "itemset": "l"}]}]}, True),
                           ("external select after a plain select with choices", {"type": "survey", "choices": {"l": [{"name": "x", "label": "X"}]},
                                                                                 "children": [{"type": "select one", "name": "s", "choices": [{"name": "x"}]}, {"type": "repeat", "name": "r", "children": [{"type": ext_type, "name": "q"}]}]}, True),
                           ("containers everywhere, no external select", {"type": "survey", "choices": {"l": [{"name": "x"}]}, "children": [{"type": "group", "bind": {"relevant": "1"}, "children": [{"type": "text", "name": "b", "bind": {"x": "y"}}]}]}, False)):
        it.reset([])
        rule.check(it.call_function(he, [js], {}, None, he.node) is want, f"has_external_choices[{desc}]", f"-> {want} (uses the type the row loop assigns)", he.loc())
    # every container type the row loop can open (the values of the control-type alias table) may hold the external select
    control = ctx.consts.get("pyxform.aliases", "control", rid)
    for ct in sorted(set(control.values())):
        for depth in (1, 2):
            inner = {"type": ct, "name": "c", "children": [{"type": "text", "name": "t"}, {"type": ext_type, "name": "q", "itemset": "l"}]}
            if ct == "loop":
                inner["columns"] = [{"name": "a", "label": "A"}]
            if depth == 2:
                inner = {"type": "group", "name": "outer", "children": [inner]}
            js = {"type": "survey", "name": "data", "children": [inner]}
            it.reset([])
            try:
                got = it.call_function(he, [js], {}, None, he.node)
            except Raised as e:
                got = f"raises {e.exc_name}"
            rule.check(got is True, f"has_external_choices[external select inside a `{ct}`, depth {depth}]", "-> True", he.loc(), why_fail=repr(got))


def or_other_obligations(ctx, rule, rid, w2j, loop):
    """The or_other block of the row loop, evaluated as a dependency slice (the statements that mention the 'other'
    choice constant and the companion question, plus the assignments they depend on) over the list shapes: the 'other'
    choice is appended once iff the row says or_other and the list has none yet - as a per-language label when the list
    is translated - and the companion text question is <name>_other, relevant when 'other' is selected."""
    from ..rowloop import dependency_slice
    anchors = [n for n in ast.walk(loop) if isinstance(n, ast.Attribute) and n.attr == "OR_OTHER_CHOICE"]
    if not anchors:
        rule.fail("or_other:block", "the row loop refers to the 'other' choice constant", w2j.loc(loop))
        return
    known = {"parse_dict": None, "choices": None, "row": None, "row_number": 7, "list_name": "l", "sheet_translations": None, "select_type": "select one", "warnings": None,
             "question_name": "fruit", "parameters": {}}
    comp_anchor = [x for x in ast.walk(loop) if isinstance(x, ast.Constant) and x.value == "Specify other."]
    from ..loader import ancestors
    guard_if = next((a_ for a_ in ancestors(anchors[0]) if isinstance(a_, ast.If) and "specify_other" in norm(a_.test)), None)
    stmts = dependency_slice(w2j, loop, [*anchors, *comp_anchor[:1], *([guard_if.test] if guard_if is not None else [])], lambda nm: nm in known)
    free = {n.id for st in stmts for n in ast.walk(st) if isinstance(n, ast.Name) and isinstance(n.ctx, ast.Load)}
    A, B = {"name": "a", "label": "A"}, {"name": "b", "label": "B"}
    TA, TB = {"name": "a", "label": {"en": "A", "fr": "Af"}}, {"name": "b", "label": {"en": "B"}}
    cases = [
        ("plain list", "or_other", [dict(A), dict(B)], {"name": "other", "label": "Other"}),
        ("list that already has `other`", "or_other", [dict(A), {"name": "other", "label": "Mine"}], None),
        ("translated list", "or_other", [dict(TA, label=dict(TA["label"])), dict(TB, label=dict(TB["label"]))], {"name": "other", "label": {"en": "Other", "fr": "Other"}}),
        ("translated list with a plain-label choice", "or_other", [dict(TA, label=dict(TA["label"])), dict(B)], {"name": "other", "label": {"en": "Other", "fr": "Other"}}),
        ("translated list with a choice without label", "or_other", [dict(TA, label=dict(TA["label"])), {"name": "b", "media": {"image": "b.png"}}], {"name": "other", "label": {"en": "Other", "fr": "Other"}}),
        ("no or_other on the row", None, [dict(A), dict(B)], None),
    ]
    # ... for a select row with and without logic cells of its own: the companion carries the 'other' condition and
    # nothing of the select's bind (required, constraint, save_to, calculation belong to the select alone)
    ROW_BIND = {"required": "yes", "constraint": ". != 'x'", "jr:constraintMsg": "no x", "entities:saveto": "fruit_p", "relevant": "${a} = 1", "calculate": "1"}
    cases = [(d_, s_, [dict(c_, **({"label": dict(c_["label"])} if isinstance(c_.get("label"), dict) else {})) for c_ in l_], w_, rb_) for rb_ in (None, ROW_BIND) for d_, s_, l_, w_ in cases]
    for desc, spec_other, lst, want_added, row_bind in cases:
        if row_bind:
            desc += ", select row with logic cells"
        before = [dict(c) for c in lst]
        env = dict(known)
        env.update({"parse_dict": {"specify_other": spec_other, "list_name": "l", "select_command": "select_one"}, "choices": {"l": lst, "m": [dict(A)]},
                    "row": {"name": "fruit", "type": "select_one l or_other", "label": "F", **({"bind": dict(row_bind)} if row_bind else {})},
                    "sheet_translations": Obj(None, {"or_other_seen": False}, name="sheet_translations"), "warnings": []})
        env = {k: v for k, v in env.items() if k in free}
        itb = ctx.interp(rid)
        itb.reset([])
        try:
            # state the block keeps from row to row (a per-conversion set / dict created before the loop): its creating
            # statement at the top level of the function is run first
            for nm_ in sorted(free - set(env)):
                for st_ in w2j.node.body:
                    if st_ is loop or any(x_ is loop for x_ in ast.walk(st_)):
                        break
                    tg_ = st_.targets[0] if isinstance(st_, ast.Assign) and len(st_.targets) == 1 else (st_.target if isinstance(st_, ast.AnnAssign) and st_.value is not None else None)
                    if isinstance(tg_, ast.Name) and tg_.id == nm_ and not any(isinstance(n_, ast.Name) and n_.id not in ("set", "dict", "list", "frozenset") for n_ in ast.walk(st_.value)):
                        itb.exec(ast.Assign(targets=[ast.Name(id=nm_, ctx=ast.Store())], value=st_.value, lineno=st_.lineno, col_offset=0) if isinstance(st_, ast.AnnAssign) else st_, env, w2j.module)
            itb.exec_block(stmts, env, w2j.module)
        except Raised as e:
            rule.fail(f"or_other[{desc}]", f"the block evaluates (raises {e.exc_name}{e.exc_args})", w2j.loc(stmts[0]))
            continue
        added = lst[len(before):]
        ok = lst[:len(before)] == before and (added == [want_added] if want_added is not None else added == [])
        if ok and want_added is not None and isinstance(want_added["label"], dict):
            ok = set(added[0]["label"]) == set(want_added["label"])
        rule.check(ok, f"or_other[{desc}]", ("one 'other' choice is appended: " + repr(want_added)) if want_added is not None else "the list is left as it is", w2j.loc(stmts[0]),
                   why_fail=f"appended {added!r}; first choices {'unchanged' if lst[:len(before)] == before else 'changed'}")
        comp_ = env.get("specify_other_question")
        if spec_other:
            rule.check(comp_ == {"type": "text", "name": "fruit_other", "label": "Specify other.", "bind": {"relevant": "selected(../fruit, 'other')"}}, f"or_other[{desc}]:companion",
                       "companion is a text question <name>_other relevant when 'other' is selected in the select", w2j.loc(stmts[0]), why_fail=repr(comp_))
        else:
            rule.check(comp_ is None, f"or_other[{desc}]:companion", "no companion question without or_other", w2j.loc(stmts[0]), why_fail=repr(comp_))
        # a second or_other select on the SAME list, later on the sheet (the block run again on what the first run left):
        # the list is not given a second 'other', and the second select gets its own companion
        if spec_other and "row" in env:
            after1 = [dict(c) for c in lst]
            env["row"] = {"name": "veg", "type": "select_one l or_other", "label": "V"}
            if "question_name" in env:
                env["question_name"] = "veg"
            env.pop("specify_other_question", None)
            try:
                itb.exec_block(stmts, env, w2j.module)
                comp2 = env.get("specify_other_question")
                ok2 = lst == after1 and comp2 == {"type": "text", "name": "veg_other", "label": "Specify other.", "bind": {"relevant": "selected(../veg, 'other')"}}
                why2 = f"list {'unchanged' if lst == after1 else 'changed'}; companion {comp2!r}"
            except Raised as e:
                ok2, why2 = False, f"raises {e.exc_name}{e.exc_args}"
            rule.check(ok2, f"or_other[{desc}]:second select on the list", "the list keeps its single 'other'; the second select gets <name>_other of its own", w2j.loc(stmts[0]), why_fail=why2)
    # the shared constant is never handed out by reference into a list the loop mutates later... (value equality is what is decided here)


def _ix_hook(i, a, k, n):
    """Stand-in for Survey.insert_xpaths(text, context, use_current=False, ...): `S[text]`, plus `@cur` when the caller asks
    for current()-prefixed relative paths (needed inside a predicate over a secondary instance)."""
    pos = [x for x in a if not (isinstance(x, Obj) and x.name == "survey")]
    text = k.get("text", pos[0] if pos else None)
    use_current = k.get("use_current", pos[2] if len(pos) > 2 else False)
    return "S[" + str(text) + "]" + ("@cur" if use_current is True else "")


def run(ctx):
    repo = ctx.repo
    rules = []
    scls = repo.cls("pyxform.survey:Survey")
    mq = repo.cls("pyxform.question:MultipleChoiceQuestion")
    ocls = repo.cls("pyxform.question:Option")
    icls = repo.cls("pyxform.question:Itemset")

    # ------------------------------------------------------------------ R1
    r1 = Rule("C09", "C09.R1", "order- and size-preserving choice pipeline", floor=5,
              necessary="a stage that sorts, drops or merges rows changes the items of a list")
    gd = ctx.func("pyxform.xls2json:group_dictionaries_by_key", "C09.R1")
    it = ctx.interp("C09.R1")
    it.reset([])
    rows = [{"list name": "b", "name": "2"}, {"list name": "a", "name": "1"}, {"name": "orphan"}, {"list name": "b", "name": "1"}, {"list name": "a", "name": "1"}]
    res = it.call_function(gd, [], {"list_of_dicts": [dict(r) for r in rows], "key": "list name"}, None, gd.node)
    r1.check(list(res) == ["b", "a"] and [r["name"] for r in res["b"]] == ["2", "1"] and [r["name"] for r in res["a"]] == ["1", "1"] and all("list name" not in r for l in res.values() for r in l),
             "group_dictionaries_by_key", "lists appear in first-seen order, items keep sheet order (duplicates kept), rows without the key are not attached to any list", gd.loc(), why_fail=repr(res))
    vc = ctx.func("pyxform.validators.pyxform.choices:validate_and_clean_choices", "C09.R1")
    it.reset([])
    ch = {"l": [{"name": "a", "label": "A", "bad header": "x", "extra": "1", "__row": 2}, {"name": "b", "label": "B", "__row": 3}], "m": [{"name": "a", "label": "A", "__row": 4}]}
    w = []
    out = it.call_function(vc, [], {"choices": ch, "warnings": w, "headers": (("list name",), ("name",), ("label",), ("bad header",), ("extra",))}, None, vc.node)
    r1.check(list(out) == ["l", "m"] and [o["name"] for o in out["l"]] == ["a", "b"] and out["l"][0] == {"name": "a", "label": "A", "extra": "1"} and len(w) == 1,
             "validate_and_clean_choices", "no choice is dropped or reordered; only invalid-header cells and the row marker are removed (with a warning)", vc.loc(), why_fail=repr(out))
    # Itemset construction: one pass, tuple, same order
    it = ctx.interp("C09.R1")
    it.reset([])
    choices = [{"name": "x", "label": "X", "region": "r1"}, {"name": "y", "label": {"en": "Y"}}, {"name": "x", "label": "X again"}]
    try:
        iset = it.call(ClassVal(icls), [], {"name": "lst", "choices": choices}, None)
        opts = iset.attrs.get("options")
        r1.check(isinstance(opts, tuple) and [o.attrs.get("name") for o in opts] == ["x", "y", "x"] and iset.attrs.get("requires_itext") is True,
                 "Itemset.__init__", "options are a tuple of the rows in order (duplicates kept); a translated label switches the list to itext", icls.module.relpath, why_fail=repr(opts))
        r1.check(opts[0].attrs.get("extra_data") == {"region": "r1"}, "Option.extra_data", "unknown choice columns are kept as extra data", ocls.module.relpath, why_fail=repr(opts[0].attrs))
    except Raised as r:
        r1.fail("Itemset.__init__", f"constructs from choice rows (raised {r.exc_name}{r.exc_args})", icls.module.relpath)
    # the Survey constructor builds one Itemset per list, keyed by list name, in order
    si = scls.methods["__init__"]
    dc = [x for x in walk_own(si.node) if isinstance(x, ast.DictComp)]
    r1.check(len(dc) == 1 and norm(dc[0].key) == "list_name" and "Itemset(name=list_name, choices=values)" in norm(dc[0].value) and "choices.items()" in norm(dc[0].generators[0].iter),
             "Survey.__init__:choices", "one Itemset per list, keyed and named by its list name, in dict order", si.loc())
    rules.append(r1)

    # ------------------------------------------------------------------ R2
    r2 = Rule("C09", "C09.R2", "per-item field emission of the choice instance", floor=4,
              necessary="a missing name/label/extra column or a reordered child changes what choice filters and clients read")
    gsi = scls.methods["_generate_static_instances"]
    for req in (False, True):
        opts = (_mk(ctx, ocls, "a", label={"en": "A"} if req else "A", extra_data={"region": "r1", "pop": "5"}, sms_option="1"),
                _mk(ctx, ocls, "b", label={"en": "B"} if req else "B", extra_data=None),
                _mk(ctx, ocls, "c", label=None if not req else {"en": "C"}, extra_data={"region": "r2"}))
        iset = Obj(icls, {"name": "lst", "options": opts, "requires_itext": req, "used_by_search": False}, name="itemset")
        it = ctx.interp("C09.R2", hooks={"fnname:node": node_hook, "new:InstanceInfo": lambda i, a, k, n: dict(k)})
        it.reset([])
        info = it.call_function(gsi, [Obj(scls, {}, name="survey")], {"list_name": "lst", "itemset": iset}, None, gsi.node)
        inst = info.get("instance")
        ok = isinstance(inst, NodeVal) and inst.tag == "instance" and inst.attrs == {"id": "lst"} and len(inst.children) == 1 and inst.children[0].tag == "root"
        items = inst.children[0].children if ok else []
        shape = [[(c.tag, c.text) for c in item.children] for item in items]
        if req:
            want = [[("itextId", "lst-0"), ("name", "a"), ("region", "r1"), ("pop", "5"), ("sms_option", "1")], [("itextId", "lst-1"), ("name", "b")], [("itextId", "lst-2"), ("name", "c"), ("region", "r2")]]
        else:
            want = [[("name", "a"), ("label", "A"), ("region", "r1"), ("pop", "5"), ("sms_option", "1")], [("name", "b"), ("label", "B")], [("name", "c"), ("region", "r2")]]
        r2.check(ok and shape == want and all(i.tag == "item" for i in items), f"_generate_static_instances[requires_itext={req}]",
                 "one item per choice in order: [itextId] name [label] extra columns in column order", gsi.loc(), why_fail=repr(shape))
        r2.check(info.get("name") == "lst" and info.get("type") == "choice" and info.get("src") is None, f"_generate_static_instances[requires_itext={req}]:info", "instance is registered under the list name", gsi.loc())
    sparse_extra_columns_obligation(ctx, r2, "C09.R2")
    # extra columns survive the header validator unless their header is blank or contains a space
    from .c01 import choice_header_obligations
    choice_header_obligations(ctx, r2, "C09.R2")
    rules.append(r2)

    # ------------------------------------------------------------------ R3
    r3 = Rule("C09", "C09.R3", "one instance per id; clashes rejected; search-only lists inline; choices last", floor=5,
              necessary="a duplicated instance id is an invalid model; a silently dropped clash reads the wrong data source")
    gi = scls.methods["_generate_instances"]
    qcls = repo.cls("pyxform.question:InputQuestion")

    def info(name, src, typ="file"):
        return Obj(None, {"name": name, "src": src, "type": typ, "context": "ctx", "instance": NodeVal("instance", attrs={"id": name, "src": src})}, name=f"info:{name}:{src}")

    def run_gi(pull, choices, last_saved=False, from_file=None):
        q1, q2 = _mk(ctx, qcls, "q1", type="text"), _mk(ctx, mq, "q2", type="select one")
        q3 = _mk(ctx, mq, "q3", type="select one")
        per = {"q1": pull.get("q1", []), "q2": pull.get("q2", []), "q3": []}
        ff_ = from_file or {}
        hooks = {"fnname:node": node_hook, "fnname:iter_descendants": lambda i, a, k, n: [q1, q2, q3] if ff_ else [q1, q2],
                 "fnname:_generate_pulldata_instances": lambda i, a, k, n: GenList(per[k.get("element", a[-1] if a else None).name]),
                 "fnname:_generate_from_file_instances": lambda i, a, k, n: ff_.get(k.get("element", a[-1] if a else None).name),
                 "fnname:_generate_last_saved_instance": lambda i, a, k, n: last_saved,
                 "fnname:_get_last_saved_instance": lambda i, a, k, n: info("__last-saved", "jr://instance/last-saved", "instance"),
                 "fnname:_generate_static_instances": lambda i, a, k, n: info(k["list_name"], None, "choice")}
        it = ctx.interp("C09.R3", hooks=hooks)
        it.reset([])
        s = Obj(scls, {"choices": choices}, name="survey")
        return [x for x in it.call_function(gi, [s], {}, None, gi.node)]

    A, A2, B = info("a", "jr://file-csv/a.csv"), info("a", "jr://file-csv/a.csv"), info("a", "jr://file/a.xml")
    def iset(search):
        return Obj(icls, {"name": "l", "options": (), "requires_itext": False, "used_by_search": search}, name="iset")
    out = run_gi({"q1": [A], "q2": [A2]}, {"l1": iset(False), "l2": iset(True)}, last_saved=True)
    ids = [n.attrs.get("id") for n in out]
    r3.check(ids == ["a", "__last-saved", "l1"], "_generate_instances[same id same uri]", "a repeated (id, URI) is declared once; last-saved once; search-only lists are not instances; choices come last", gi.loc(), why_fail=repr(ids))
    try:
        out = run_gi({"q1": [A], "q2": [B]}, None)
        r3.fail("_generate_instances[same id different uri]", "rejected with PyXFormError", gi.loc(), why_fail=repr([n.attrs for n in out]))
    except Raised as r:
        r3.check("PyXFormError" in r.mro and "a" in str(r.exc_args[0]), "_generate_instances[same id different uri]", "rejected with PyXFormError naming the instance", gi.loc())
    try:
        out = run_gi({"q1": [info("l1", "jr://file-csv/l1.csv")]}, {"l1": iset(False)})
        r3.fail("_generate_instances[choice list vs file clash]", "rejected with PyXFormError", gi.loc())
    except Raised as r:
        r3.check("PyXFormError" in r.mro, "_generate_instances[choice list vs file clash]", "a choice list whose name clashes with an external instance is rejected", gi.loc())
    # two selects reading different files that would get the same instance id (same stem, other extension)
    try:
        out = run_gi({}, None, from_file={"q2": info("cities", "jr://file-csv/cities.csv"), "q3": info("cities", "jr://file/cities.xml")})
        r3.fail("_generate_instances[two files with one stem]", "rejected with PyXFormError", gi.loc(), why_fail=repr([n.attrs for n in out]))
    except Raised as r:
        r3.check("PyXFormError" in r.mro and "cities" in str(r.exc_args[0]), "_generate_instances[two files with one stem]", "cities.csv and cities.xml would share the id `cities`: rejected with PyXFormError naming it", gi.loc())
    out = run_gi({}, None, from_file={"q2": info("cities", "jr://file-csv/cities.csv"), "q3": info("cities", "jr://file-csv/cities.csv")})
    r3.check([n.attrs.get("id") for n in out] == ["cities"], "_generate_instances[two selects, one file]", "the shared file is declared once", gi.loc(), why_fail=repr([n.attrs for n in out]))
    # a list shown in-line by a search() select has no instance: a plain select on the same list is refused - whichever of
    # the two comes first on the sheet (evaluated: the registrar over both orders, and with another select between them)
    from .. import trees as _trees9
    st_ = scls.methods["_setup_translations"]
    opt_cls = repo.cls("pyxform.question:Option")

    def _sel9(nm_, search_):
        return _trees9.mk(ctx, mq, nm_, type="select one", label=nm_.upper(), bind={"type": "string"}, control=({"appearance": "search('x')"} if search_ else {}), itemset="l", list_name="l",
                          choice_filter=None, parameters=None)
    for desc_, order_ in (("search() select first", [("s1", True), ("p1", False)]), ("plain select first", [("p1", False), ("s1", True)]),
                          ("plain select first, another list's select between", [("p1", False), ("o1", None), ("s1", True)]), ("two search() selects only", [("s1", True), ("s2", True)]),
                          ("two plain selects only", [("p1", False), ("p2", False)])):
        iset_ = Obj(icls, {"name": "l", "options": (_trees9.mk(ctx, opt_cls, "a", label="A", media=None),), "requires_itext": False, "used_by_search": False}, name="itemset:l")
        iset_o = Obj(icls, {"name": "m", "options": (), "requires_itext": False, "used_by_search": False}, name="itemset:m")
        kids_ = []
        for nm_, search_ in order_:
            if search_ is None:
                e_ = _trees9.mk(ctx, mq, nm_, type="select one", label="O", bind={"type": "string"}, control={}, itemset="m", list_name="m", choices=iset_o, choice_filter=None, parameters=None)
            else:
                e_ = _sel9(nm_, search_)
                e_.attrs["choices"] = iset_
            kids_.append(e_)
        itr_ = ctx.interp("C09.R3")
        itr_.reset([])
        rd_ = itr_.call(itr_.module_global(repo.module("pyxform.survey"), "recursive_dict"), [], {}, None)
        sv_ = _trees9.mk(ctx, scls, "data", type="survey", children=kids_, choices={"l": iset_, "m": iset_o}, default_language="default", _translations=rd_)
        for e_ in kids_:
            e_.attrs["parent"] = sv_
        try:
            itr_.call_function(st_, [sv_], {}, None, st_.node)
            got_ = "accepted"
        except Raised as e:
            got_ = "refused" if "PyXFormError" in e.mro else f"raises {e.exc_name}{e.exc_args}"
        mixed_ = {x_[1] for x_ in order_ if x_[1] is not None} == {True, False}
        r3.check(got_ == ("refused" if mixed_ else "accepted"), f"search() and plain select on one list[{desc_}]", "refused with PyXFormError" if mixed_ else "accepted", st_.loc(), why_fail=got_[:200])
    ve = scls.methods["_validate_external_instances"]
    it = ctx.interp("C09.R3")
    import itertools as _itv
    ve_cases = [("unique", [info("x", "u", "external"), info("y", "v", "external")], False), ("duplicate", [info("x", "u", "external"), info("x", "u", "external")], True)]
    # every order of {x, x, y, z}: the duplicate is found wherever the two rows are on the sheet (also with other
    # external instances between them), and also when the rows come as a generator
    for perm in sorted(set(_itv.permutations(("x", "x", "y", "z")))):
        ve_cases.append((f"duplicate in sheet order {'-'.join(perm)}", [info(nm_, "jr://file/" + nm_ + ".xml", "external") for nm_ in perm], True))
    ve_cases.append(("three distinct in any order", [info(nm_, "u", "external") for nm_ in ("z", "x", "y")], False))
    for desc, lst, expect in ve_cases:
        it.reset([])
        try:
            it.call_function(ve, [lst], {}, None, ve.node)
            r3.check(not expect, f"_validate_external_instances[{desc}]", "unique xml-/csv-external names pass", ve.loc())
        except Raised as r:
            r3.check(expect and "PyXFormError" in r.mro, f"_validate_external_instances[{desc}]", "duplicate external instance names are rejected", ve.loc())
    # which selects count as search() selects: the function may appear anywhere in the appearance cell
    ris = scls.methods["_redirect_is_search_itext"]
    from .c07 import _mk as _mk7
    for app, want in (("search('x')", True), ("minimal search('x')", True), ("quick search('t', 'contains', 'c', ${v})", True), ("search('x') minimal", True),
                      ("minimal", False), ("", False), (None, False), ("searchable minimal", False), ("field-list", False)):
        opts_s = tuple(_mk7(ctx, ocls, f"o{i}", label=f"L{i}", media=None) for i in range(2))
        iset = Obj(icls, {"name": "lst", "options": opts_s, "requires_itext": False, "used_by_search": False}, name="itemset")
        el = _mk7(ctx, mq, "s1", control={"appearance": app} if app is not None else {}, itemset="lst", choices=iset, list_name="lst", type="select one")
        it = ctx.interp("C09.R3")
        it.reset([])
        try:
            res = it.call_function(ris, [Obj(scls, {}, name="survey")], {"element": el}, None, None)
        except Raised as e:
            res = f"raises {e.exc_name}"
        r3.check(res is want and iset.attrs.get("used_by_search") is want, f"search select[appearance={app!r}]",
                 f"{'is' if want else 'is not'} rendered with inline items (and its list {'is' if want else 'is not'} marked search-only)", ris.loc(),
                 why_fail=f"returned {res!r}, used_by_search={iset.attrs.get('used_by_search')!r}")
    rules.append(r3)

    # ------------------------------------------------------------------ R4
    r4 = Rule("C09", "C09.R4", "instance URIs follow the jr:// convention", floor=7,
              necessary="a wrong scheme or extension makes clients look for a file that is not there")
    hooks = {"fnname:node": node_hook, "new:InstanceInfo": lambda i, a, k, n: dict(k)}
    it = ctx.interp("C09.R4", hooks=hooks)
    ff = scls.methods["_generate_from_file_instances"]
    for fname, want in (("cities.csv", "jr://file-csv/cities.csv"), ("cities.xml", "jr://file/cities.xml"), ("cities.geojson", "jr://file/cities.geojson")):
        it.reset([])
        par = Obj(None, {"type": "survey", "name": "data"}, name="data")
        el = _mk(ctx, mq, "q", itemset=fname, parent=par)
        inf = it.call_function(ff, [], {"element": el}, None, ff.node)
        r4.check(isinstance(inf, dict) and inf.get("src") == want and inf.get("name") == "cities" and inf["instance"].attrs == {"id": "cities", "src": want},
                 f"select from file[{fname}]", f"instance id 'cities', src {want}", ff.loc(), why_fail=repr(inf))
    it.reset([])
    el = _mk(ctx, mq, "q", itemset="plainlist", parent=Obj(None, {"type": "survey", "name": "data"}, name="data"))
    r4.check(it.call_function(ff, [], {"element": el}, None, ff.node) is None, "select from list", "a choices-sheet list is not a file instance", ff.loc())
    ge = scls.methods["_generate_external_instances"]
    ecls = repo.cls("pyxform.external_instance:ExternalInstance")
    for typ, want in (("xml-external", "jr://file/data1.xml"), ("csv-external", "jr://file-csv/data1.csv")):
        it.reset([])
        el = _mk(ctx, ecls, "data1", type=typ, parent=Obj(None, {"type": "survey", "name": "data"}, name="data"))
        inf = it.call_function(ge, [], {"element": el}, None, ge.node)
        r4.check(isinstance(inf, dict) and inf.get("src") == want and inf.get("name") == "data1" and inf.get("type") == "external", f"{typ}", f"src {want}", ge.loc(), why_fail=repr(inf))
    gp = scls.methods["_generate_pulldata_instances"]
    it.reset([])
    el = _mk(ctx, repo.cls("pyxform.question:InputQuestion"), "q", bind={"calculate": "pulldata('fruits', 'name', 'key', ${k})", "constraint": ". > pulldata( \"prices\" , 'p', 'k', 1)"},
             parent=Obj(None, {"type": "survey", "name": "data"}, name="data"), choice_filter=None, default=None)
    infs = it.call_function(gp, [], {"element": el}, None, gp.node)
    got = sorted((i.get("name"), i.get("src")) for i in infs)
    r4.check(got == [("fruits", "jr://file-csv/fruits.csv"), ("prices", "jr://file-csv/prices.csv")], "pulldata", "each pulldata() first argument becomes a csv file instance", gp.loc(), why_fail=repr(got))
    # every spelling of the call the extractor understands (blanks before / after the parenthesis, either quote) and every
    # cell kind that can carry it declares the csv instance
    for desc_, attrs_ in (("space before the parenthesis", {"bind": {"calculate": "pulldata ('fruits', 'name', 'key', ${k})"}}),
                          ("blanks around the first argument", {"bind": {"relevant": "pulldata(  \"fruits\"  , 'n', 'k', 1) = 'x'"}}),
                          ("in a default", {"bind": {"type": "string"}, "default": "pulldata('fruits', 'n', 'k', 1)"}),
                          ("in a choice filter", {"bind": {"type": "string"}, "choice_filter": "name = pulldata('fruits', 'n', 'k', ${k})"}),
                          ("in a constraint, tab before the parenthesis", {"bind": {"constraint": ". = pulldata\t('fruits', 'n', 'k', 1)"}})):
        it.reset([])
        kw_ = {"choice_filter": None, "default": None}
        kw_.update(attrs_)
        el_ = _mk(ctx, repo.cls("pyxform.question:InputQuestion"), "q", parent=Obj(None, {"type": "survey", "name": "data"}, name="data"), **kw_)
        try:
            got_ = sorted((i_.get("name"), i_.get("src")) for i_ in it.call_function(gp, [], {"element": el_}, None, gp.node))
        except Raised as e:
            got_ = f"raises {e.exc_name}"
        r4.check(got_ == [("fruits", "jr://file-csv/fruits.csv")], f"pulldata[{desc_}]", "declares the csv instance `fruits`", gp.loc(), why_fail=repr(got_))
    # every subset of the cells that can carry a pulldata() call, each naming its own file: each file is declared
    import itertools as _itp9
    CELLS9 = {"calculate": ("bind", "calculate", "pulldata('f_calc', 'n', 'k', 1)"), "constraint": ("bind", "constraint", ". = pulldata('f_cons', 'n', 'k', 1)"),
              "relevant": ("bind", "relevant", "pulldata('f_rel', 'n', 'k', 1) = 'x'"), "choice_filter": (None, "choice_filter", "name = pulldata('f_filter', 'n', 'k', 1)"),
              "default": (None, "default", "pulldata('f_default', 'n', 'k', 1)")}
    bad9 = []
    n9 = 0
    for r_ in range(1, len(CELLS9) + 1):
        for combo_ in _itp9.combinations(CELLS9, r_):
            kw9 = {"choice_filter": None, "default": None, "bind": {"type": "string"}}
            want9 = []
            for c_ in combo_:
                grp_, key_, text_ = CELLS9[c_]
                if grp_:
                    kw9[grp_][key_] = text_
                else:
                    kw9[key_] = text_
                want9.append(text_.split("pulldata('")[1].split("'")[0])
            it.reset([])
            el9 = _mk(ctx, repo.cls("pyxform.question:InputQuestion"), "q", parent=Obj(None, {"type": "survey", "name": "data"}, name="data"), **kw9)
            try:
                got9 = sorted(i_.get("name") for i_ in it.call_function(gp, [], {"element": el9}, None, gp.node))
            except Raised as e:
                got9 = f"raises {e.exc_name}"
            n9 += 1
            if got9 != sorted(want9):
                bad9.append(f"{combo_}: {got9}")
    r4.check(not bad9 and n9 == 31, "pulldata[every subset of calculate / constraint / relevant / choice_filter / default]", "each cell's file is declared, whatever the other cells hold", gp.loc(), why_fail="; ".join(bad9[:3]))
    # file names with dots (a version, a date) are ids like any other: nothing is cut off
    for nm9 in ("hh.2024", "villages.v2", "lookup.main.final"):
        it.reset([])
        el9 = _mk(ctx, repo.cls("pyxform.question:InputQuestion"), "q", parent=Obj(None, {"type": "survey", "name": "data"}, name="data"), choice_filter=None, default=None,
                  bind={"calculate": f"pulldata('{nm9}', 'n', 'k', 1)"})
        got9 = sorted((i_.get("name"), i_.get("src")) for i_ in it.call_function(gp, [], {"element": el9}, None, gp.node))
        r4.check(got9 == [(nm9, f"jr://file-csv/{nm9}.csv")], f"pulldata[file named {nm9}]", "the instance id is the name as written", gp.loc(), why_fail=repr(got9))
        for typ9, want9 in (("xml-external", f"jr://file/{nm9}.xml"), ("csv-external", f"jr://file-csv/{nm9}.csv")):
            it.reset([])
            ex9 = _mk(ctx, ecls, nm9, type=typ9, parent=Obj(None, {"type": "survey", "name": "data"}, name="data"))
            inf9 = it.call_function(ge, [], {"element": ex9}, None, ge.node)
            r4.check(isinstance(inf9, dict) and inf9.get("name") == nm9 and inf9.get("src") == want9, f"{typ9}[named {nm9}]", f"id {nm9}, src {want9}", ge.loc(), why_fail=repr(inf9))
    pulldata_text_obligations(ctx, r4, "C09.R4")
    # the last-saved instance is declared for every question kind and every cell kind that can carry
    # ${last-saved#name}: default, choice_filter (ordinary AND external selects: the latter are input questions whose
    # filter becomes the `query` predicate), and the bind expressions
    gls = scls.methods["_generate_last_saved_instance"]
    from .c07 import _mk as _mk7b
    for cname, fq in (("select", "pyxform.question:MultipleChoiceQuestion"), ("external select / input", "pyxform.question:InputQuestion"), ("range", "pyxform.question:RangeQuestion")):
        ci_ = repo.cls(fq)
        for field, attrs, want in (("default", {"default": "${last-saved#x}"}, True), ("choice_filter", {"choice_filter": "name = ${last-saved#x}"}, True),
                                   ("bind calculate", {"bind": {"type": "string", "calculate": "${last-saved#x} + 1"}}, True), ("bind relevant", {"bind": {"type": "string", "relevant": "${last-saved#x} = 1"}}, True),
                                   ("no last-saved anywhere", {"default": "${x}", "choice_filter": "a = ${x}", "bind": {"type": "string", "calculate": "${x}"}}, False)):
            el_ = _mk7b(ctx, ci_, "q", type="text", **{"bind": {"type": "string"}, **attrs})
            it = ctx.interp("C09.R4")
            it.reset([])
            try:
                got = bool(it.call_function(gls, [el_], {}, None, gls.node))
            except Raised as e:
                got = f"raises {e.exc_name}"
            r4.check(got is want, f"last-saved instance[{cname}: {field}]", f"{'declared' if want else 'not declared'}", gls.loc(), why_fail=f"got {got}")
    # ... and for groups / repeats (relevant, repeat_count), and for the text cells whose references become <output>
    # or attribute text: wherever the substituter can expand ${last-saved#x} into instance('__last-saved'), the
    # detector must see it.  The traversal must hand sections to the detector as well.
    gcls_, rcls_ = repo.cls("pyxform.section:GroupedSection"), repo.cls("pyxform.section:RepeatingSection")
    iq_ = repo.cls("pyxform.question:InputQuestion")
    extra_cases = [
        ("group: bind relevant", gcls_, {"type": "group", "bind": {"relevant": "${last-saved#x} = 1"}, "control": None}, True),
        ("repeat: repeat_count", rcls_, {"type": "repeat", "bind": None, "control": {"jr:count": "${last-saved#x}"}}, True),
        ("repeat: bind relevant", rcls_, {"type": "repeat", "bind": {"relevant": "${last-saved#x} > 0"}, "control": {"appearance": "field-list"}}, True),
        ("group: control with a non-text value", gcls_, {"type": "group", "bind": None, "control": {"bodyless": True}}, False),
        ("group: nothing", gcls_, {"type": "group", "bind": {"relevant": "${x} = 1"}, "control": {"appearance": "field-list"}}, False),
        ("question: label", iq_, {"type": "text", "label": "Last time: ${last-saved#x}", "bind": {"type": "string"}, "default": None, "choice_filter": None}, True),
        ("question: translated label", iq_, {"type": "text", "label": {"en": "Last: ${last-saved#x}"}, "bind": {"type": "string"}, "default": None, "choice_filter": None}, True),
        ("question: hint", iq_, {"type": "text", "label": "L", "hint": "was ${last-saved#x}", "bind": {"type": "string"}, "default": None, "choice_filter": None}, True),
        ("question: constraint message", iq_, {"type": "text", "label": "L", "bind": {"type": "string", "jr:constraintMsg": "not ${last-saved#x}"}, "default": None, "choice_filter": None}, True),
        ("question: instance attribute", iq_, {"type": "text", "label": "L", "bind": {"type": "string"}, "instance": {"x": "${last-saved#x}"}, "default": None, "choice_filter": None}, True),
        ("question: guidance hint", iq_, {"type": "text", "label": "L", "guidance_hint": "see ${last-saved#x}", "bind": {"type": "string"}, "default": None, "choice_filter": None}, True),
        ("question: translated constraint message", iq_, {"type": "text", "label": "L", "bind": {"type": "string", "jr:constraintMsg": {"en": "ok", "fr": "pas ${last-saved#x}"}}, "default": None, "choice_filter": None}, True),
        ("question: translated hint", iq_, {"type": "text", "label": {"en": "L"}, "hint": {"en": "h", "fr": "${last-saved#x}"}, "bind": {"type": "string"}, "default": None, "choice_filter": None}, True),
        ("group: label", gcls_, {"type": "group", "label": "G ${last-saved#x}", "bind": None, "control": None}, True),
        ("repeat: translated label", rcls_, {"type": "repeat", "label": {"en": "R ${last-saved#x}"}, "bind": None, "control": None}, True),
        ("question: text cells with plain references only", iq_, {"type": "text", "label": {"en": "L ${x}"}, "hint": "h ${x}", "bind": {"type": "string", "jr:constraintMsg": "not ${x}"}, "instance": {"x": "${x}"}, "default": None, "choice_filter": None}, False),
    ]
    for desc, ci_, attrs, want in extra_cases:
        el_ = _mk7b(ctx, ci_, "e", **attrs)
        it = ctx.interp("C09.R4")
        it.reset([])
        try:
            got = bool(it.call_function(gls, [el_], {}, None, gls.node))
        except Raised as e:
            got = f"raises {e.exc_name}"
        r4.check(got is want, f"last-saved instance[{desc}]", f"{'declared' if want else 'not declared'}", gls.loc(), why_fail=f"got {got}")
    gi = scls.methods["_generate_instances"]
    # every kind of element is handed to the detector (evaluated: the instance generator on elements of which exactly one -
    # a question, a group or a repeat - uses last-saved; the detector is a stub that reads a marker on the element)
    for who_ in ("question", "group", "repeat", "nobody"):
        els_ = {"question": _mk7b(ctx, iq_, "q1", type="text"), "group": _mk7b(ctx, gcls_, "g1", type="group", children=[]), "repeat": _mk7b(ctx, rcls_, "r1", type="repeat", children=[])}
        hooks_ = {"fnname:node": node_hook, "fnname:iter_descendants": lambda i, a, k, n, els_=els_: list(els_.values()),
                  "fnname:_generate_pulldata_instances": lambda i, a, k, n: GenList([]), "fnname:_generate_from_file_instances": lambda i, a, k, n: None,
                  "fnname:_generate_last_saved_instance": lambda i, a, k, n, who_=who_, els_=els_: k.get("element", a[-1] if a else None) is els_.get(who_),
                  "fnname:_get_last_saved_instance": lambda i, a, k, n: Obj(None, {"name": "__last-saved", "src": "jr://instance/last-saved", "type": "instance", "context": "c",
                                                                                  "instance": NodeVal("instance", attrs={"id": "__last-saved"})}, name="info"),
                  "fnname:_generate_static_instances": lambda i, a, k, n: None}
        itg_ = ctx.interp("C09.R4", hooks=hooks_)
        itg_.reset([])
        try:
            outg_ = [x.attrs.get("id") for x in itg_.call_function(gi, [Obj(scls, {"choices": None}, name="survey")], {}, None, gi.node) if isinstance(x, NodeVal)]
        except Raised as e:
            outg_ = f"raises {e.exc_name}{e.exc_args}"
        r4.check(outg_ == (["__last-saved"] if who_ != "nobody" else []), f"_generate_instances[last-saved used by: {who_}]", "the last-saved instance is declared exactly when some element - of any kind - uses it", gi.loc(), why_fail=repr(outg_))
    # one element may need several instances: a select from a file whose choice filter uses last-saved (and a pulldata in
    # its constraint) gets all of them, wherever it stands among the other elements
    def _info9(name_, src_, typ_="file"):
        return Obj(None, {"name": name_, "src": src_, "type": typ_, "context": "c", "instance": NodeVal("instance", attrs={"id": name_, "src": src_})}, name=f"info:{name_}")
    for pos_ in (0, 1, 2):
        selq_ = _mk7b(ctx, mq, "sel", type="select one")
        others_ = [_mk7b(ctx, iq_, "t1", type="text"), _mk7b(ctx, iq_, "t2", type="text")]
        order_ = others_[:pos_] + [selq_] + others_[pos_:]
        hooks2_ = {"fnname:node": node_hook, "fnname:iter_descendants": lambda i, a, k, n, order_=order_: list(order_),
                   "fnname:_generate_pulldata_instances": lambda i, a, k, n, selq_=selq_: GenList([_info9("prices", "jr://file-csv/prices.csv", "pulldata")] if k.get("element", a[-1] if a else None) is selq_ else []),
                   "fnname:_generate_from_file_instances": lambda i, a, k, n, selq_=selq_: _info9("cities", "jr://file-csv/cities.csv") if k.get("element", a[-1] if a else None) is selq_ else None,
                   "fnname:_generate_last_saved_instance": lambda i, a, k, n, selq_=selq_: k.get("element", a[-1] if a else None) is selq_,
                   "fnname:_get_last_saved_instance": lambda i, a, k, n: _info9("__last-saved", "jr://instance/last-saved", "instance"), "fnname:_generate_static_instances": lambda i, a, k, n: None}
        itg2_ = ctx.interp("C09.R4", hooks=hooks2_)
        itg2_.reset([])
        try:
            out2_ = sorted(x.attrs.get("id") for x in itg2_.call_function(gi, [Obj(scls, {"choices": None}, name="survey")], {}, None, gi.node) if isinstance(x, NodeVal))
        except Raised as e:
            out2_ = f"raises {e.exc_name}{e.exc_args}"
        r4.check(out2_ == ["__last-saved", "cities", "prices"], f"_generate_instances[one select needs a file, a pulldata and last-saved; position {pos_}]", "all three instances are declared", gi.loc(), why_fail=repr(out2_))
    rules.append(r4)

    # ------------------------------------------------------------------ R5
    r5 = Rule("C09", "C09.R5", "a select reads its own list with exactly its own filter and parameters", floor=8,
              necessary="an itemset reading another list, dropping the filter, or mixing value/label refs shows the wrong choices")
    bx = mq.methods["build_xml"]

    def run_bx(**attrs):
        CTRL = NodeVal("select1")
        hooks = {"fnname:node": node_hook, "fnname:_build_xml": lambda i, a, k, n: CTRL,
                 "fnname:insert_xpaths": _ix_hook}
        it = ctx.interp("C09.R5", hooks=hooks)
        it.reset([])
        base = dict(bind={"type": "string"}, itemset="lst", choice_filter=None, parameters=None, choices=None, label="L")
        base.update(attrs)
        el = _mk(ctx, mq, "q", **base)
        s = Obj(None, {"insert_xpaths": hooks["fnname:insert_xpaths"]}, name="survey")
        it.call_function(bx, [el], {"survey": s}, None, bx.node)
        sets = [c for c in CTRL.children if isinstance(c, NodeVal) and c.tag == "itemset"]
        if len(sets) != 1:
            return None
        st = sets[0]
        return st.attrs.get("nodeset"), [(c.tag, c.attrs.get("ref")) for c in st.children]

    cases = [
        ("plain", {}, ("instance('lst')/root/item", [("value", "name"), ("label", "label")])),
        ("filter", {"choice_filter": "region=${r}"}, ("instance('lst')/root/item[S[region=${r}]@cur]", [("value", "name"), ("label", "label")])),
        ("randomize", {"parameters": {"randomize": "true"}}, ("randomize(instance('lst')/root/item)", [("value", "name"), ("label", "label")])),
        ("randomize+seed", {"parameters": {"randomize": "true", "seed": "42"}}, ("randomize(instance('lst')/root/item, 42)", [("value", "name"), ("label", "label")])),
        ("randomize+seed ref", {"parameters": {"randomize": "true", "seed": "${s}"}}, ("randomize(instance('lst')/root/item, S[${s}])", [("value", "name"), ("label", "label")])),
        ("randomize=false", {"parameters": {"randomize": "false", "seed": "42"}}, ("instance('lst')/root/item", [("value", "name"), ("label", "label")])),
        ("filter+randomize", {"choice_filter": "a=1", "parameters": {"randomize": "true"}}, ("randomize(instance('lst')/root/item[S[a=1]@cur])", [("value", "name"), ("label", "label")])),
        ("csv file value/label", {"itemset": "c.csv", "parameters": {"value": "code", "label": "title2"}}, ("instance('c')/root/item", [("value", "code"), ("label", "title2")])),
        ("xml file", {"itemset": "c.xml", "parameters": {}}, ("instance('c')/root/item", [("value", "name"), ("label", "label")])),
        ("geojson defaults", {"itemset": "g.geojson", "parameters": {}}, ("instance('g')/root/item", [("value", "id"), ("label", "title")])),
        ("itext list", {"choices": Obj(icls, {"name": "lst", "options": (), "requires_itext": True, "used_by_search": False}, name="iset")},
         ("instance('lst')/root/item", [("value", "name"), ("label", "jr:itext(itextId)")])),
    ]
    # file type x parameter subset: value/label default to name/label (id/title for geojson) and each is overridden by
    # exactly its own parameter, whatever other parameters are present
    import itertools as _it
    for ext, (dv, dl) in ((".csv", ("name", "label")), (".xml", ("name", "label")), (".geojson", ("id", "title"))):
        for use_v, use_l, rnd in _it.product((False, True), (False, True), (None, "true", "false")):
            params = {}
            if rnd is not None:
                params["randomize"] = rnd
            if use_v:
                params["value"] = "code"
            if use_l:
                params["label"] = "caption"
            ns = "instance('f')/root/item"
            if rnd == "true":
                ns = f"randomize({ns})"
            cases.append((f"file{ext} parameters={sorted(params.items())}", {"itemset": "f" + ext, "parameters": params},
                          (ns, [("value", "code" if use_v else dv), ("label", "caption" if use_l else dl)])))
    for desc, attrs, want in cases:
        try:
            got = run_bx(**attrs)
        except Raised as r:
            r5.fail(f"select itemset[{desc}]", f"evaluates ({r.exc_name}{r.exc_args})", bx.loc())
            continue
        r5.check(got == want, f"select itemset[{desc}]", f"nodeset {want[0]} with refs {want[1]}", bx.loc(), why_fail=repr(got))
    # select from a repeat (`select_one ${name}`): the item nodeset is the repeat, paths INTO the repeat become relative
    # to the item ('.'), and every other path - also one that merely starts with the repeat's path as a string - stays
    PATHS = {"name": "/data/rep/name", "age": "/data/rep/age", "rep_other": "/data/rep_other", "z": "/data/rep2/z", "k": "/data/k",
             "min_age": "/data/rep-extra/min_age", "max_age": "/data/rep.cfg/max_age"}

    def _ix_paths(i, a, k, n):
        import re as _re
        text = next((x for x in a if isinstance(x, str)), k.get("text"))
        return _re.sub(r"\$\{([^}]+)\}", lambda m_: " " + PATHS[m_.group(1)] + " ", text)

    def run_prev(choice_filter):
        CTRL = NodeVal("select1")
        it = ctx.interp("C09.R5", hooks={"fnname:node": node_hook, "fnname:_build_xml": lambda i, a, k, n: CTRL, "fnname:insert_xpaths": _ix_paths})
        it.reset([])
        el = _mk(ctx, mq, "q", bind={"type": "string"}, itemset="${name}", choice_filter=choice_filter, parameters=None, choices=None, label="L")
        sv = Obj(None, {"insert_xpaths": _ix_paths}, name="survey")
        it.call_function(bx, [el], {"survey": sv}, None, bx.node)
        sets = [c for c in CTRL.children if isinstance(c, NodeVal) and c.tag == "itemset"]
        return (sets[0].attrs.get("nodeset"), [(c.tag, c.attrs.get("ref")) for c in sets[0].children]) if len(sets) == 1 else None
    for desc, cf, want_ns in (("no filter", None, "/data/rep[./name != '']"),
                              ("filter on a sibling inside the repeat", "${age} > 18", "/data/rep[ ./age  > 18]"),
                              ("filter on a question outside whose path starts with the repeat's path as a string", "${rep_other} = 1 and ${age} > 18", "/data/rep[ /data/rep_other  = 1 and  ./age  > 18]"),
                              ("filter on a question in another repeat whose name extends this repeat's name", "${z} = ${name}", "/data/rep[ /data/rep2/z  =  ./name ]"),
                              # `-` and `.` are name characters: a section called rep-extra / rep.cfg is not the repeat
                              ("filter on a question in a section named <repeat>-extra", "${age} >= ${min_age}", "/data/rep[ ./age  >=  /data/rep-extra/min_age ]"),
                              ("filter on a question in a section named <repeat>.cfg", "${age} <= ${max_age}", "/data/rep[ ./age  <=  /data/rep.cfg/max_age ]"),
                              ("filter on an unrelated question", "${k} = 'x'", "/data/rep[ /data/k  = 'x']")):
        try:
            got = run_prev(cf)
        except Raised as r:
            r5.fail(f"select from repeat[{desc}]", f"evaluates ({r.exc_name}{r.exc_args})", bx.loc())
            continue
        r5.check(got == (want_ns, [("value", "name"), ("label", "name")]), f"select from repeat[{desc}]", f"nodeset {want_ns}", bx.loc(), why_fail=repr(got))
    # search() selects write their list in-line: one <item> per choice ROW, in sheet order - also when names repeat
    # (allow_choice_duplicates) and whether labels are plain, carry references, or go through itext
    ocls_ = repo.cls("pyxform.question:Option")
    for desc, itext in (("plain labels", False), ("labels through itext", True)):
        rows_ = [("a", "First"), ("b", "Second"), ("a", "Third (same name as the first)"), ("c", "Fourth")]
        opts_ = tuple(_mk(ctx, ocls_, nm_, label=lb_, media=None, _choice_itext_ref=f"jr:itext('ls-{j_}')") for j_, (nm_, lb_) in enumerate(rows_))
        iset_ = Obj(icls, {"name": "ls", "options": opts_, "requires_itext": itext, "used_by_search": True}, name="itemset_search")
        el_ = _mk(ctx, mq, "s1", control={"appearance": "search('x')"}, itemset="", choices=iset_, list_name="ls", type="select one", bind={"type": "string"}, label="S", choice_filter=None, parameters=None)
        CTRL_ = NodeVal("select1")
        it_ = ctx.interp("C09.R5", hooks={"fnname:node": node_hook, "fnname:_build_xml": lambda i, a, k, n, C=CTRL_: C,
                                          "fnname:insert_output_values": lambda i, a, k, n: (next((x for x in a if isinstance(x, str)), k.get("text")), False)})
        it_.reset([])
        sv_ = Obj(None, {"insert_output_values": lambda i, a, k, n: (next((x for x in a if isinstance(x, str)), k.get("text")), False)}, name="survey")
        try:
            it_.call_function(bx, [el_], {"survey": sv_}, None, bx.node)
            items_ = []
            for item in CTRL_.children:
                if isinstance(item, NodeVal) and item.tag == "item":
                    lab_ = next((c for c in item.children if isinstance(c, NodeVal) and c.tag == "label"), None)
                    val_ = next((c for c in item.children if isinstance(c, NodeVal) and c.tag == "value"), None)
                    items_.append((val_.text if val_ is not None else None, (lab_.attrs.get("ref") if itext else lab_.text) if lab_ is not None else None))
        except Raised as r:
            items_ = f"raises {r.exc_name}{r.exc_args}"
        want_ = [(nm_, (f"jr:itext('ls-{j_}')" if itext else lb_)) for j_, (nm_, lb_) in enumerate(rows_)]
        r5.check(items_ == want_, f"search() in-line items[{desc}, a choice name used twice]", "one item per choice row, in sheet order, each with its own label", bx.loc(), why_fail=repr(items_)[:240])
    # the parameters cell: names are case-insensitive; the values that name something of the author's (a file column for
    # value / label, a question for seed) keep their case, flag values are normalised
    pg = ctx.func("pyxform.validators.pyxform.parameters_generic:parse", "C09.R5")
    for raw, want_p in (("value=ID, label=Title", {"value": "ID", "label": "Title"}), ("Value=ID LABEL=Title", {"value": "ID", "label": "Title"}),
                        ("VALUE=code;Label=Name_EN", {"value": "code", "label": "Name_EN"}), ("randomize=TRUE", {"randomize": "true"}),
                        ("randomize=true, seed=${Seed_Q}", {"randomize": "true", "seed": "${Seed_Q}"}), ("Randomize=True SEED=${Seed_Q}", {"randomize": "true", "seed": "${Seed_Q}"}),
                        ("randomize=true;seed=42", {"randomize": "true", "seed": "42"}), ("randomize=false", {"randomize": "false"})):
        itp = ctx.interp("C09.R5")
        itp.reset([])
        try:
            got_p = itp.call_function(pg, [raw], {}, None, pg.node)
        except Raised as e:
            got_p = f"raises {e.exc_name}"
        r5.check(got_p == want_p, f"parameters[{raw!r}]", f"-> {want_p}", pg.loc(), why_fail=f"got {got_p!r}")
    # external (input) select: query on its own list with its own filter
    iq = repo.cls("pyxform.question:InputQuestion")
    ibx = iq.methods["build_xml"]
    for desc, cf, want in (("filter", "state=${s}", "instance('cities')/root/item[S[state=${s}]@cur]"), ("no filter", None, "instance('cities')/root/item")):
        CTRL = NodeVal("input")
        hooks = {"fnname:node": node_hook, "fnname:_build_xml": lambda i, a, k, n, C=CTRL: C,
                 "fnname:insert_xpaths": _ix_hook}
        it = ctx.interp("C09.R5", hooks=hooks)
        it.reset([])
        el = _mk(ctx, iq, "q", query="cities", choice_filter=cf)
        it.call_function(ibx, [el], {"survey": Obj(None, {"insert_xpaths": hooks["fnname:insert_xpaths"]}, name="survey")}, None, ibx.node)
        r5.check(CTRL.attrs.get("query") == want, f"external select query[{desc}]", f"query = {want}", ibx.loc(), why_fail=repr(CTRL.attrs))
    # add_choices_info_to_question: itemset / query come from this row's own list name
    ac = ctx.func("pyxform.xls2json:add_choices_info_to_question", "C09.R5")
    it = ctx.interp("C09.R5")
    for desc, q, cf, ext, want in (
            ("plain", {"type": "select one", "parameters": {}}, None, "", {"itemset": "lst", "list_name": "lst", "choices": "CH"}),
            ("filtered", {"type": "select one", "parameters": {}}, "a=1", "", {"itemset": "lst", "list_name": "lst", "choices": "CH"}),
            # the choices travel with the question whatever its parameters are: the control builder needs them to choose
            # between an inline label and the item's itext id
            ("randomized", {"type": "select one", "parameters": {"randomize": "true"}}, None, "", {"itemset": "lst", "list_name": "lst", "choices": "CH"}),
            ("randomized with seed and filter", {"type": "select one", "parameters": {"randomize": "true", "seed": "3"}}, "a=1", "", {"itemset": "lst", "list_name": "lst", "choices": "CH"}),
            ("external", {"type": "select one external", "parameters": {}}, "a=1", "", {"itemset": "lst", "query": "lst"}),
            ("from file", {"type": "select one", "parameters": {}}, None, ".csv", {"itemset": "lst"})):
        it.reset([])
        qq = dict(q)
        try:
            it.call_function(ac, [], {"question": qq, "list_name": "lst", "choices": {"lst": "CH", "other": "NO"}, "choice_filter": cf, "file_extension": ext}, None, ac.node)
            got = {k: v for k, v in qq.items() if k not in ("type", "parameters")}
            r5.check(got == want, f"add_choices_info_to_question[{desc}]", f"records {want}", ac.loc(), why_fail=repr(got))
        except Raised as r:
            r5.fail(f"add_choices_info_to_question[{desc}]", f"evaluates ({r.exc_name}{r.exc_args})", ac.loc())
    rules.append(r5)

    # ------------------------------------------------------------------ R6
    r6 = Rule("C09", "C09.R6", "or_other adds one 'other' choice (if absent) and one companion text question", floor=4,
              necessary="a second 'other', or a companion with another name/relevance, breaks the specify-other pattern")
    w2j = ctx.func("pyxform.xls2json:workbook_to_json", "C09.R6")
    loop = _row_loop(w2j)
    oo = ctx.consts.get("pyxform.constants", "OR_OTHER_CHOICE", "C09.R6")
    r6.check(oo == {"name": "other", "label": "Other"}, "OR_OTHER_CHOICE", "the added choice is name 'other', label 'Other'", "pyxform/constants.py", why_fail=repr(oo))
    or_other_obligations(ctx, r6, "C09.R6", w2j, loop)
    rules.append(r6)

    # ------------------------------------------------------------------ R7
    r7 = Rule("C09", "C09.R7", "itemsets.csv: every cell is written under its own header; reader-side constant agrees", floor=4,
              necessary="a row written positionally from a sparse dict shifts cells under the wrong columns")
    ec = ctx.func("pyxform.utils:external_choices_to_csv", "C09.R7")
    for desc, header, rows in (
            ("header given, sparse row", [{"list_name": None, "name": None, "label": None, "region": None}],
             [{"list_name": "s", "name": "a", "label": "A", "region": "r1"}, {"list_name": "s", "name": "b", "region": "r2"}]),
            ("no header (dict input), sparse rows", None,
             [{"list_name": "s", "name": "a", "label": "A"}, {"list_name": "s", "name": "b", "region": "r2"}]),
            ("list column spelled `list name`", [{"list name": None, "name": None, "label": None}],
             [{"list name": "s", "name": "a", "label": "A"}, {"list name": "t", "name": "b", "label": "B"}]),
            ("list column spelled `List_Name`, extra column `Région`", [{"List_Name": None, "name": None, "Région": None}],
             [{"List_Name": "s", "name": "a", "Région": "x"}, {"List_Name": "s", "name": "b"}])):
        written = []
        writer = Obj(None, {"writerow": lambda i, a, k, n: written.append(list(i.iterate(a[0], n)))}, name="csvwriter")
        def h_dictwriter(i, a, k, n, written=written):
            # csv.DictWriter(f, fieldnames, restval="", extrasaction="raise"): rows are written by field name
            names = list(i.iterate(k.get("fieldnames", a[1] if len(a) > 1 else ()), n))
            restval = k.get("restval", "")
            strict = k.get("extrasaction", "raise") == "raise"

            def wrow(i2, a2, k2, n2):
                d_ = a2[0]
                extra = [x for x in d_ if x not in names]
                if extra and strict:
                    raise Raised("ValueError", (f"dict contains fields not in fieldnames: {extra!r}",), n2, ("ValueError", "Exception", "BaseException"))
                written.append([d_.get(f_, restval) for f_ in names])
            return Obj(None, {"writeheader": lambda i2, a2, k2, n2: written.append(list(names)), "writerow": wrow,
                              "writerows": lambda i2, a2, k2, n2: [wrow(i2, [r_], {}, n2) for r_ in i2.iterate(a2[0], n2)] and None, "fieldnames": names}, name="dictwriter")
        hooks = {"ext:csv.writer": lambda i, a, k, n: writer, "ext:csv.DictWriter": h_dictwriter, "ext:io.StringIO": lambda i, a, k, n: Obj(None, {"getvalue": lambda i2, a2, k2, n2: "CSV"}, name="sio")}
        it = ctx.interp("C09.R7", hooks=hooks)
        it.reset([])
        wb = Obj(None, {"external_choices": rows, "external_choices_header": header}, name="workbook")
        try:
            it.call_function(ec, [], {"workbook_dict": wb}, None, ec.node)
        except Raised as r:
            r7.fail(f"external_choices_to_csv[{desc}]", f"evaluates ({r.exc_name}{r.exc_args})", ec.loc())
            continue
        hdr = written[0] if written else []
        ok = len(written) == 1 + len(rows) and all(len(w) == len(hdr) for w in written[1:])
        cells_ok = ok and all(all((row.get(h) if row.get(h) is not None else w[j]) == w[j] or (row.get(h) is None and w[j] in (None, "")) for j, h in enumerate(hdr)) for row, w in zip(rows, written[1:]))
        allkeys = []
        for row in rows:
            for k in row:
                if k not in allkeys:
                    allkeys.append(k)
        # nothing the author wrote is lost: every non-empty cell of a row is in the written row
        lost = [(ri, k_, v_) for ri, (row, w) in enumerate(zip(rows, written[1:])) for k_, v_ in row.items() if v_ not in (None, "") and v_ not in w]
        r7.check(ok and not lost, f"external_choices_to_csv[{desc}]:no cell lost", "every non-empty cell of the sheet is in the csv row", ec.loc(), why_fail=f"lost {lost[:3]} (header {hdr})")
        r7.check(ok and cells_ok and set(hdr) >= set(allkeys), f"external_choices_to_csv[{desc}]", "each data row has one cell per header column and each cell sits under its own header", ec.loc(),
                 why_fail=f"header={hdr} rows={written[1:]}")
        if header is None:
            r7.check(hdr == allkeys, f"external_choices_to_csv[{desc}]:header order", "the fallback header is the ordered union of row keys (deterministic)", ec.loc(), why_fail=repr(hdr))
    has_external_choices_obligations(ctx, r7, "C09.R7")
    cv = ctx.func("pyxform.xls2xform:convert", "C09.R7")
    calls = [c for c in walk_own(cv.node) if isinstance(c, ast.Call) and call_name(c) == "external_choices_to_csv"]
    r7.check(len(calls) == 1 and guard_texts(calls[0], stop=cv.node) == ["has_external_choices(json_struct=pyxform_data)"], "convert:itemsets", "itemsets are produced iff the form uses an external select", cv.loc())
    rules.append(r7)
    from .c13 import cell_cleaning_rule
    rules.append(cell_cleaning_rule(ctx, "C09", "C09.R8"))
    rules.append(_choices_threading_rule(ctx))
    return rules
