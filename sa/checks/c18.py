"""C18 — validator verdicts are honoured and failures leave no residue."""

from __future__ import annotations

import ast
import itertools

from .. import cfg as cfgmod
from ..astutil import call_name, kw, names_in
from ..interp import ExcVal, Obj, Raised, Sym, SymStr, explore, native
from ..loader import AnalysisError, norm, walk_own
from ..report import Rule

EXPLANATION = (
    "CFG release-on-all-exits (including exceptional exits) for every tempfile creation in the package; "
    "handler-shape check of the partial-write clean-up; finite-domain abstract evaluation of check_xform over "
    "timeout x sign(return code) x stderr, of check_java_available, of _validator_args_logic over its 8 rows, of "
    "main_cli over {json, plain} x {ok, ok+warnings, ODKValidateError, OSError, PyXFormError, other}, and of the "
    "ErrorCleaner pipeline order; CFG dominance of convert() over every file write in xls2xform_convert."
)
NOT_DECIDED = ("regex behaviour of the error cleaner on arbitrary stderr text; OS-level behaviour of a killed child "
               "process beyond the exception-agnostic finally; what ODK Validate itself prints")
ASSUMPTIONS = [
    "every statement may raise (CFG exceptional edges), except tmp.close() and Path(tmp.name) right after creation",
    "tempfile/pathlib/os semantics: NamedTemporaryFile(delete=False) leaves a file until unlink",
    "the analyser's evaluator models try/except/else and exception class hierarchies of the repo faithfully",
]

TEMP_FACTORIES = {"tempfile.NamedTemporaryFile", "tempfile.mkstemp", "tempfile.mkdtemp", "tempfile.TemporaryFile",
                  "tempfile.TemporaryDirectory"}
RELEASES = {"unlink", "remove", "rmtree", "cleanup"}


def temp_sites(ctx):
    repo = ctx.repo
    for fi in repo.all_functions():
        for c in walk_own(fi.node):
            if isinstance(c, ast.Call):
                r = repo.resolve_dotted(fi.module, c.func)
                if r and r[0] == "ext" and r[1] in TEMP_FACTORIES:
                    yield fi, c, r[1]


def scratch_name_obligations(ctx, rule):
    """A file a function writes and then moves into place or removes itself is a scratch file: its name must come from the
    tempfile API (unique per call) or be the caller's own path.  A name put together from constants / the form's name is
    the same for every concurrent call in that directory: two dumps overwrite, move and delete each other's file."""
    from ..astutil import subst_locals
    repo = ctx.repo
    n = 0
    for fi in repo.all_functions():
        a = fi.node.args
        params = {x.arg for x in [*a.posonlyargs, *a.args, *a.kwonlyargs]}
        temp_names = set()
        for x in walk_own(fi.node):
            if isinstance(x, ast.Assign) and isinstance(x.value, ast.Call):
                r = repo.resolve_dotted(fi.module, x.value.func)
                if r and r[0] == "ext" and r[1] in TEMP_FACTORIES:
                    for t in x.targets:
                        temp_names |= {n_.id for n_ in ast.walk(t) if isinstance(n_, ast.Name)}
        temp_names = set().union(*[_derived_names(fi.node, t) for t in temp_names]) if temp_names else set()
        for c in walk_own(fi.node):
            if not isinstance(c, ast.Call):
                continue
            cn = call_name(c)
            src = None
            if cn in ("replace", "rename", "move") and isinstance(c.func, ast.Attribute) and len(c.args) == 2 and norm(c.func.value) in ("os", "shutil"):
                src = c.args[0]
            elif cn in ("replace", "rename") and isinstance(c.func, ast.Attribute) and len(c.args) == 1 and norm(c.func.value) not in ("os", "shutil") and not isinstance(c.func.value, ast.Constant) \
                    and any(isinstance(y, ast.Call) and call_name(y) in ("write_text", "write_bytes", "open") and norm(getattr(y.func, "value", y)) == norm(c.func.value) for y in walk_own(fi.node)):
                src = c.func.value     # Path(...).replace(target) after writing it
            if src is None:
                continue
            n += 1
            if fi.module.name.startswith("pyxform.validators.updater"):
                continue  # the validator installer (a maintenance tool, not the conversion): counted as the rule's positive example only
            names = {n_.id for n_ in ast.walk(src) if isinstance(n_, ast.Name)}
            full = subst_locals(src, fi.node)
            names_full = {n_.id for n_ in ast.walk(full) if isinstance(n_, ast.Name)}
            from_temp = bool(names & temp_names) or any(isinstance(y, ast.Call) and (repo.resolve_dotted(fi.module, y.func) or (None, None))[1] in TEMP_FACTORIES for y in ast.walk(full))
            is_param = isinstance(src, ast.Name) and src.id in params and not any(isinstance(y, ast.Assign) and any(isinstance(t, ast.Name) and t.id == src.id for t in y.targets) for y in walk_own(fi.node))
            rule.check(from_temp or is_param, f"{fi.fq}:scratch file {norm(src)[:40]}", "the file that is written and then moved into place is named by the tempfile API (or is the caller's own path)", fi.loc(c),
                       why_fail=f"the name is put together in the function ({norm(full)[:80]}): every concurrent call for a form of the same name in that directory uses the same file")
    return n


def _derived_names(fn_node, seed: str) -> set[str]:
    names = {seed}
    changed = True
    while changed:
        changed = False
        for x in walk_own(fn_node):
            if isinstance(x, ast.Assign) and names_in(x.value) & names:
                for t in x.targets:
                    for n in ast.walk(t):
                        if isinstance(n, ast.Name) and n.id not in names:
                            names.add(n.id)
                            changed = True
    return names


def check_temp_pairing(rule: Rule, fi, call, factory):
    construct = f"{fi.fq}:{factory}"
    st = call
    from ..loader import parent
    while not isinstance(st, ast.stmt):
        st = parent(st)
    if isinstance(st, ast.With) and any(i.context_expr is call for i in st.items):
        rule.ok(construct, "temporary resource is a context manager (released on all exits)", fi.loc(call))
        return
    dele = kw(call, "delete")
    if factory.endswith("NamedTemporaryFile") and not (isinstance(dele, ast.Constant) and dele.value is False):
        rule.ok(construct, "NamedTemporaryFile with delete=True removes itself on close", fi.loc(call))
        return
    if not (isinstance(st, ast.Assign) and isinstance(st.targets[0], ast.Name)):
        rule.fail(construct, "temporary resource is bound to a name so it can be released", fi.loc(call))
        return
    tmpvar = st.targets[0].id
    names = _derived_names(fi.node, tmpvar)
    g = cfgmod.build(fi.node.body)
    created = g.nodes_of_stmt(st)
    if not created:
        raise AnalysisError(rule.rid, f"creation statement of {construct} not in CFG")
    rel = set()
    for nid, n in g.nodes.items():
        for c in cfgmod.calls_in(n.stmt):
            if call_name(c) in RELEASES:
                involved = names_in(c)
                if involved & names:
                    rel.add(nid)
    if not rel:
        rule.fail(construct, "temporary file is unlinked somewhere in the creating function", fi.loc(call))
        return
    # benign raisers directly after creation: tmp.close(), Path(tmp.name)
    benign = set()
    for nid, n in g.nodes.items():
        s = n.stmt
        if isinstance(s, ast.Expr) and isinstance(s.value, ast.Call) and call_name(s.value) == "close" \
                and isinstance(s.value.func, ast.Attribute) and isinstance(s.value.func.value, ast.Name) and s.value.func.value.id == tmpvar:
            benign.add(nid)
        if isinstance(s, ast.Assign) and isinstance(s.value, ast.Call) and call_name(s.value) in ("Path", "str", "fspath") \
                and names_in(s.value) & {tmpvar}:
            benign.add(nid)
    blocked_edges = set()
    for b in benign | set(created):
        for y, lab in g.succ[b]:
            if lab == "exc":
                blocked_edges.add((b, y, lab))
    for exit_name, target in (("normal return", g.exit), ("exception exit", g.raise_exit)):
        reach = g.reachable(created[0], blocked=frozenset(rel), blocked_edges=frozenset(blocked_edges))
        ok = target not in reach
        w = ""
        if not ok:
            path = g.witness_path(created[0], target, blocked=frozenset(rel))
            w = " -> ".join(g.describe(path)) if path else ""
        rule.check(ok, f"{construct}:{exit_name}", f"every path from creation to the {exit_name} unlinks the temporary file",
                   fi.loc(call), why_fail=f"path without release: {w}")


def run(ctx):
    repo = ctx.repo
    rules = []

    # ------------------------------------------------------------------ R1
    r1 = Rule("C18", "C18.R1", "temporary files are released on all exits", floor=2,
              necessary="a path that skips the unlink leaves a temp file behind after that outcome")
    sites = list(temp_sites(ctx))
    in_scope = [(fi, c, f) for fi, c, f in sites if not fi.module.name.startswith("pyxform.validators.updater")]
    for fi, c, f in in_scope:
        check_temp_pairing(r1, fi, c, f)
    validated_file_obligations(ctx, r1, "C18.R1")
    for fi, c, f in sites:
        if (fi, c, f) not in in_scope:
            r1.note(f"out of scope (not reachable from convert()/CLI): {fi.fq}")
    rules.append(r1)

    # ------------------------------------------------------------------ R2
    r2 = Rule("C18", "C18.R2", "partial write is cleaned up", floor=3,
              necessary="a failing write would leave a truncated XForm at the output path")
    pf = ctx.func("pyxform.survey:Survey.print_xform_to_file", "C18.R2")
    opens = [c for c in walk_own(pf.node) if isinstance(c, ast.Call) and call_name(c) == "open"
             and _is_write_mode(c)]
    if not opens:
        raise AnalysisError("C18.R2", "no file write in print_xform_to_file")
    for oc in opens:
        tr = None
        from ..loader import ancestors
        for a in ancestors(oc):
            if isinstance(a, ast.Try) and any(oc in ast.walk(b) for b in a.body):
                tr = a
                break
        if tr is None:
            r2.fail("print_xform_to_file:open", "the write is inside a try with a clean-up handler", pf.loc(oc))
            continue
        path_expr = norm(oc.args[0]) if oc.args else norm(kw(oc, "file"))
        good = False
        for h in tr.handlers:
            catches_all = h.type is None or any(isinstance(n, ast.Name) and n.id in ("Exception", "BaseException") for n in ast.walk(h.type))
            unl = [c for c in ast.walk(h) if isinstance(c, ast.Call) and call_name(c) in RELEASES and path_expr in norm(c)]
            reraises = bool(h.body) and isinstance(h.body[-1], ast.Raise) and h.body[-1].exc is None
            if catches_all and unl and reraises:
                good = True
        r2.check(good, "print_xform_to_file:open", "a failing write unlinks the same path and re-raises", pf.loc(oc))
        # validators run only after the write completed
        g = cfgmod.build(pf.node.body)
        dom = g.dominators()
        wnodes = [nid for nid, n in g.nodes.items() if oc in cfgmod.calls_in(n.stmt)]
        vnodes = [nid for nid, n in g.nodes.items() if any(call_name(c) == "check_xform" for c in cfgmod.calls_in(n.stmt))]
        for v in vnodes:
            r2.check(any(w in dom.get(v, ()) for w in wnodes), f"print_xform_to_file:{norm(g.nodes[v].stmt)[:50]}",
                     "validator runs on the file after it was written", pf.loc(g.nodes[v].stmt))
    rules.append(r2)

    # ------------------------------------------------------------------ R3
    r3 = Rule("C18", "C18.R3", "validator verdict decision table", floor=12,
              necessary="a reject treated as accept returns an invalid XForm; an accept treated as reject loses a valid one")
    cx = ctx.func("pyxform.validators.odk_validate:check_xform", "C18.R3")
    for timeout, sign, has_err in itertools.product([False, True], [-1, 0, 1], [False, True]):
        order = []
        stderr = Sym("STDERR", truthy=True, pytype=str) if has_err else ""

        def h_java(interp, a, k, n):
            order.append("java")

        def h_call(interp, a, k, n, timeout=timeout, sign=sign, stderr=stderr):
            order.append("validator")
            return Sym("RESULT", truthy=True, attrs={
                "timeout": timeout, "return_code": Sym("RC", sign=sign, truthy=sign != 0, pytype=int),
                "stderr": stderr, "stdout": Sym("STDOUT", pytype=str)})

        def h_clean(interp, a, k, n):
            return Sym("CLEAN", truthy=None, pytype=str, attrs={"src": a[-1] if a else None})

        it = ctx.interp("C18.R3", hooks={"fnname:check_java_available": h_java, "fnname:_call_validator": h_call,
                                        "fnname:odk_validate": h_clean})
        outs = list(explore(it, lambda: it.call_function(cx, [Sym("PATH", truthy=True, pytype=str)], {}, None, cx.node)))
        desc = f"timeout={timeout} rc={'+' if sign > 0 else ('0' if sign == 0 else '-')} stderr={'text' if has_err else 'empty'}"
        for dec, out, eff, assumed in outs:
            r3.check(order[:1] == ["java"] and "validator" in order, f"check_xform.order[{desc}]",
                     "Java availability is checked before the validator subprocess is started", cx.loc())
            if timeout:
                ok = out[0] == "return" and isinstance(out[1], list) and len(out[1]) == 1
                r3.check(ok, f"check_xform[{desc}]", "a validator killed by the watchdog yields one warning and no verdict error", cx.loc())
            elif sign > 0:
                ok = out[0] == "raise" and out[1].exc_name == "ODKValidateError"
                msg = out[1].exc_args[0] if ok and out[1].exc_args else None
                carries = isinstance(msg, SymStr) and any(s.name == "CLEAN" and s.attrs.get("src") is stderr for s in msg.syms())
                r3.check(ok and carries, f"check_xform[{desc}]",
                         "rejection raises ODKValidateError carrying the cleaned validator stderr", cx.loc(),
                         why_fail=f"outcome={out[0]} msg={msg!r}")
            elif sign == 0:
                if has_err:
                    ok = out[0] == "return" and isinstance(out[1], list) and len(out[1]) == 1 and isinstance(out[1][0], SymStr) \
                        and any(s is stderr for s in out[1][0].syms())
                    r3.check(ok, f"check_xform[{desc}]", "accept with stderr surfaces exactly one warning carrying the stderr", cx.loc(),
                             why_fail=f"outcome={out!r}")
                else:
                    r3.check(out[0] == "return" and out[1] == [], f"check_xform[{desc}]", "silent accept yields no warnings", cx.loc(),
                             why_fail=f"outcome={out!r}")
            else:
                ok = out[0] == "return" and isinstance(out[1], list) and len(out[1]) == 1
                r3.check(ok, f"check_xform[{desc}]", "a negative return code (killed by signal) is surfaced, never silently accepted as clean", cx.loc(),
                         why_fail=f"outcome={out!r}")
    cj = ctx.func("pyxform.validators.odk_validate:check_java_available", "C18.R3")
    for present in (False, True):
        it = ctx.interp("C18.R3", hooks={"ext:shutil.which": lambda interp, a, k, n, p=present: (Sym("JAVA", truthy=True, pytype=str) if p else None)})
        it.reset([])
        try:
            it.call_function(cj, [], {}, None, cj.node)
            r3.check(present, f"check_java_available[java={'present' if present else 'absent'}]", "returns normally iff java is on PATH", cj.loc())
        except Raised as r:
            r3.check(not present and r.exc_name == "OSError", f"check_java_available[java={'present' if present else 'absent'}]",
                     "raises OSError iff java is missing", cj.loc())
    # verdict propagation in print_xform_to_file / to_xml: validator result only extends warnings; exceptions propagate
    vcalls = [c for c in walk_own(pf.node) if isinstance(c, ast.Call) and call_name(c) == "check_xform"]
    for c in vcalls:
        from ..loader import parent
        p = parent(c)
        ok = isinstance(p, ast.Call) and call_name(p) == "extend" and norm(p.func.value) == "warnings"
        in_try = any(isinstance(a, ast.Try) for a in __import__("sa.loader", fromlist=["ancestors"]).ancestors(c))
        r3.check(ok and not in_try, f"print_xform_to_file:{norm(c)[:60]}",
                 "validator warnings extend the caller's list; validator exceptions are not swallowed", pf.loc(c))
        # the validator is asked every time it is requested: the only condition on the call is the caller's flag
        # (no "already validated" shortcut - a verdict is never reused for a later call)
        from ..astutil import guard_texts as _gt
        gts = [g_ for g_ in _gt(c, stop=pf.node)]
        which = norm(c.func)
        want_flag = "enketo" if "enketo" in which else "validate"
        r3.check(gts == [want_flag], f"print_xform_to_file:{which} guard", f"runs whenever `{want_flag}` is requested, under no other condition", pf.loc(c), why_fail=f"guards={gts}")
    rules.append(r3)

    # ------------------------------------------------------------------ R4
    r4 = Rule("C18", "C18.R4", "outputs are written only after convert() has returned", floor=4,
              necessary="a file written before the verdict survives a rejected form")
    xc = ctx.func("pyxform.xls2xform:xls2xform_convert", "C18.R4")
    g = cfgmod.build(xc.node.body)
    dom = g.dominators()
    conv = [nid for nid, n in g.nodes.items() if any(call_name(c) == "convert" for c in cfgmod.calls_in(n.stmt))]
    if len(conv) != 1:
        raise AnalysisError("C18.R4", f"expected one convert() call in xls2xform_convert, found {len(conv)}")
    conv_stmt = g.nodes[conv[0]].stmt
    resvar = conv_stmt.targets[0].id if isinstance(conv_stmt, ast.Assign) and isinstance(conv_stmt.targets[0], ast.Name) else None
    writes = [(nid, c) for nid, n in g.nodes.items() for c in cfgmod.calls_in(n.stmt) if call_name(c) == "open" and _is_write_mode(c)]
    if len(writes) < 2:
        raise AnalysisError("C18.R4", "expected the XForm and itemsets writes in xls2xform_convert")
    for nid, c in writes:
        r4.check(conv[0] in dom.get(nid, ()), f"xls2xform_convert:{norm(c)[:60]}", "this write is dominated by the return of convert()", xc.loc(c))
    # the verdict that gates the write is the one requested by the caller: convert() receives this function's own
    # validate / enketo parameters (not constants), and no validator runs after the file exists
    ccall = next(c for c in cfgmod.calls_in(conv_stmt) if call_name(c) == "convert")
    params = {a.arg for a in [*xc.node.args.args, *xc.node.args.kwonlyargs]}
    from ..astutil import subst_locals as _sl
    for flag in ("validate", "enketo"):
        v = kw(ccall, flag)
        v = _sl(v, xc.node) if v is not None else None
        r4.check(isinstance(v, ast.Name) and v.id in params, f"xls2xform_convert:convert({flag}=)", f"convert() validates as the caller asked ({flag} is passed through)", xc.loc(ccall),
                 why_fail=f"{flag}={norm(v) if v is not None else 'omitted'}")
    after = [c for nid, n in g.nodes.items() for c in cfgmod.calls_in(n.stmt) if any(w in dom.get(nid, ()) for w, _ in writes)
             and (call_name(c) in ("check_xform", "validate") or "validate" in norm(c.func))]
    r4.check(not after, "xls2xform_convert:no validation after the write", "nothing is validated once the output file has been written", xc.loc(),
             why_fail=f"{[norm(c)[:50] for c in after]}")
    # what is written, where, and when - by evaluation: the function is evaluated with a stand-in conversion result
    # (with and without itemsets) and a recording `open`; the files written must be exactly the XForm at the output path
    # and, iff the result has itemsets, itemsets.csv in the output path's directory (wherever the input file lives)
    import pathlib as _pl
    from .c12 import native as _native
    for has_items, (inp, outp) in itertools.product((False, True), (("/in/dir/form.xlsx", "/out/dir/form.xml"), ("/same/form.xlsx", "/same/form.xml"), ("form.xlsx", "sub/out.xml"))):
        written = {}

        def h_osopen(i_, a_, k_, n_):
            import os as _os
            flags_ = a_[1] if len(a_) > 1 else k_.get("flags", 0)
            # a descriptor opened without O_TRUNC keeps the old content beyond what is written now
            return Obj(None, {"path": a_[0], "truncates": bool(isinstance(flags_, int) and flags_ & _os.O_TRUNC)}, name="fd")

        def h_open(i_, a_, k_, n_, written=written):
            path_, mode_ = a_[0], k_.get("mode", a_[1] if len(a_) > 1 else "r")
            if isinstance(path_, Obj) and path_.name == "fd":
                # open(fd, "w") does not truncate: only the flags the descriptor was opened with do
                mode_ = ("w" if path_.attrs["truncates"] else "r+ (no truncation: a shorter document leaves the tail of the previous file)")
                path_ = path_.attrs["path"]
            return Obj(None, {"write": lambda i2, a2, k2, n2, path_=path_, mode_=mode_: written.setdefault((str(path_), mode_), []).append(a2[0])}, name="file")
        res_ = Obj(None, {"xform": "XFORM-TEXT", "itemsets": ("CSV-TEXT" if has_items else None), "warnings": ["w1"]}, name="result")
        itx = ctx.interp("C18.R4", hooks={"fnname:convert": lambda i_, a_, k_, n_, res_=res_: (k_["warnings"].append("w1") if isinstance(k_.get("warnings"), list) else None, res_)[1], "ext:pathlib.Path": lambda i_, a_, k_, n_: _pl.PurePosixPath(a_[0]), "ext:os.open": h_osopen,
                                          # a validator called from this wrapper is outside its contract (the rule above reports it); stand-in: no findings
                                          "fnname:check_xform": lambda i_, a_, k_, n_: []})
        itx._modcache = dict(itx._modcache)
        itx._modcache[("pyxform.xls2xform", "logger")] = Sym("LOGGER", truthy=True, attrs={m_: (lambda i_, a_, k_, n_: None) for m_ in ("info", "warning", "exception", "error", "debug")})
        itx.reset([])
        desc = f"itemsets={'yes' if has_items else 'no'} input={inp} output={outp}"
        try:
            out_ = itx.call_function(xc, [], {"xlsform_path": inp, "xform_path": outp}, {"open": _native(h_open)}, xc.node)
        except Raised as e:
            r4.fail(f"xls2xform_convert[{desc}]", f"evaluates (raises {e.exc_name}{e.exc_args})", xc.loc())
            continue
        want_files = {str(_pl.PurePosixPath(outp)): ["XFORM-TEXT"]}
        if has_items:
            want_files[str(_pl.PurePosixPath(outp).parent / "itemsets.csv")] = ["CSV-TEXT"]
        got_files = {str(_pl.PurePosixPath(p_)): v_ for (p_, m_), v_ in written.items()}
        modes_ok = all(m_.startswith("w") for (_p, m_) in written)
        r4.check(got_files == want_files and modes_ok and out_ == ["w1"], f"xls2xform_convert[{desc}]",
                 "writes the XForm to the output path and, iff there are itemsets, itemsets.csv beside it; returns the conversion warnings", xc.loc(),
                 why_fail=f"files written: {got_files!r} (modes {[m_ for _p, m_ in written]}), returned {out_!r}")
    # convert(): itemsets computed iff external choices are used; to_xml receives validate flag
    cv = ctx.func("pyxform.xls2xform:convert", "C18.R4")
    tox = [c for c in walk_own(cv.node) if isinstance(c, ast.Call) and call_name(c) == "to_xml"]
    ok = len(tox) == 1 and all(kw(tox[0], k) is not None and norm(kw(tox[0], k)) == k for k in ("validate", "pretty_print", "warnings", "enketo"))
    r4.check(ok, "convert:to_xml", "convert() forwards validate/pretty_print/warnings/enketo unchanged to to_xml", cv.loc(tox[0] if tox else None))
    # ... and the decision to produce itemsets at all is right for external selects at any depth
    from .c09 import has_external_choices_obligations
    has_external_choices_obligations(ctx, r4, "C18.R4")
    rules.append(r4)

    # ------------------------------------------------------------------ R5
    r5 = Rule("C18", "C18.R5", "CLI outcome table", floor=8 + 10,
              necessary="wrong exit code / surviving output file / crash for that outcome")
    val = ctx.func("pyxform.xls2xform:_validator_args_logic", "C18.R5")
    for skip, odk, enk in itertools.product([False, True], repeat=3):
        it = ctx.interp("C18.R5")
        it.reset([])
        args = Obj(None, {"skip_validate": skip, "odk_validate": odk, "enketo_validate": enk}, name="args")
        res = it.call_function(val, [], {"args": args}, None, val.node)
        if not skip:  # --skip_validate given (store_false)
            exp = (False, False)
        elif not (odk or enk):
            exp = (True, False)
        else:
            exp = (odk, enk)
        got = (res.attrs.get("odk_validate"), res.attrs.get("enketo_validate")) if isinstance(res, Obj) else None
        r5.check(got == exp, f"_validator_args_logic[skip_validate={skip} odk={odk} enketo={enk}]",
                 f"(odk_validate, enketo_validate) == {exp}", val.loc(), why_fail=f"got {got}")
    mc = ctx.func("pyxform.xls2xform:main_cli", "C18.R5")
    outcomes = ["ok", "warn", "ODKValidateError", "OSError", "PyXFormError", "KeyError"]
    exc_mro = {
        "ODKValidateError": ("ODKValidateError", "Exception", "BaseException"),
        "OSError": ("OSError", "Exception", "BaseException"),
        "PyXFormError": ("PyXFormError", "Exception", "BaseException"),
        "KeyError": ("KeyError", "LookupError", "Exception", "BaseException"),
    }
    for json_mode, outcome in itertools.product([True, False], outcomes):
        log = []
        warn_list = [Sym("W1", truthy=True, pytype=str)] if outcome == "warn" else []

        def h_parser(interp, a, k, n, json_mode=json_mode):
            args = Obj(None, {"path_to_XLSForm": Sym("IN", truthy=True, pytype=str), "output_path": Sym("OUT", truthy=True, pytype=str),
                              "json": json_mode, "skip_validate": True, "odk_validate": False, "enketo_validate": False,
                              "pretty_print": False}, name="args")
            return Sym("PARSER", truthy=True, attrs={"parse_args": lambda interp, a, k, n: args})

        def h_conv(interp, a, k, n, outcome=outcome, warn_list=warn_list):
            log.append(("convert", dict(k)))
            if outcome in exc_mro:
                raise Raised(outcome, (Sym("MSG", truthy=True, pytype=str),), n, exc_mro[outcome])
            return warn_list

        def h_logger(interp, base, a, k, n):
            return NotImplemented

        def h_ext(interp, dotted, a, k, n):
            if dotted == "json.dumps":
                log.append(("json", a[0], dict(k)))
                return Sym("JSON", truthy=True, pytype=str)
            if dotted == "pathlib.Path":
                p = a[0]
                # whether a file is already there is part of the quantifier: both answers are explored
                return Sym("PATHOBJ", truthy=True, attrs={"unlink": lambda interp, aa, kk, nn: log.append(("unlink", p, dict(kk))),
                                                           "exists": lambda interp, aa, kk, nn: interp.decide(("output file exists before the run",)),
                                                           "is_file": lambda interp, aa, kk, nn: interp.decide(("output file exists before the run",))})
            raise AnalysisError("C18.R5", f"no model for external call {dotted}")

        logger = Sym("LOGGER", truthy=True, attrs={
            m: (lambda interp, a, k, n, m=m: log.append(("log", m, a))) for m in ("info", "warning", "exception", "error")})
        it = ctx.interp("C18.R5", hooks={"fnname:_create_parser": h_parser, "fnname:xls2xform_convert": h_conv, "ext:*": h_ext,
                                        "fnname:get_xml_path": lambda interp, a, k, n: Sym("OUT2", truthy=True, pytype=str)})
        it._modcache = dict(it._modcache)
        it._modcache[("pyxform.xls2xform", "logger")] = logger
        snapshots = []

        def _one_run():
            log.clear()
            try:
                r_ = it.call_function(mc, [], {}, None, mc.node)
            except Raised:
                snapshots.append(list(log))
                raise
            snapshots.append(list(log))  # (a run aborted to ask for a decision is re-run and does not count)
            return r_
        outs = list(explore(it, _one_run))
        desc0 = f"{'--json' if json_mode else 'plain'} outcome={outcome}"
        for run_i, (dec, out, eff, assumed) in enumerate(outs):
            log = snapshots[run_i] if run_i < len(snapshots) else log
            desc = desc0 + (f" [{', '.join(f'{k[0]}={v}' for k, v in dec.items())}]" if isinstance(dec, dict) and dec else "")
            unlinked = [e for e in log if e[0] == "unlink"]
            if json_mode:
                resp = next((e[1] for e in log if e[0] == "json"), None)
                exp_code = {"ok": 100, "warn": 101}.get(outcome, 999)
                ok = out[0] == "return" and isinstance(resp, dict) and resp.get("code") == exp_code
                r5.check(ok, f"main_cli[{desc}]", f"reports JSON code {exp_code} and does not crash", mc.loc(),
                         why_fail=f"outcome={out[0]} response={resp!r}")
                jk = next((e[2] for e in log if e[0] == "json"), {})
                # the report leaves through a log handler on stderr, whose encoding the tool does not choose (its error
                # handler turns an unencodable character into a Python escape, which is not JSON): the text must be ASCII
                r5.check(jk.get("ensure_ascii", True) is True and not jk.get("cls") and not jk.get("default"), f"main_cli.report encoding[{desc}]", "the JSON report is pure ASCII (json.dumps escapes every non-ASCII character), so any console can carry it", mc.loc(),
                         why_fail=f"json.dumps options {jk!r}")
                if ok and exp_code == 999:
                    m = resp.get("message")
                    r5.check(isinstance(m, Sym) and "EXCMSG" in m.tags, f"main_cli.message[{desc}]", "the JSON message is str(exception)", mc.loc())
                if ok and exp_code == 101:
                    r5.check(resp.get("warnings") is warn_list, f"main_cli.warnings[{desc}]", "the JSON warnings are the conversion warnings", mc.loc())
            else:
                if outcome == "ODKValidateError":
                    ok = out[0] == "return" and len(unlinked) == 1 and isinstance(unlinked[0][1], Sym) and unlinked[0][1].name == "OUT" \
                        and unlinked[0][2].get("missing_ok") is True and any(e[0] == "log" and e[1] in ("exception", "error") for e in log)
                    r5.check(ok, f"main_cli[{desc}]", "logs the failure and removes the output path (missing_ok)", mc.loc(),
                             why_fail=f"outcome={out[0]} log={log!r}")
                elif outcome == "OSError":
                    ok = out[0] == "return" and any(e[0] == "log" and e[1] in ("exception", "error") for e in log)
                    r5.check(ok, f"main_cli[{desc}]", "a missing Java is logged, not a crash", mc.loc(), why_fail=f"outcome={out[0]}")
                elif outcome in ("ok", "warn"):
                    ok = out[0] == "return" and not unlinked
                    r5.check(ok, f"main_cli[{desc}]", "success keeps the written output", mc.loc())
                    if outcome == "warn":
                        r5.check(any(e[0] == "log" and e[1] == "warning" and warn_list[0] in e[2] for e in log), f"main_cli.warnings[{desc}]",
                                 "each warning is logged", mc.loc())
                else:
                    r5.check(out[0] == "raise" and out[1].exc_name == outcome and not unlinked, f"main_cli[{desc}]",
                             "other errors propagate unchanged (reported as failure by the interpreter's exit status)", mc.loc(),
                             why_fail=f"outcome={out[0]}")
            conv = [e for e in log if e[0] == "convert"]
            if conv:
                kws = conv[0][1]
                okk = isinstance(kws.get("xform_path"), Sym) and kws["xform_path"].name == "OUT" and kws.get("validate") is True
                r5.check(okk, f"main_cli.args[{desc}]", "output path and the validator decision (ODK by default) are forwarded", mc.loc(),
                         why_fail=f"kwargs={kws!r}")
    rules.append(r5)

    # ------------------------------------------------------------------ R6
    r6 = Rule("C18", "C18.R6", "error-cleaner pipeline order", floor=3,
              necessary="diagnostic lines would keep Java stack noise / raw instance paths, or be dropped")
    ec = repo.cls("pyxform.validators.error_cleaner:ErrorCleaner")
    ov = ec.methods.get("odk_validate")
    if ov is None:
        raise AnalysisError("C18.R6", "ErrorCleaner.odk_validate not found")
    calls = []
    L1, L2 = Sym("LINE1", truthy=True, pytype=str), Sym("LINE2", truthy=True, pytype=str)

    def h_cleanup(interp, a, k, n):
        calls.append(("cleanup", a[-1]))
        return [L1, L2]

    def h_java(interp, a, k, n):
        calls.append(("java", a[-1]))
        return Sym(f"J({a[-1].name})", truthy=True, pytype=str, attrs={"src": a[-1]})

    def h_join(interp, a, k, n):
        calls.append(("join", a[-1]))
        return Sym("FINAL", truthy=True, pytype=str, attrs={"src": a[-1]})

    MSG = Sym("STDERR", truthy=True, pytype=str)
    it = ctx.interp("C18.R6", hooks={"fnname:_cleanup_errors": h_cleanup, "fnname:_remove_java_content": h_java, "fnname:_join_final": h_join})
    for dec, out, eff, assumed in explore(it, lambda: (calls.clear(), it.call_function(ov, [MSG], {}, None, ov.node))[1]):
        jar = any(k[0] == "in" and v for k, v in assumed.items())
        if jar:
            r6.check(out[0] == "return" and out[1] is MSG and not calls, "ErrorCleaner.odk_validate[jarfile]",
                     "an unreadable-jar message is returned unchanged", ov.loc())
        else:
            kinds = [c[0] for c in calls]
            okc = kinds == ["cleanup", "java", "java", "join"] and calls[0][1] is MSG and calls[1][1] is L1 and calls[2][1] is L2 \
                and isinstance(calls[3][1], list) and [getattr(x, "attrs", {}).get("src") for x in calls[3][1]] == [L1, L2] \
                and out[0] == "return" and isinstance(out[1], Sym) and out[1].name == "FINAL"
            r6.check(okc, "ErrorCleaner.odk_validate[pipeline]",
                     "paths->${name} and de-duplication, then Java-stack filtering of each line, then joining, in that order", ov.loc(),
                     why_fail=f"calls={kinds}")
    # _join_final drops None lines; _cleanup_errors applies the path regex with the token replacer
    jf = ec.methods.get("_join_final")
    it = ctx.interp("C18.R6")
    it.reset([])
    res = it.call_function(jf, [["a", None, "b"]], {}, None, jf.node)
    r6.check(res == "a\nb", "ErrorCleaner._join_final", "filtered (None) lines are dropped and the rest joined by newlines", jf.loc(), why_fail=f"got {res!r}")
    rj = ec.methods.get("_remove_java_content")
    it.reset([])
    outs = {}
    for line in ["\tat org.javarosa.Foo.bar(Foo.java:12)", "org.javarosa.xform.parse.XFormParseException: boom", "plain diagnostic", "java.lang.RuntimeException: x"]:
        it.reset([])
        outs[line] = it.call_function(rj, [line], {}, None, rj.node)
    r6.check(outs["\tat org.javarosa.Foo.bar(Foo.java:12)"] is None and outs["plain diagnostic"] == "plain diagnostic"
             and outs["java.lang.RuntimeException: x"] == "x", "ErrorCleaner._remove_java_content",
             "Java stack lines are removed, exception-class prefixes stripped, diagnostics kept", rj.loc(), why_fail=f"{outs!r}")
    # wrapped exceptions: every Java class-name prefix is noise, not only the outermost one ("Java stack noise removed")
    for line_, want_ in (("java.lang.RuntimeException: org.javarosa.xpath.XPathUnhandledException: Cannot handle function 'foo'", "Cannot handle function 'foo'"),
                         ("org.javarosa.xpath.XPathUnhandledException: java.lang.NullPointerException", ""),
                         ("java.lang.RuntimeException: java.lang.NullPointerException: detail", ": detail"),
                         ("org.javarosa.xform.parse.XFormParseException: Cycle detected", ": Cycle detected"), ("Something else: java.lang.RuntimeException: kept", "Something else: java.lang.RuntimeException: kept")):
        it.reset([])
        try:
            got_ = it.call_function(rj, [line_], {}, None, rj.node)
        except Raised as e:
            got_ = f"raises {e.exc_name}"
        r6.check(got_ == want_, f"ErrorCleaner._remove_java_content[{line_[:60]}]", f"-> {want_!r}", rj.loc(), why_fail=repr(got_))
    rt = ec.methods.get("_replace_xpath_with_tokens")
    it.reset([])
    def m(s):
        return Sym("MATCH", truthy=True, attrs={"group": lambda interp, a, k, n: s})
    res1 = it.call_function(rt, [m("/data/group_a/age")], {}, None, rt.node)
    res2 = it.call_function(rt, [m("/html/body/select1")], {}, None, rt.node)
    r6.check(res1 == "${age}" and res2 == "/html/body/select1", "ErrorCleaner._replace_xpath_with_tokens",
             "instance paths are shown as ${name}; body/model paths are left alone", rt.loc(), why_fail=f"{res1!r} {res2!r}")
    # names that merely look like the document-path markers: a group called `item`, `root`, `html`, a question whose name
    # starts with `value` - these are instance paths and are shown as ${name}; the markers are a PREFIX of the path
    # (/html/body, /root/item, /html/head/model/bind) or its END (/item/value), nothing in between
    for path_, want_ in (("/data/item/value_usd", "${value_usd}"), ("/data/item/values", "${values}"), ("/data/item/value/x", "${x}"), ("/data/html/body", "${body}"), ("/data/root/item", "${item}"),
                         ("/data/root/item/q", "${q}"), ("/data/item/value", "/data/item/value"), ("/html/body/select1/item/value", "/html/body/select1/item/value"),
                         ("/root/item/name", "/root/item/name"), ("/html/head/model/bind", "/html/head/model/bind"), ("/data/g/q", "${q}")):
        it.reset([])
        try:
            got_ = it.call_function(rt, [m(path_)], {}, None, rt.node)
        except Raised as e:
            got_ = f"raises {e.exc_name}"
        r6.check(got_ == want_, f"ErrorCleaner._replace_xpath_with_tokens[{path_}]", f"-> {want_}", rt.loc(), why_fail=repr(got_))
    # the whole cleaner on diagnostic lines where an instance path is followed by each kind of character a sentence
    # can continue with: every path is shown as ${name}, whatever follows it
    ov_ = ec.methods.get("odk_validate")
    cases = [
        ("Error evaluating field '/data/grp/q2': bad", "Error evaluating field '${q2}': bad"),
        ("References involved in the loop: /data/q1, /data/grp/q2.", "References involved in the loop: ${q1}, ${q2}."),
        ("Problem with /data/q1 (and /data/grp/q2)", "Problem with ${q1} (and ${q2})"),
        ("cycle: /data/a -> /data/b/c; /data/d/e.", "cycle: ${a} -> ${c}; ${e}."),
        ("at end /data/q9", "at end ${q9}"),
        # every name the converter accepts is a path step: a dot inside a name, letters of other scripts, digits, hyphens
        ("Error evaluating field '/data/grp/q1.a': bad", "Error evaluating field '${q1.a}': bad"),
        ("Problem with /data/grp/pr\u00e9nom.", "Problem with ${pr\u00e9nom}."),
        ("loop: /data/v1.2/q-3.x, /data/\u540d\u524d/\u5e74\u9f62", "loop: ${q-3.x}, ${\u5e74\u9f62}"),
        ("see /data/a.b/c.d. Then /data/e.", "see ${c.d}. Then ${e}."),
        ("[/data/q1]: x", "[${q1}]: x"),
        # multi-line reports: only a line that repeats the line directly before it is dropped - two reports that share
        # their explanatory lines both keep them
        ("Error A in /data/q1\ncaused by: bad cast\nError B in /data/q2\ncaused by: bad cast", "Error A in ${q1}\ncaused by: bad cast\nError B in ${q2}\ncaused by: bad cast"),
        ("same\nsame\nother\nsame", "same\nother\nsame"),
        ("one\ntwo\nthree", "one\ntwo\nthree"),
        ("Problem at /data/g1/q\nProblem at /data/g2/q\ndetail\nProblem at /data/g1/q", "Problem at ${q}\ndetail\nProblem at ${q}"),
    ]
    for src, want in cases:
        it = ctx.interp("C18.R6")
        it.reset([])
        try:
            got = it.call_function(ov_, [src], {}, None, ov_.node)
        except Raised as e:
            got = f"raises {e.exc_name}"
        r6.check(got == want, f"ErrorCleaner.odk_validate[{src!r}]", f"-> {want!r}", ov_.loc(), why_fail=f"got {got!r}")
    rules.append(r6)
    # the validator's output is decoded whatever bytes it contains (a verdict must never be lost to a codec error): the
    # decoder is evaluated on valid UTF-8, on Latin-1 text and on arbitrary bytes; any locale lookup answers UTF-8 (the
    # common server setting, under which a second UTF-8 attempt fails again)
    r7 = Rule("C18", "C18.R7", "validator output is decoded for every byte sequence", floor=4,
              necessary="an undecodable stderr raises before the exit status is looked at: the rejection (or acceptance) is replaced by a codec error")
    ds = ctx.func("pyxform.validators.util:decode_stream", "C18.R7")
    for desc, raw in (("ascii", b"error: bad form"), ("utf-8", "r\u00e9ponse invalide \u2014 \u4e2d".encode("utf-8")), ("latin-1 accents", "r\u00e9ponse \u00e0 corriger".encode("latin-1")),
                      ("arbitrary bytes", bytes([0xff, 0xfe, 0x80, 0x81, 0x9d, 0x41])), ("cp1252-only bytes", bytes([0x93, 0x94, 0x85])), ("empty", b"")):
        itd = ctx.interp("C18.R7", hooks={"ext:locale.getpreferredencoding": lambda i, a, k, n: "UTF-8", "ext:locale.getencoding": lambda i, a, k, n: "UTF-8",
                                          "ext:sys.getdefaultencoding": lambda i, a, k, n: "utf-8"})
        itd.reset([])
        try:
            got = itd.call_function(ds, [raw], {}, None, ds.node)
            okd = isinstance(got, str)
            why = repr(got)[:80]
        except Raised as e:
            okd, why = False, f"raises {e.exc_name}"
        r7.check(okd, f"decode_stream[{desc}]", "returns text", ds.loc(), why_fail=why)
    rules.append(r7)
    # ------------------------------------------------------------------ R8
    r8 = Rule("C18", "C18.R8", "each validator wrapper reads the process result through the fields it has", floor=1,
              necessary="a wrapper that unpacks the result object as a tuple raises TypeError instead of delivering the verdict")
    from ..unpack import unpack_obligations
    n_u = unpack_obligations(ctx, r8, "C18.R8", only=lambda fi: fi.module.name.startswith("pyxform.validators"), label="validator result")
    # both wrappers read the same result class: the fields they read exist on it
    pr = repo.cls("pyxform.validators.util:PopenResult")
    fields = {t.attr for x in walk_own(pr.methods["__init__"].node) if isinstance(x, ast.Assign | ast.AnnAssign) for t in (x.targets if isinstance(x, ast.Assign) else [x.target])
              if isinstance(t, ast.Attribute) and isinstance(t.value, ast.Name) and t.value.id == "self"}
    for modname in ("pyxform.validators.odk_validate", "pyxform.validators.enketo_validate"):
        cx = repo.find_func(f"{modname}:check_xform")
        if cx is None:
            r8.fail(f"{modname}:check_xform", "the validator wrapper exists (anchor)", modname)
            continue
        res_names = {t.id for x in walk_own(cx.node) if isinstance(x, ast.Assign) and isinstance(x.value, ast.Call) and call_name(x.value) == "_call_validator" for t in x.targets if isinstance(t, ast.Name)}
        reads = {n.attr for n in walk_own(cx.node) if isinstance(n, ast.Attribute) and isinstance(n.value, ast.Name) and n.value.id in res_names}
        unpacked = any(isinstance(x, ast.Assign) and isinstance(x.value, ast.Call) and call_name(x.value) == "_call_validator" and isinstance(x.targets[0], ast.Tuple | ast.List) for x in walk_own(cx.node))
        r8.check(not unpacked and bool(res_names) and reads <= fields and {"return_code", "timeout"} <= reads, f"{modname}:check_xform", f"reads the validator's result through its fields {sorted(fields)}", cx.loc(),
                 why_fail=("unpacks the result object" if unpacked else f"reads {sorted(reads)}"))
    rules.append(r8)
    # ------------------------------------------------------------------ R9
    r9 = Rule("C18", "C18.R9", "a validator process with piped output is drained, and never waited for before it is drained", floor=2,
              necessary="waiting for the child before reading its pipes blocks as soon as a rejection is longer than the pipe buffer: the validator is "
                        "killed by the timeout and its rejection is reported as a mere time-out warning (the form is accepted and written)")
    n9 = 0
    for fi in repo.all_functions():
        if not fi.module.name.startswith("pyxform.validators") or fi.module.name.startswith("pyxform.validators.updater"):
            continue
        for st in walk_own(fi.node):
            if not (isinstance(st, ast.Assign) and isinstance(st.value, ast.Call) and call_name(st.value) == "Popen" and len(st.targets) == 1 and isinstance(st.targets[0], ast.Name)):
                continue
            piped = [k.arg for k in st.value.keywords if k.arg in ("stdout", "stderr") and norm(k.value).split(".")[-1] == "PIPE"]
            if not piped:
                continue
            n9 += 1
            pv = st.targets[0].id
            g = cfgmod.build(fi.node.body)
            created = g.nodes_of_stmt(st)
            if not created:
                raise AnalysisError("C18.R9", "Popen statement not in CFG")

            def _calls(nid, meth, g=g, pv=pv):
                return [c for c in cfgmod.calls_in(g.nodes[nid].stmt) if isinstance(c.func, ast.Attribute) and c.func.attr == meth and isinstance(c.func.value, ast.Name) and c.func.value.id == pv]
            drains = {nid for nid in g.nodes if g.nodes[nid].stmt is not None and _calls(nid, "communicate")}
            waits = {nid for nid in g.nodes if g.nodes[nid].stmt is not None and (_calls(nid, "wait") or _calls(nid, "poll"))}
            construct = f"{fi.fq}:Popen({', '.join(piped)}=PIPE)"
            reach = g.reachable(created[0], blocked=frozenset(drains), skip_labels=frozenset({"exc"}))
            r9.check(bool(drains) and g.exit not in reach, construct + ":drained", "every normal path from the start of the child to the return reads its pipes (communicate)", fi.loc(st),
                     why_fail="a path returns without communicate()")
            early = sorted(w for w in waits if w in reach)
            r9.check(not early, construct + ":no wait before draining", "no wait() / poll() on the child is reachable before communicate()", fi.loc(st),
                     why_fail="; ".join(g.describe(early)[:2]) if early else "")
    ctx.count("piped_children", n9)
    rules.append(r9)
    return rules


def validated_file_obligations(ctx, rule, rid):
    """The temp file of Survey.to_xml: uniquely named, released on every exit."""
    # the file the validators read is this conversion's own: its name comes from the unique-name API (two conversions -
    # threads, or processes sharing the temp directory - must never share it), and it is removed on every exit
    from ..astutil import subst_locals as _sl1
    tox = ctx.func("pyxform.survey:Survey.to_xml", rid)
    pcall = next((c for c in walk_own(tox.node) if isinstance(c, ast.Call) and call_name(c) == "print_xform_to_file"), None)
    if pcall is None:
        rule.fail("Survey.to_xml:validated file", "to_xml writes the XForm to a file for the validators", tox.loc())
    else:
        pexpr = kw(pcall, "path") or (pcall.args[0] if pcall.args else None)
        resolved = _sl1(pexpr, tox.node, depth=4) if pexpr is not None else None
        uniq = resolved is not None and any(isinstance(c, ast.Call) and call_name(c) in ("NamedTemporaryFile", "mkstemp", "TemporaryDirectory", "mkdtemp") for c in ast.walk(resolved))
        rule.check(uniq, "Survey.to_xml:unique temp name", "the path handed to the validators comes from a unique-name temp-file API", tox.loc(pcall),
                 why_fail=f"path = {norm(resolved)[:90] if resolved is not None else None}: a name built from the form (or constant) is shared by concurrent conversions")
        fin = [t for t in walk_own(tox.node) if isinstance(t, ast.Try) and any(pcall is c for b in t.body for c in ast.walk(b))]
        rel = bool(fin) and any(isinstance(c, ast.Call) and call_name(c) in ("unlink", "remove", "cleanup") for st in fin[0].finalbody for c in ast.walk(st))
        rule.check(rel, "Survey.to_xml:released", "the file is removed in a finally clause around the write / validation", tox.loc(pcall))


def _is_write_mode(c: ast.Call) -> bool:
    mode = kw(c, "mode") or (c.args[1] if len(c.args) > 1 else None)
    return isinstance(mode, ast.Constant) and isinstance(mode.value, str) and ("w" in mode.value or "a" in mode.value or "x" in mode.value)
