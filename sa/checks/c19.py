"""C19 — entity declarations follow the documented create/update decision table."""

from __future__ import annotations

import ast
import itertools

from .. import cfg as cfgmod
from ..astutil import call_name, guard_texts, calls_named
from ..interp import GenList, NodeVal, Obj, Raised, Sym, SymStr, explore, ClassVal
from ..loader import AnalysisError, norm, walk_own
from ..report import Rule
from ..xmlmodel import SurveyStub, base_hooks

EXPLANATION = (
    "Finite-domain abstract evaluation (the analyser's own AST evaluator; no execution of pyxform, no solver) of "
    "get_entity_declaration, EntityDeclaration.__init__/xml_instance/xml_bindings over all 16 presence/absence "
    "combinations of (entity_id, create_if, update_if, label), compared cell by cell with the documented table; "
    "abstract evaluation of validate_entity_saveto / dataset-name / column validation over every resolution of "
    "their guards; CFG must-pass-through of validate_entity_saveto before every row append in the row loop; "
    "same-guard checks for the entities namespace/version; folded alias tables."
)
NOT_DECIDED = ("correctness of ${ref} substitution inside entity expressions (C03); the character-level behaviour of "
               "is_xml_tag on arbitrary names")
ASSUMPTIONS = [
    "CPython ast parses the sources as the interpreter would",
    "summaries of node()/insert_xpaths/get_xpath used by the abstract evaluator record flows only (their bodies are checked under C01/C03/C06)",
    "Python dict/str semantics as implemented by the analyser's evaluator for the constructs these functions use",
]

COMBOS = list(itertools.product([False, True], repeat=4))  # (id, create, update, label)


def expected_reject(i, c, u, lab) -> bool:
    return (u and not i) or (i and c and not u) or (not i and not lab)


def _row(i, c, u, lab):
    row = {"dataset": Sym("DATASET", truthy=True, pytype=str)}
    if i:
        row["entity_id"] = Sym("ENTITY_ID", truthy=True, pytype=str)
    if c:
        row["create_if"] = Sym("CREATE_IF", truthy=True, pytype=str)
    if u:
        row["update_if"] = Sym("UPDATE_IF", truthy=True, pytype=str)
    if lab:
        row["label"] = Sym("LABEL", truthy=True, pytype=str)
    return row


def _xml_tag_hook(interp, args, kwargs, node):
    v = args[0] if args else kwargs.get("value")
    if isinstance(v, Sym):
        return interp.decide(("is_xml_tag", v.name.split(".")[0]))
    if isinstance(v, str) and v.isascii():
        # concrete ASCII sample: XML NCName[:NCName] restricted to ASCII (the samples of this module are ASCII)
        import re as _re
        return bool(_re.fullmatch(r"[A-Za-z_][A-Za-z0-9_.\-]*(:[A-Za-z_][A-Za-z0-9_.\-]*)?", v))
    raise AnalysisError("C19", "is_xml_tag called with a non-abstract value during table evaluation")


def _decode(assumed: dict, rule: str):
    """Translate decision keys into named facts; unknown keys -> AnalysisError."""
    facts = {}
    for k, v in assumed.items():
        kind = k[0]
        if kind == "is_xml_tag":
            facts[f"xmltag:{k[1]}"] = v
        elif kind == "startswith":
            facts[f"startswith:{k[2]}"] = v
        elif kind == "in":
            if isinstance(k[1], int) and len(k) > 2:
                facts[f"memberof:{k[2]}"] = v   # <abstract text> in (<literals>): the same fact as a chain of == tests
            else:
                facts[f"in:{k[1]}"] = v
        elif kind == "eq":
            facts[f"eq:{k[-1]}"] = v
        elif kind == "truth":
            facts[f"truth:{k[1]}"] = v
        elif isinstance(kind, str) and kind.startswith("re."):
            # a pattern applied directly to an abstract cell: recorded (R3 requires names to go through the XML-name validator)
            facts.setdefault("regex_guards", []).append((k[1] if len(k) > 1 else "?", v))
        else:
            raise AnalysisError(rule, f"unrecognised guard kind in abstract evaluation: {k!r}")
    return facts


def run(ctx):
    repo = ctx.repo
    rules = []
    ep = ctx.func("pyxform.entities.entities_parsing:get_entity_declaration", "C19.R1")
    ed_cls = repo.cls("pyxform.entities.entity_declaration:EntityDeclaration")

    # ------------------------------------------------------------------ R1
    r1 = Rule("C19", "C19.R1", "16-row create/update decision table", floor=16 * 3,
              necessary="a wrong cell of the table is a wrong entity declaration for that combination")
    stub = SurveyStub()
    hooks = base_hooks(stub)
    hooks["fnname:is_xml_tag"] = _xml_tag_hook
    accepted = {}
    for combo in COMBOS:
        i, c, u, lab = combo
        name = f"id={int(i)} create_if={int(c)} update_if={int(u)} label={int(lab)}"
        it = ctx.interp("C19.R1", hooks=hooks)
        outcomes = []
        for dec, out, eff, assumed in explore(it, lambda: it.call_function(ep, [[_row(*combo)]], {}, None, ep.node)):
            facts = _decode(assumed, "C19.R1")
            bad_name = (facts.get("startswith:'__'") or facts.get("in:'.'") or facts.get("xmltag:DATASET") is False)
            if bad_name:
                continue  # dataset-name rejections are R3's subject
            outcomes.append(out)
        if not outcomes:
            raise AnalysisError("C19.R1", f"no evaluated path with a valid dataset name for {name}")
        kinds = {o[0] for o in outcomes}
        rej = expected_reject(*combo)
        if rej:
            ok = kinds == {"raise"} and all("PyXFormError" in o[1].mro for o in outcomes)
            r1.check(ok, f"get_entity_declaration[{name}]", "documented invalid combination is rejected with PyXFormError",
                     ep.loc(), why_fail=f"outcomes={[(o[0], getattr(o[1], 'exc_name', None)) for o in outcomes]}")
            continue
        ok = kinds == {"return"}
        r1.check(ok, f"get_entity_declaration[{name}]", "documented valid combination is accepted", ep.loc(),
                 why_fail=f"outcomes={[(o[0], getattr(o[1], 'exc_name', None)) for o in outcomes]}")
        if not ok:
            continue
        d = outcomes[0][1]
        if not isinstance(d, dict):
            r1.fail(f"get_entity_declaration[{name}]", "returns a dict", ep.loc())
            continue
        accepted[combo] = d

    inst_fn = ed_cls.methods.get("xml_instance")
    bind_fn = ed_cls.methods.get("xml_bindings")
    if inst_fn is None or bind_fn is None:
        raise AnalysisError("C19.R1", "EntityDeclaration.xml_instance / xml_bindings not found")
    for combo, d in accepted.items():
        i, c, u, lab = combo
        name = f"id={int(i)} create_if={int(c)} update_if={int(u)} label={int(lab)}"
        it = ctx.interp("C19.R1", hooks=hooks)
        it.reset([])
        try:
            obj = it.call(ClassVal(ed_cls), [], dict(d), ed_cls.node)
        except Raised as r:
            r1.fail(f"EntityDeclaration(**declaration)[{name}]", f"constructor accepts the declaration dict (raised {r.exc_name}{r.exc_args})", ed_cls.module.relpath)
            continue
        obj.name = "entity"
        survey = stub.obj()
        try:
            inst = it.call_function(inst_fn, [obj], {}, None, inst_fn.node)
            binds = it.call_function(bind_fn, [obj], {"survey": survey}, None, bind_fn.node)
        except Raised as r:
            r1.fail(f"EntityDeclaration.xml[{name}]", f"generation raised {r.exc_name}{r.exc_args}", inst_fn.loc())
            continue
        if isinstance(binds, GenList | list | tuple):
            binds = [b for b in binds if b is not None]
        if not isinstance(inst, NodeVal) or not all(isinstance(b, NodeVal) for b in binds):
            raise AnalysisError("C19.R1", "xml_instance/xml_bindings did not evaluate to node() results")
        # ---- expected instance
        exp_attrs = {"dataset", "id"}
        if i:
            exp_attrs |= {"update", "baseVersion", "trunkVersion", "branchId"}
        create = c or (not i and not u)
        if create:
            exp_attrs.add("create")
        got_attrs = set(map(str, inst.attrs))
        r1.check(str(inst.tag) == "entity" and got_attrs == exp_attrs,
                 f"xml_instance[{name}]", f"meta/entity carries exactly attributes {sorted(exp_attrs)}", inst_fn.loc(),
                 why_fail=f"got tag={inst.tag!r} attrs={sorted(got_attrs)}")
        flags_ok = (not i or inst.attrs.get("update") == "1") and (not create or inst.attrs.get("create") == "1") \
            and inst.attrs.get("id") == "" and isinstance(inst.attrs.get("dataset"), Sym) and inst.attrs["dataset"].name == "DATASET"
        r1.check(flags_ok, f"xml_instance.values[{name}]", "create/update flags are '1', id is empty, dataset is the sheet's dataset",
                 inst_fn.loc(), why_fail=f"attrs={ {k: repr(v) for k, v in inst.attrs.items()} }")
        # the section builders call xml_instance(survey=survey): the node is the same whatever features the survey lists
        # (the binds do not depend on them, so neither may the attributes they name)
        for feats in (None, ["create"], ["update"], ["create", "update"], ["create", "update", "offline"]):
            sv2 = stub.obj()
            sv2.attrs["entity_features"] = feats
            try:
                inst2 = it.call_function(inst_fn, [obj], {"survey": sv2}, None, inst_fn.node)
                attrs2 = set(map(str, inst2.attrs)) if isinstance(inst2, NodeVal) else None
            except Raised as r:
                attrs2 = f"raises {r.exc_name}"
            r1.check(attrs2 == got_attrs, f"xml_instance[{name}; survey.entity_features={feats}]", "called the way the section builders call it, the entity node has the same attributes", inst_fn.loc(),
                     why_fail=f"{sorted(attrs2) if isinstance(attrs2, set) else attrs2} vs {sorted(got_attrs)}")
        lab_children = [ch for ch in inst.children if isinstance(ch, NodeVal) and ch.tag == "label"]
        r1.check(len(lab_children) == (1 if lab else 0) and len(inst.children) == len(lab_children),
                 f"xml_instance.label[{name}]", "label child present iff a label is declared", inst_fn.loc(),
                 why_fail=f"children={[repr(x) for x in inst.children]}")
        # ---- expected binds
        exp = {}
        exp["bind:/@id"] = {"calculate": "ENTITY_ID" if i else None}
        if c or not i:
            exp["setvalue:/@id"] = {"value": "uuid()", "event": "odk-instance-first-load"}
        if c:
            exp["bind:/@create"] = {"calculate": "CREATE_IF"}
        if u:
            exp["bind:/@update"] = {"calculate": "UPDATE_IF"}
        if i:
            for suf in ("/@baseVersion", "/@trunkVersion", "/@branchId"):
                exp[f"bind:{suf}"] = {"calculate": "ENTITY_ID"}
        if lab:
            exp["bind:/label"] = {"calculate": "LABEL"}
        got = {}
        shape_ok = True
        dup = False
        for b in binds:
            ref = b.attrs.get("nodeset" if b.tag == "bind" else "ref")
            if not (isinstance(ref, SymStr) and len(ref.parts) == 2 and isinstance(ref.parts[0], Sym)
                    and "XPATH" in ref.parts[0].tags and ref.parts[0].attrs.get("of") is obj and isinstance(ref.parts[1], str)):
                shape_ok = False
                continue
            key = f"{b.tag}:{ref.parts[1]}"
            if key in got:
                dup = True
            got[key] = b
        r1.check(shape_ok and not dup, f"xml_bindings.paths[{name}]",
                 "every bind/setvalue targets <this entity's xpath> + literal suffix, no target twice", bind_fn.loc(),
                 why_fail=f"binds={[repr(b) for b in binds]}")
        r1.check(set(got) == set(exp), f"xml_bindings.set[{name}]", f"exactly the documented binds {sorted(exp)}", bind_fn.loc(),
                 why_fail=f"got {sorted(got)}")
        for key, want in exp.items():
            b = got.get(key)
            if b is None:
                continue
            ok = True
            why = ""
            for ak, av in want.items():
                v = b.attrs.get(ak)
                if av is None:
                    if v is not None:
                        ok, why = False, f"{ak} should be absent, got {v!r}"
                elif av in ("uuid()", "odk-instance-first-load"):
                    if v != av:
                        ok, why = False, f"{ak}={v!r}, expected {av!r}"
                else:
                    # must be the substituter applied to (an expression containing) the cell
                    src = v.attrs.get("src") if isinstance(v, Sym) and "SUBST" in v.tags else None
                    names = []
                    if isinstance(src, Sym):
                        names = [src.name]
                    elif isinstance(src, SymStr):
                        names = [s.name for s in src.syms()]
                    if av not in names:
                        ok, why = False, f"{ak} is not insert_xpaths(<{av}>): {v!r}"
                    elif key.split(":")[1] in ("/@create", "/@update", "/label", "/@id") and not isinstance(src, Sym):
                        ok, why = False, f"{ak} should be exactly the cell expression, got {src!r}"
                    elif isinstance(v, Sym) and v.attrs.get("context") is not obj:
                        ok, why = False, "substitution context is not the entity element"
            if b.tag == "bind" and ok:
                if b.attrs.get("type") != "string" or b.attrs.get("readonly") != "true()":
                    ok, why = False, f"type/readonly = {b.attrs.get('type')!r}/{b.attrs.get('readonly')!r}"
            r1.check(ok, f"xml_bindings{key.split(':')[1]}[{name}]", f"{key} has the documented attributes", bind_fn.loc(), why_fail=why)
        # bind suffix targets an attribute / child that exists in the same row's instance (C02.R2 link)
        for key in got:
            suf = key.split(":")[1]
            if suf.startswith("/@"):
                present = suf[2:] in got_attrs
            else:
                present = any(isinstance(ch, NodeVal) and "/" + str(ch.tag) == suf for ch in inst.children)
            r1.check(present, f"bind-target{suf}[{name}]", "bind/setvalue targets an attribute or child present in meta/entity",
                     bind_fn.loc(), why_fail=f"instance attrs={sorted(got_attrs)}")
    rules.append(r1)

    # ------------------------------------------------------------------ R2
    r2 = Rule("C19", "C19.R2", "save_to validation is on the path and complete", floor=8,
              necessary="an unvalidated save_to reaches entities:saveto (wrong or ill-formed property, or outside a declared entity)")
    vs = ctx.func("pyxform.entities.entities_parsing:validate_entity_saveto", "C19.R2")
    it = ctx.interp("C19.R2", hooks={"fnname:is_xml_tag": _xml_tag_hook})
    n_paths = 0
    for decl in (None, {"name": "entity"}):
        for in_rep in (False, True):
            def runit(decl=decl, in_rep=in_rep):
                row = {"type": Sym("TYPE", truthy=True, pytype=str), "name": Sym("QNAME", truthy=True, pytype=str),
                       "bind": {"entities:saveto": Sym("SAVETO", truthy=True, pytype=str)}}
                return it.call_function(vs, [row, Sym("ROWNUM", truthy=True, pytype=int), in_rep, decl], {}, None, vs.node)
            for dec, out, eff, assumed in explore(it, runit):
                n_paths += 1
                f = _decode(assumed, "C19.R2")
                is_grp = bool(f.get("in:'group'")) or bool(f.get("in:'repeat'"))
                reserved = bool(f.get("eq:'name'")) or bool(f.get("eq:'label'")) or any(v_ for k_, v_ in f.items() if k_.startswith("memberof:") and "'name'" in k_ and "'label'" in k_)
                prefix = bool(f.get("startswith:'__'"))
                badtag = f.get("xmltag:SAVETO") is False
                expect_raise = (decl is None) or is_grp or in_rep or reserved or prefix or badtag
                desc = f"decl={'yes' if decl else 'no'} in_repeat={in_rep} group/repeat={is_grp} reserved={reserved} prefix={prefix} badtag={badtag}"
                if expect_raise:
                    ok = out[0] == "raise" and "PyXFormError" in out[1].mro
                    r2.check(ok, f"validate_entity_saveto[{desc}]", "invalid save_to is rejected with PyXFormError", vs.loc(),
                             why_fail=f"outcome={out[0]}")
                    if ok and decl is not None:
                        msg = out[1].exc_args[0] if out[1].exc_args else None
                        cites = isinstance(msg, SymStr) and any(s.name == "ROWNUM" for s in msg.syms())
                        r2.check(cites, f"validate_entity_saveto.row[{desc}]", "row-scoped save_to error cites the row number", vs.loc(out[1].node))
                else:
                    r2.check(out[0] == "return", f"validate_entity_saveto[{desc}]", "valid save_to is accepted", vs.loc(),
                             why_fail=f"raised {getattr(out[1], 'exc_name', '')}")
    # concrete row types: only begin-group / begin-repeat rows are containers; a question whose type (or list name) merely
    # contains the word is an ordinary question and may carry save_to
    SAVETO_TYPES = [("text", True), ("integer", True), ("select_one repeat_reasons", True), ("select_one group_list", True),
                    ("select_multiple regroup", True), ("select_one_from_file groups.csv", True), ("calculate", True),
                    ("begin group", False), ("begin_group", False), ("begin repeat", False), ("begin_repeat", False), ("begin lgroup", False), ("begin looped group", False)]
    itc = ctx.interp("C19.R2", hooks={"fnname:is_xml_tag": lambda interp, args, kwargs, node: True})
    for typ, accept in SAVETO_TYPES:
        itc.reset([])
        row = {"type": typ, "name": "q", "bind": {"entities:saveto": "prop"}}
        try:
            itc.call_function(vs, [row, 4, False, {"name": "entity"}], {}, None, vs.node)
            got = "accepted"
        except Raised as r:
            got = "rejected" if "PyXFormError" in r.mro else f"raised {r.exc_name}"
        r2.check(got == ("accepted" if accept else "rejected"), f"validate_entity_saveto[type={typ!r}]",
                 "a question row with save_to is accepted; a begin group / repeat row is rejected", vs.loc(), why_fail=f"save_to on a `{typ}` row is {got}")
    # empty save_to returns early without demanding a declaration
    it.reset([])
    try:
        it.call_function(vs, [{"type": "text", "name": "q"}, 3, False, None], {}, None, vs.node)
        r2.ok("validate_entity_saveto[no save_to]", "rows without save_to are accepted", vs.loc())
    except Raised as r:
        r2.fail("validate_entity_saveto[no save_to]", f"rows without save_to are accepted (raised {r.exc_name})", vs.loc())

    # must-call before every append in the row loop; in_repeat computed over the whole stack
    w2j = ctx.func("pyxform.xls2json:workbook_to_json", "C19.R2")
    loop = _row_loop(w2j)
    g = cfgmod.build(loop.body)
    vcalls = g.nodes_for(lambda n: any(call_name(c) == "validate_entity_saveto" for c in cfgmod.calls_in(n.stmt)))
    if not vcalls:
        r2.fail("workbook_to_json.row_loop", "validate_entity_saveto is called in the row loop", w2j.loc(loop))
    appends = []
    for nid, n in g.nodes.items():
        for c in cfgmod.calls_in(n.stmt):
            if call_name(c) == "append" and isinstance(c.func, ast.Attribute) and isinstance(c.func.value, ast.Name) \
                    and c.func.value.id in ("parent_children_array", "child_list", "meta_children"):
                appends.append((nid, c))
    for nid, c in appends:
        ok = g.must_pass(g.entry, nid, set(vcalls))
        r2.check(ok, f"workbook_to_json:{norm(c)[:70]}", "every path to this child append passes validate_entity_saveto",
                 w2j.loc(c))
    for nid in vcalls:
        call = next(c for c in cfgmod.calls_in(g.nodes[nid].stmt) if call_name(c) == "validate_entity_saveto")
        # third argument must be derived from a scan of the whole stack for a repeat ancestor
        arg = call.args[2] if len(call.args) > 2 else None
        src = arg if arg is not None and not isinstance(arg, ast.Name) else None
        if isinstance(arg, ast.Name):
            for x in walk_own(loop):
                if isinstance(x, ast.Assign) and any(isinstance(t, ast.Name) and t.id == arg.id for t in x.targets):
                    src = x.value
        txt = norm(src) if src is not None else ""
        ok = src is not None and isinstance(src, ast.Call) and call_name(src) == "any" and "stack" in txt and "repeat" in txt \
            and "[-1]" not in txt
        r2.check(ok, "workbook_to_json:in_repeat", "in_repeat is any(<frame is repeat> for every frame of the stack)", w2j.loc(call),
                 why_fail=f"in_repeat = {txt}")
        if isinstance(arg, ast.Name):
            # ... computed in THIS iteration before the call: a value carried over from the previous row describes that row
            assigns_ = set(g.nodes_for(lambda n: isinstance(n.stmt, ast.Assign) and any(isinstance(t, ast.Name) and t.id == arg.id for t in n.stmt.targets)))
            r2.check(bool(assigns_) and g.must_pass(g.entry, nid, assigns_), f"workbook_to_json:{arg.id} is fresh at {norm(call)[:50]}", "the flag is assigned in the same iteration on every path to the call", w2j.loc(call),
                     why_fail=f"some path from the top of the loop body reaches the call without assigning `{arg.id}`: it still holds the previous row's value")
        a3 = call.args[3] if len(call.args) > 3 else None
        r2.check(isinstance(a3, ast.Name) and a3.id == "entity_declaration", "workbook_to_json:validate_entity_saveto.declaration",
                 "the parsed entity declaration is what save_to is validated against", w2j.loc(call))
    rules.append(r2)

    # ------------------------------------------------------------------ R3
    r3 = Rule("C19", "C19.R3", "dataset and entities-sheet validation", floor=6,
              necessary="an invalid dataset / unknown column / second entity row would be converted instead of rejected")
    it = ctx.interp("C19.R3", hooks={"fnname:is_xml_tag": _xml_tag_hook})
    seen = set()
    adhoc = set()
    for dec, out, eff, assumed in explore(it, lambda: it.call_function(ep, [[_row(False, False, False, True)]], {}, None, ep.node)):
        f = _decode(assumed, "C19.R3")
        adhoc |= {p_ for p_, _v in f.get("regex_guards", [])}
        pre, dot, bad = bool(f.get("startswith:'__'")), bool(f.get("in:'.'")), f.get("xmltag:DATASET") is False
        desc = f"prefix={pre} period={dot} not_xml_name={bad}"
        if desc in seen:
            continue
        seen.add(desc)
        if pre or dot or bad:
            r3.check(out[0] == "raise" and "PyXFormError" in out[1].mro, f"dataset[{desc}]", "invalid dataset name is rejected", ep.loc())
        else:
            r3.check(out[0] == "return", f"dataset[{desc}]", "valid dataset name is accepted", ep.loc())
    r3.check(not adhoc, "dataset.validator", "the list name is judged by the XML-name validator (is_xml_tag), not by a pattern of its own", ep.loc(),
             why_fail=f"own pattern(s) {sorted(adhoc)}: what they accept and what XML accepts differ (non-ASCII letters, colons)")
    if len(seen) < 4:
        r3.fail("dataset.guards", f"dataset name is tested for reserved prefix, period and XML-name ({len(seen)} guard outcomes seen, expected 4)", ep.loc())
    # unknown column
    it.reset([])
    row = _row(False, False, False, True)
    row["bogus_column"] = Sym("X", truthy=True)
    try:
        it.call_function(ep, [[row]], {}, None, ep.node)
        r3.fail("entities.unknown_column", "unknown entities column is rejected", ep.loc())
    except Raised as r:
        r3.check("PyXFormError" in r.mro, "entities.unknown_column", "unknown entities column is rejected with PyXFormError", ep.loc())
    except Exception:
        raise
    # ... with the arguments the row-sheet code actually passes: any further keyword of the call site in workbook_to_json
    # is evaluated (as a dependency slice of that function) and handed to the validator, and a column that is not one
    # of the documented entities columns must still be rejected - also the names of internal element fields
    from ..rowloop import dependency_slice
    w2j_e = ctx.func("pyxform.xls2json:workbook_to_json", "C19.R3")
    ecall = next((c for c in walk_own(w2j_e.node) if isinstance(c, ast.Call) and call_name(c) == "get_entity_declaration"), None)
    extra_kwargs = {}
    if ecall is None:
        r3.fail("workbook_to_json:get_entity_declaration", "the entities sheet is handed to the entity parser", w2j_e.loc())
    else:
        for k_ in ecall.keywords:
            if k_.arg in (None, "entities_sheet"):
                continue
            # the assignments (and local imports) the argument expression depends on, transitively, in source order
            need = {n_.id for n_ in ast.walk(k_.value) if isinstance(n_, ast.Name)}
            picked = []
            changed_ = True
            while changed_:
                changed_ = False
                for st_k in walk_own(w2j_e.node):
                    if st_k in picked or getattr(st_k, "lineno", 10 ** 9) >= ecall.lineno:
                        continue
                    defs_ = set()
                    if isinstance(st_k, ast.Assign):
                        defs_ = {t.id for t in st_k.targets if isinstance(t, ast.Name)}
                    elif isinstance(st_k, ast.ImportFrom | ast.Import):
                        defs_ = {(a_.asname or a_.name).split(".")[0] for a_ in st_k.names}
                    if defs_ & need:
                        picked.append(st_k)
                        need |= {n_.id for n_ in ast.walk(st_k) if isinstance(n_, ast.Name) and isinstance(n_.ctx, ast.Load)}
                        changed_ = True
            picked.sort(key=lambda x_: x_.lineno)
            try:
                itk = ctx.interp("C19.R3")
                itk.reset([])
                envk = {}
                for st_k in picked:
                    if isinstance(st_k, ast.ImportFrom):
                        for a_ in st_k.names:
                            m_ = repo.modules.get(st_k.module)
                            if m_ is not None:
                                envk[a_.asname or a_.name] = itk.module_global(m_, a_.name)
                    else:
                        itk.exec_block([st_k], envk, w2j_e.module)
                extra_kwargs[k_.arg] = itk.eval(k_.value, envk, w2j_e.module)
            except Raised as e:
                r3.fail(f"workbook_to_json:get_entity_declaration({k_.arg}=)", f"the extra argument evaluates (raises {e.exc_name})", w2j_e.loc(ecall))
    for col in ("bogus_column", "name", "type", "parameters", "parent", "children", "what", "save_to", "repeat", "Name"):
        it.reset([])
        rowu = _row(False, False, False, True)
        rowu[col] = "x"
        outs_u = list(explore(it, lambda rowu=rowu: it.call_function(ep, [[dict(rowu)]], dict(extra_kwargs), None, ep.node)))
        kinds_u = {("rejected" if (o[1][0] == "raise" and "PyXFormError" in o[1][1].mro) else ("accepted" if o[1][0] == "return" else f"raises {o[1][1].exc_name}")) for o in outs_u}
        gotu = "rejected" if kinds_u == {"rejected"} else ", ".join(sorted(kinds_u))
        r3.check(gotu == "rejected", f"entities.unknown_column[{col}]", "a column that is not a documented entities column is rejected (with the call site's own arguments)", ep.loc(), why_fail=gotu)
    # every documented column is accepted
    it.reset([])
    full = _row(True, False, True, True)
    try:
        for dec, out, eff, assumed in explore(it, lambda: it.call_function(ep, [[dict(full)]], {}, None, ep.node)):
            f = _decode(assumed, "C19.R3")
            if f.get("startswith:'__'") or f.get("in:'.'") or f.get("xmltag:DATASET") is False:
                continue
            r3.check(out[0] == "return", "entities.known_columns", "dataset/entity_id/update_if/label columns are all accepted", ep.loc())
    except AnalysisError:
        raise
    # a row that does not name the entity list at all (no list_name / dataset cell)
    for desc, row0 in (("label only", {"label": "L"}), ("entity_id and update_if only", {"entity_id": "${e}", "update_if": "true()"}), ("empty dataset cell", {"dataset": "", "label": "L"})):
        it.reset([])
        try:
            it.call_function(ep, [[dict(row0)]], {}, None, ep.node)
            got0 = "accepted"
        except Raised as r:
            got0 = "rejected" if "PyXFormError" in r.mro else f"raises {r.exc_name}"
        r3.check(got0 == "rejected", f"entities.no_dataset[{desc}]", "an entities row without a list name is rejected with PyXFormError", ep.loc(), why_fail=got0)
    # two rows
    it.reset([])
    try:
        it.call_function(ep, [[_row(False, False, False, True), _row(False, False, False, True)]], {}, None, ep.node)
        r3.fail("entities.two_rows", "a second entity row is rejected", ep.loc())
    except Raised as r:
        r3.check("PyXFormError" in r.mro, "entities.two_rows", "a second entity row is rejected with PyXFormError", ep.loc())
    # ... whatever the second row contains: a row that leaves the dataset cell blank but fills other columns is still
    # a second row (silently building the entity from the first row alone drops what the author wrote in it)
    for desc, second in (("second row without dataset, with entity_id", {"entity_id": "${id2}"}), ("second row with only a label", {"label": "L2"}),
                         ("second row with an unknown column", {"foo": "bar"})):
        outs2 = list(explore(it, lambda second=second: it.call_function(ep, [[_row(False, False, False, True), dict(second)]], {}, None, ep.node)))
        okall = bool(outs2) and all(o[1][0] == "raise" and "PyXFormError" in o[1][1].mro for o in outs2)
        r3.check(okall, f"entities.two_rows[{desc}]", "a second entity row is rejected with PyXFormError on every path", ep.loc(),
                 why_fail=f"{[(o[1][0], getattr(o[1][1], 'exc_name', None)) for o in outs2][:4]}")
    rules.append(r3)

    # ------------------------------------------------------------------ R4
    r4 = Rule("C19", "C19.R4", "entities namespace/version exactly when an entity is declared", floor=6,
              necessary="entities:* names without the namespace (ill-formed) or a namespace/version on forms without entities")
    # same guard for entity_features and meta/entity in workbook_to_json
    feat, metaapp = None, None
    for x in walk_own(w2j.node):
        if isinstance(x, ast.Assign) and isinstance(x.targets[0], ast.Subscript):
            okc, key = _fold(ctx, w2j.module, x.targets[0].slice)
            if okc and key == "entity_features":
                feat = x
        if isinstance(x, ast.Call) and call_name(x) == "append" and x.args and isinstance(x.args[0], ast.Name) \
                and x.args[0].id == "entity_declaration":
            metaapp = x
    if feat is None or metaapp is None:
        raise AnalysisError("C19.R4", "entity_features store / meta entity append not found in workbook_to_json")
    gf, gm = guard_texts(feat, stop=w2j.node), guard_texts(metaapp, stop=w2j.node)
    r4.check(gf == ["entity_declaration"], "workbook_to_json:entity_features", "entity_features is set iff an entity is declared",
             w2j.loc(feat), why_fail=f"guards={gf}")
    r4.check(gm == ["entity_declaration"], "workbook_to_json:meta.entity", "meta/entity is appended iff an entity is declared",
             w2j.loc(metaapp), why_fail=f"guards={gm}")
    okf, featv = _fold(ctx, w2j.module, feat.value)
    r4.check(okf and bool(featv), "workbook_to_json:entity_features.value", "entity_features is a non-empty (truthy) value", w2j.loc(feat))
    tgt = metaapp.func.value
    r4.check(isinstance(tgt, ast.Name) and tgt.id == "meta_children", "workbook_to_json:meta.entity.target",
             "the declaration is appended to the meta block's children", w2j.loc(metaapp))
    meta_sealed_rule(ctx, r4, "C19.R4")
    # get_nsmap decision table
    nsf = ctx.func("pyxform.survey:Survey.get_nsmap", "C19.R4")
    base_ns = ctx.consts.get("pyxform.constants", "NSMAP", "C19.R4")
    it = ctx.interp("C19.R4")
    for desc, feats, ns, res in nsmap_table(ctx, "C19.R4"):
        has = isinstance(res, dict) and res.get("xmlns:entities") == "http://www.opendatakit.org/xforms/entities"
        any_ent = isinstance(res, dict) and "xmlns:entities" in res
        r4.check(has if feats else not any_ent, f"get_nsmap[{desc}]",
                 "xmlns:entities is declared (with the ODK entities URI) iff entity_features", nsf.loc(), why_fail=f"{res!r}"[:160])
        keep = isinstance(res, dict) and all(res.get(k) == v for k, v in base_ns.items())
        want_extra = {f"xmlns:{p}": u for p, u in _NS_CASES[ns]} if ns else {}
        r4.check(keep and all(res.get(k) == v for k, v in want_extra.items()), f"get_nsmap.base[{desc}]",
                 "standard namespaces are kept and the author's namespaces are added", nsf.loc(), why_fail=f"{res!r}"[:160])
    # entities-version guarded by the same atom
    xm = ctx.func("pyxform.survey:Survey.xml_model", "C19.R4")
    store = None
    for x in walk_own(xm.node):
        if isinstance(x, ast.Assign) and isinstance(x.targets[0], ast.Subscript):
            okc, key = _fold(ctx, xm.module, x.targets[0].slice)
            if okc and key == "entities:entities-version":
                store = x
    if store is None:
        r4.fail("Survey.xml_model:entities-version", "entities:entities-version is written on the model", xm.loc())
    else:
        gt = guard_texts(store, stop=xm.node)
        r4.check(gt == ["self.entity_features"], "Survey.xml_model:entities-version",
                 "entities:entities-version is written iff entity_features (same atom as the namespace)", xm.loc(store), why_fail=f"guards={gt}")
        okv, ver = _fold(ctx, xm.module, store.value)
        r4.check(okv and ver == ctx.consts.get("pyxform.constants", "ENTITIES_OFFLINE_VERSION"),
                 "Survey.xml_model:entities-version.value", "the version written is the declared entities spec version", xm.loc(store))
        dest = store.targets[0].value
        flows = any(isinstance(c, ast.Call) and call_name(c) == "node" and c.args and _fold(ctx, xm.module, c.args[0]) == (True, "model")
                    and any(k.arg is None and norm(k.value) == norm(dest) for k in c.keywords) for c in walk_own(xm.node))
        r4.check(flows, "Survey.xml_model:model_kwargs", "the attribute dict is splatted onto the model element", xm.loc(store))
    # the atom itself comes from the form definition only: a survey built from a dict has the entity features that dict
    # lists - whatever the same builder object built before (evaluated: one builder, an entity form, then a plain form,
    # then the entity form again; element classes are stubs that keep what they are given)
    bcls = ctx.repo.cls("pyxform.builder:SurveyElementBuilder")
    cf = bcls.methods["create_survey_element_from_dict"]

    def _stub(i, a, k, n):
        return Obj(None, {"name": k.get("name"), "type": k.get("type"), "children": [], "entity_features": k.get("entity_features"), "add_child": lambda i2, a2, k2, n2: None,
                          "add_children": lambda i2, a2, k2, n2: None, "setvalues_by_triggering_ref": None, "setgeopoint_by_triggering_ref": None}, name="section")
    bh = {"fnname:_create_question_from_dict": lambda i, a, k, n: Obj(None, {"name": "q"}, name="q"), "new:GroupedSection": _stub, "new:RepeatingSection": _stub, "new:Survey": _stub,
          "new:EntityDeclaration": lambda i, a, k, n: Obj(None, {"name": "entity"}, name="entity"), "new:ExternalInstance": lambda i, a, k, n: Obj(None, {"name": "x"}, name="x")}
    itb = ctx.interp("C19.R4", hooks=bh, inline=lambda fi: True)
    itb.reset([])
    bobj = Obj(bcls, {}, name="builder")
    itb.call_function(bcls.methods["__init__"], [bobj], {}, None, None)
    FEATS = ["create", "update", "offline"]
    ent_form = {"type": "survey", "name": "data", "entity_features": list(FEATS), "children": [{"type": "text", "name": "a"}, {"type": "group", "name": "meta", "control": {"bodyless": True},
                "children": [{"type": "entity", "name": "entity", "parameters": {"dataset": "trees"}}]}]}
    plain_form = {"type": "survey", "name": "data", "children": [{"type": "text", "name": "a"}]}
    got_hist = []
    try:
        for form in (ent_form, plain_form, ent_form, plain_form):
            sv_ = itb.call_function(cf, [bobj], {"d": {k_: (list(v_) if isinstance(v_, list) else v_) for k_, v_ in form.items()}}, None, cf.node)
            got_hist.append(sv_.attrs.get("entity_features") if isinstance(sv_, Obj) else repr(sv_))
    except Raised as e:
        got_hist.append(f"raises {e.exc_name}{e.exc_args}")
    # after the row loop: a declaration whose expressions name a group, a repeat, a generated node (<repeat>_count,
    # <select>_other, instanceID) or a plain question is accepted as it is - the statements after the row loop, evaluated
    # with such declarations, refuse nothing and put the declaration into meta
    from ..rowloop import row_loop_of
    from ..interp import _Return
    w2j_ = ctx.func("pyxform.xls2json:workbook_to_json", "C19.R4")
    loop_ = row_loop_of(w2j_)
    li_ = next((i_ for i_, st_ in enumerate(w2j_.node.body) if st_ is loop_), None)
    after_ = w2j_.node.body[li_ + 1:] if li_ is not None else []
    for desc_, expr_ in (("a plain question", "${a}"), ("a repeat", "count(${visits}) > 0"), ("a group", "${household} != ''"), ("a generated count node", "${visits_count} > 1"),
                         ("a generated other node", "${fruit_other}"), ("the instance id", "${instanceID}"), ("no reference", "true()")):
        decl_ = {"name": "entity", "type": "entity", "parameters": {"dataset": "trees", "create_if": expr_, "label": f"concat({expr_}, 'x')"}}
        root_ = []
        jd_ = {}
        env_ = {"settings": {}, "meta_children": [], "entity_declaration": decl_, "json_dict": jd_, "stack": [{"parent_children": root_}], "warnings": [], "trigger_references": [], "question_names": {"a", "fruit"},
                "sheet_translations": Obj(None, {"or_other_check": lambda i, a, k, n: None, "or_other_seen": False}, name="sheet_translations"), "survey_sheet": Obj(None, {"data": [], "headers": ()}, name="survey_sheet")}
        ita_ = ctx.interp("C19.R4", inline=lambda fi: True)
        ita_.reset([])
        try:
            try:
                ita_.exec_block(after_, env_, w2j_.module)
            except _Return:
                pass
            meta_ = [c_ for c_ in root_ if isinstance(c_, dict) and c_.get("name") == "meta"]
            got_ = "accepted" if meta_ and decl_ in (meta_[0].get("children") or []) and jd_.get("entity_features") else f"accepted without the declaration in meta: {root_!r}"[:120]
        except Raised as e:
            got_ = f"refused: {e.exc_name} {str(e.exc_args[0])[:80] if e.exc_args else ''}"
        except AnalysisError as e:
            r4.note(f"the statements after the row loop read state this evaluation does not provide ({e})")
            break
        r4.check(got_ == "accepted", f"after the row loop[entity expressions name {desc_}]", "the declaration is accepted and placed in meta", w2j_.loc(after_[0]) if after_ else w2j_.loc(), why_fail=got_)
    r4.check(got_hist == [FEATS, None, FEATS, None], "builder history[entity form, plain form, entity form, plain form]", "each built survey has exactly the entity features its own definition lists", cf.loc(),
             why_fail=repr(got_hist))
    rules.append(r4)

    # ------------------------------------------------------------------ R5
    r5 = Rule("C19", "C19.R5", "alias wiring and builder dispatch", floor=4,
              necessary="save_to would not become bind/@entities:saveto, or the declaration would not be built as an entity")
    sh = ctx.consts.get("pyxform.aliases", "survey_header", "C19.R5")
    r5.check(sh.get("save_to") == ("bind", "entities:saveto"), "aliases.survey_header[save_to]", "save_to -> (bind, entities:saveto)", "pyxform/aliases.py")
    eh = ctx.consts.get("pyxform.aliases", "entities_header", "C19.R5")
    r5.check(eh.get("list_name") == "dataset", "aliases.entities_header[list_name]", "list_name -> dataset", "pyxform/aliases.py")
    # saveto key read by the validator is the key the alias writes
    lits = {n.value for n in ast.walk(vs.node) if isinstance(n, ast.Constant) and isinstance(n.value, str)}
    r5.check(sh.get("save_to", ("", ""))[1] in lits, "validate_entity_saveto:key", "the validator reads the same bind key the alias writes",
             vs.loc())
    # builder dispatch literal equals the type the parser writes
    some = next(iter(accepted.values()), None)
    typ = some.get("type") if some else None
    bld = ctx.func("pyxform.builder:SurveyElementBuilder.create_survey_element_from_dict", "C19.R5")
    found = False
    for x in walk_own(bld.node):
        if isinstance(x, ast.Return) and isinstance(x.value, ast.Call) and call_name(x.value) == "EntityDeclaration":
            gts = guards_of_fold(ctx, bld, x)
            found = True
            r5.check(typ is not None and any(typ == v for v in gts), "builder:entity dispatch",
                     f"type {typ!r} written by the parser is the literal the builder dispatches on", bld.loc(x), why_fail=f"dispatch literals={gts}")
    if not found:
        r5.fail("builder:entity dispatch", "builder constructs EntityDeclaration for the entity type", bld.loc())
    r5.check(some is not None and some.get("name") == "entity", "get_entity_declaration:name", "the declaration node is named 'entity' (meta/entity)", ep.loc())
    rules.append(r5)
    ctx.count("abstract_paths_saveto", n_paths)
    # the or_other block of the row loop, evaluated for select rows with and without logic cells (shared with C09.R6)
    from . import c09 as _c09o
    from .c08 import _take as _take_o
    r_oo = Rule("C19", "C19.R6", "save_to of an or_other select is written on the select only", floor=6,
                necessary="two fields saving to one entity property: the free-text companion overwrites the selected value")
    _take_o(r_oo, ctx.other(_c09o), "C09.R6", lambda c: c.startswith("or_other["))
    rules.append(r_oo)
    return rules


def _fold(ctx, module, node):
    from ..astutil import const_str
    return const_str(ctx, module, node)


def guards_of_fold(ctx, fi, node):
    """Literals compared with `==` in the enclosing guards of node."""
    from ..astutil import guards_of
    vals = []
    for t, pol in guards_of(node, stop=fi.node):
        if pol and isinstance(t, ast.Compare) and len(t.ops) == 1 and isinstance(t.ops[0], ast.Eq):
            okc, v = _fold(ctx, fi.module, t.comparators[0])
            if okc:
                vals.append(v)
    return vals


# author-supplied `namespaces` settings used to exercise get_nsmap: prefixes that merely END in "entities" must not be
# mistaken for the entities declaration, and repeated generation must not lose it
_NS_CASES = {
    'foo="http://example.org/foo"': [("foo", "http://example.org/foo")],
    'subentities="http://example.org/sub"': [("subentities", "http://example.org/sub")],
    'x="http://example.org/x" geo_entities="http://example.org/geo"': [("x", "http://example.org/x"), ("geo_entities", "http://example.org/geo")],
    # a second prefix for a namespace that already has one (a standard one, or another of the author's) is still a
    # prefix the author uses on attribute columns: it must be declared
    'rosa="http://openrosa.org/xforms"': [("rosa", "http://openrosa.org/xforms")],
    'esri="http://example.org/gis" arcgis="http://example.org/gis"': [("esri", "http://example.org/gis"), ("arcgis", "http://example.org/gis")],
    "q='http://example.org/q'": [("q", "http://example.org/q")],
    # a cell that is not tidy: a stray word, a bare prefix, an `=` on its own - the well-formed pairs are still declared
    # and nothing escapes as an internal exception (C17)
    'foo="http://example.org/foo" draft': [("foo", "http://example.org/foo")],
    'bare foo="http://example.org/foo"': [("foo", "http://example.org/foo")],
    'esri = "http://example.org/gis" foo="http://example.org/foo"': [("foo", "http://example.org/foo")],
}


def meta_sealed_rule(ctx, rule_obj, rid):
    """The meta block is assembled from `meta_children`; the group is created only if that list is non-empty at the
    moment it is wrapped.  Every append to the list must therefore happen before the wrap (no append is reachable from
    the emptiness test): an entity declaration / instanceID appended afterwards is silently lost when nothing else
    was in the list."""
    from .. import cfg as cfgmod
    w2j = ctx.func("pyxform.xls2json:workbook_to_json", rid)
    g = cfgmod.build(w2j.node.body)
    def is_meta_list(name):
        return name == "meta_children"
    tests = [nid for nid, n in g.nodes.items() if n.kind == "test" and any(isinstance(x, ast.Name) and is_meta_list(x.id) for x in ast.walk(n.stmt))]
    apps = [(nid, c) for nid, n in g.nodes.items() for c in cfgmod.calls_in(n.stmt)
            if call_name(c) in ("append", "extend", "insert") and isinstance(c.func, ast.Attribute) and isinstance(c.func.value, ast.Name) and is_meta_list(c.func.value.id)]
    rule_obj.check(len(tests) == 1 and len(apps) >= 3, "workbook_to_json:meta wrap", "one emptiness test wraps the meta children; instanceID / instanceName / entity / audit are appended to that list", w2j.loc(),
                   why_fail=f"tests={len(tests)} appends={len(apps)}")
    if len(tests) == 1:
        after = g.reachable(tests[0], skip_labels=frozenset({"exc"}))
        for nid, c in apps:
            rule_obj.check(nid not in after or nid == tests[0], f"workbook_to_json:{norm(c)[:60]} before the meta wrap",
                           "this append cannot happen after the meta group was (or was not) created", w2j.loc(c))


def nsmap_table(ctx, rule):
    """[(description, entity_features, namespaces setting, evaluated namespace map)] — get_nsmap evaluated abstractly,
    twice in a row on the same survey object (XML may be regenerated)."""
    nsf = ctx.func("pyxform.survey:Survey.get_nsmap", rule)
    it = ctx.interp(rule)
    out = []
    base_before = dict(ctx.consts.get("pyxform.constants", "NSMAP", rule))
    for feats in (None, ["create", "update", "offline"]):
        for ns in (None, *_NS_CASES):
            s = Obj(None, {"entity_features": feats, "namespaces": ns}, name="survey")
            res = None
            for rnd in (1, 2):
                it.reset([])
                try:
                    res = it.call_function(nsf, [s], {}, None, nsf.node)
                except Raised as e:
                    res = f"raises {e.exc_name}{e.exc_args}"
                    out.append((f"entity_features={'set' if feats else 'unset'} namespaces={ns!r} call#{rnd}", feats, ns, res))
                    break
                desc = f"entity_features={'set' if feats else 'unset'} namespaces={ns!r} call#{rnd}"
                out.append((desc, feats, ns, res))
    # the shared table of standard namespaces must come out of all those calls untouched: a form's own namespaces
    # written into it would be declared on every later form converted in the same process
    base_after = ctx.consts.get("pyxform.constants", "NSMAP", rule)
    if dict(base_after) != base_before:
        leaked = sorted(set(base_after) ^ set(base_before)) or sorted(k for k in base_before if base_after.get(k) != base_before[k])
        out.append((f"shared NSMAP table mutated by get_nsmap (leaked {leaked})", ["create"], None, "shared-table-mutated"))
        base_after.clear()
        base_after.update(base_before)
    return out


def _row_loop(w2j):
    """The `for row_number, row in enumerate(<survey rows>, start=2)` loop."""
    cands = []
    for x in walk_own(w2j.node):
        if isinstance(x, ast.For) and isinstance(x.iter, ast.Call) and call_name(x.iter) == "enumerate" \
                and any(k.arg == "start" for k in x.iter.keywords) and len(x.body) > 20:
            cands.append(x)
    if len(cands) != 1:
        raise AnalysisError("anchor", f"row loop of workbook_to_json not found uniquely ({len(cands)} candidates)")
    return cands[0]
