"""C06 — user text is data, never markup (string typestate raw / escaped / markup)."""

from __future__ import annotations

import ast
import re

from ..astutil import call_name, const_str, kw, star_kwargs
from ..callgraph import CallGraph
from ..interp import ExcVal, Obj, Raised, Sym, SymStr, explore
from ..loader import AnalysisError, norm, walk_own, parent
from ..prov import Prov, xml_sites
from ..report import Rule
from ..writer_model import eval_node_factory, eval_text_writer, find_writer_classes, flatten

EXPLANATION = (
    "Information-flow / typestate analysis over the handful of channels that turn strings into XML: (R1) census of "
    "every expression assembling markup from strings, each must be one of the five confirmed roles (element writer, "
    "text writer, <output> replacement, the parse wrapper of the node factory, the XML declaration prefixes); (R2) at "
    "every node(..., toParseString=F) the flag and the text are the two components of one insert_output_values call; "
    "(R3) abstract evaluation of insert_output_values: escape first, substitute on the escaped text, return pairs "
    "{(markup, True), (argument unchanged, False)}; (R4/R5) the text writer escapes, the escaper table is the XML one and "
    "single-pass; (R6) no escaped/markup value reaches an escaping sink; (R9) abstract evaluation of the node factory: "
    "text is parsed as markup only under the literal-True flag, attributes and text are stored unchanged."
)
NOT_DECIDED = ("character-for-character recovery modulo whitespace collapsing (value-level); expat's behaviour; name "
               "positions are decided under C01.R2 (shared rule, not re-claimed here)")
ASSUMPTIONS = [
    "minidom _write_data escapes & < > \" in attribute values; Text nodes created by the node factory are written by the package's text writer",
    "provenance joins are unions: imprecision can only add a report",
]

MARKUP_LIT = re.compile(r"<[A-Za-z?/!]|/>|\?>")


def _markup_sites(ctx, reach):
    """(fi, node, interpolated_parts) for every string-building expression with a markup literal."""
    out = []
    for fi in ctx.repo.all_functions():
        for x in walk_own(fi.node):
            lit, dyn = None, []
            if isinstance(x, ast.JoinedStr):
                lits = "".join(v.value for v in x.values if isinstance(v, ast.Constant) and isinstance(v.value, str))
                dyn = [v.value for v in x.values if isinstance(v, ast.FormattedValue)]
                lit = lits
            elif isinstance(x, ast.BinOp) and isinstance(x.op, ast.Add | ast.Mod):
                p = parent(x)
                if isinstance(p, ast.BinOp) and isinstance(p.op, ast.Add | ast.Mod):
                    continue  # handled at the outermost concatenation
                parts = _flatten_add(x)
                lit = "".join(v.value for v in parts if isinstance(v, ast.Constant) and isinstance(v.value, str))
                dyn = [v for v in parts if not isinstance(v, ast.Constant)]
            elif isinstance(x, ast.Call) and call_name(x) == "format" and isinstance(x.func, ast.Attribute) \
                    and isinstance(x.func.value, ast.Constant) and isinstance(x.func.value.value, str):
                lit = x.func.value.value
                dyn = list(x.args) + [k.value for k in x.keywords]
            if lit is not None and dyn:
                # interpolated module constants (an XML declaration kept in a named constant) are literal text
                keep = []
                for d in dyn:
                    okc, cv = const_str(ctx, fi.module, d)
                    if okc and isinstance(cv, str):
                        lit += cv
                    else:
                        keep.append(d)
                dyn = keep
            if lit is None or not dyn or not MARKUP_LIT.search(lit):
                continue
            out.append((fi, x, dyn, fi.fq in reach))
    return out


def _flatten_add(x):
    if isinstance(x, ast.BinOp) and isinstance(x.op, ast.Add | ast.Mod):
        return _flatten_add(x.left) + _flatten_add(x.right)
    return [x]


def _splice_rule(ctx):
    """C06.R12: an instance(...) expression inside a label becomes an <output/> element spliced into the ESCAPED text;
    the text before and after it must come out as the escaped original, whatever markup characters it contains (the
    offsets of the splice are computed on the same string they are applied to)."""
    from .. import trees
    from .c10 import scan_tokens
    r = Rule("C06", "C06.R12", "instance-expression splice keeps the surrounding text", floor=12,
             necessary="offsets taken from one string and applied to another cut the author's text and leak expression fragments into it")
    scls = ctx.repo.cls("pyxform.survey:Survey")
    iov = scls.methods["insert_output_values"]
    rules_map = ctx.consts.get("pyxform.parsing.expression", "LEXER_RULES", "C06.R12")

    def h_parse(i, a, k, n):
        text = a[0] if a else k.get("text")
        toks, rest = scan_tokens(rules_map, text, with_spans=True)
        return ([Obj(None, {"name": nm, "value": v, "start": st, "end": en}, name=f"tok:{nm}") for nm, v, st, en in toks], rest)

    def esc(t):
        return t.replace("&", "&amp;").replace("<", "&lt;").replace(">", "&gt;")

    expr = "instance('l')/root/item[name = 'a']/label"
    survey, by_name, _all = trees.build(ctx, ("data", [("q", "q1")]))
    it0_ = ctx.interp("C06.R12")
    it0_.reset([])
    it0_.call_function(scls.methods["_setup_xpath_dictionary"], [survey], {}, None, None)
    for pre in ("", "plain ", "x > y ", "R&D ", "<b>bold</b> ", "a & b > c "):
        for post in ("", " tail", " & more", " <i>"):
            src = f"{pre}{expr}{post}"
            def h_node(i, a, k, n):
                # a concrete stand-in for the <output/> element: the splice arithmetic needs its length
                return Obj(None, {"toxml": lambda i2, a2, k2, n2, v=k.get("value"): f"<output value=\"{v}\"/>"}, name="output-node")
            it = ctx.interp("C06.R12", hooks={"fnname:parse_expression": h_parse, "fnname:node": h_node})
            it.reset([])
            try:
                out = it.call_function(iov, [survey, src, by_name["q1"]], {}, None, iov.node)
            except Raised as e:
                r.fail(f"splice[{pre!r} + instance(...) + {post!r}]", f"evaluates ({e.exc_name}{e.exc_args})", iov.loc())
                continue
            text = out[0] if isinstance(out, tuple) else out
            if isinstance(text, SymStr):
                text = text.text()
            m_ = re.search(r"<output value=\"[^\"]*\"/>", text) if isinstance(text, str) else None
            before = text[: m_.start()] if m_ else text
            after = text[m_.end():] if m_ else ""
            n_out = len(re.findall(r"<output ", text)) if isinstance(text, str) else 0
            ok = n_out == 1 and before == esc(pre) and after == esc(post) and (isinstance(out, tuple) and out[1] is True)
            syms = [None] * n_out
            r.check(ok, f"splice[{pre!r} + instance(...) + {post!r}]", "escaped text before + one <output/> + escaped text after, flagged as markup", iov.loc(),
                    why_fail=f"before={before!r} after={after!r} outputs={len(syms)}")
    return r


def flatten_symstr(v):
    if isinstance(v, SymStr):
        out = []
        for p_ in v.parts:
            out.extend(flatten_symstr(p_))
        return out
    return [v]


def escaper_failures(ctx, rule):
    """Evaluate the text escaper (abstractly, in the analyser's evaluator) over an adversarial alphabet.
    -> (escaper FuncInfo, samples, [(source, got, expected)])"""
    import itertools as _it
    esc_fn = ctx.func("pyxform.utils:escape_text_for_xml", rule)
    it = ctx.interp(rule)
    samples = ["", "x", "plain ]]> \"q\" 'r'", "&amp;", "AT&amp;T", "&lt;b&gt;bold&lt;/b&gt;", "&#65;", "&#x41;", "&quot;", "&apos;", "a]]>b", "<!-- c -->", "<![CDATA[x]]>",
               "\U0001F600 & \u05d0", "&&", "&amp", "& amp;"]
    for n in (1, 2, 3):
        samples += ["".join(t) for t in _it.product("&<>;#a", repeat=n)]
    bad = []
    for src in samples:
        exp = src.replace("&", "&amp;").replace("<", "&lt;").replace(">", "&gt;")
        it.reset([])
        try:
            got = it.call_function(esc_fn, [], {"text": src}, None, esc_fn.node)
        except Raised as e:
            got = f"raises {e.exc_name}"
        if got != exp:
            bad.append((src, got, exp))
    return esc_fn, samples, bad


def run(ctx):
    repo = ctx.repo
    rules = []
    prov = Prov(ctx)
    cg = CallGraph(repo, ctx.consts.interp)
    reach = cg.reachable(["pyxform.xls2xform:convert"])
    elem_cls, text_cls = find_writer_classes(ctx, "C06")
    writer_fns = {elem_cls.methods["writexml"].fq, text_cls.methods["writexml"].fq}
    node_fn = ctx.func("pyxform.utils:node", "C06")
    scls = repo.cls("pyxform.survey:Survey")

    # ------------------------------------------------------------------ R1
    r1 = Rule("C06", "C06.R1", "markup is assembled from strings only at the confirmed roles", floor=5,
              necessary="any other string-built markup on the conversion path interpolates text without the escaping writer")
    roles_seen = set()
    for fi, x, dyn, inscope in _markup_sites(ctx, reach):
        key = f"{fi.fq}:{norm(x)[:70]}"
        if not inscope:
            r1.note(f"out of scope (not reachable from convert()): {key}")
            continue
        if fi.fq in writer_fns:
            roles_seen.add("writer")
            r1.ok(key, "role: XML writer (write language checked by C01.R6 / C15)", fi.loc(x))
            continue
        if fi.fq == node_fn.fq:
            roles_seen.add("parse-wrapper")
            # must only flow to parseString
            st = x
            while not isinstance(st, ast.stmt):
                st = parent(st)
            var = st.targets[0].id if isinstance(st, ast.Assign) and isinstance(st.targets[0], ast.Name) else None
            uses = [n for n in walk_own(node_fn.node) if isinstance(n, ast.Name) and n.id == var and isinstance(n.ctx, ast.Load)]
            okp = var is not None and len(uses) == 1 and any(isinstance(a, ast.Call) and call_name(a) == "parseString" for a in _anc(uses[0]))
            r1.check(okp, key, "role: parse wrapper of the node factory; the assembled string is consumed only by parseString", fi.loc(x))
            continue
        if fi.cls is scls and fi.name in ("_to_ugly_xml", "_to_pretty_xml"):
            roles_seen.add("declaration")
            okd = all(isinstance(d, ast.Call) and call_name(d) in ("toxml", "toprettyxml") for d in dyn)
            r1.check(okd, key, "role: XML declaration prefix + serialisation of the node tree", fi.loc(x))
            continue
        lit = "".join(v.value for v in getattr(x, "values", []) if isinstance(v, ast.Constant) and isinstance(v.value, str))
        if lit.replace(" ", "").startswith("<outputvalue=") and len(dyn) == 1:
            roles_seen.add("output")
            d = dyn[0]
            okq = isinstance(d, ast.Call) and call_name(d) == "_var_repl_function"
            r1.check(okq, key, "role: <output value=…/> replacement; the only interpolated part is the path generator's result", fi.loc(x))
            continue
        r1.fail(key, "markup assembled from strings outside the confirmed roles", fi.loc(x))
    for role in ("writer", "parse-wrapper", "declaration", "output"):
        r1.check(role in roles_seen, f"role:{role}", "confirmed role is present (anchor)", "")
    # the path generator returns only literals, xpaths and the matched (validated) name
    vr = scls.methods.get("_var_repl_function")
    if vr is None:
        raise AnalysisError("C06.R1", "Survey._var_repl_function not found")
    allowed = ("LIT", "XPATH", "IDX", "VNAME", "PARAM:Survey._var_repl_function.matchobj", "UNK:matchobj", "CELL:_xpath", "SURVEY", "ELEM", "LAMBDAPARAM")
    for x in walk_own(vr.node):
        if isinstance(x, ast.Return) and x.value is not None and _owner(x, vr.node):
            tags = prov.classify(x.value, vr)
            bad = sorted(t for t in tags if not t.startswith(allowed))
            r1.check(not bad, f"{vr.fq}:return {norm(x.value)[:50]}", "path generator result is built from literals, get_xpath() results and the looked-up name only",
                     vr.loc(x), why_fail=f"provenance {bad}")
    rules.append(r1)

    # ------------------------------------------------------------------ R2 / R6
    r2 = Rule("C06", "C06.R2", "parse flag and text come from the same insert_output_values call", floor=8,
              necessary="a cell parsed as markup without having been escaped (flag from elsewhere) lets text add elements")
    r6 = Rule("C06", "C06.R6", "no escaped or markup value reaches an escaping sink (no double escaping)", floor=40,
              necessary="escaped text escaped again is not recovered character-for-character (&lt; shows as &amp;lt;)")
    sites = [s for s in xml_sites(ctx) if s.fi.fq in reach and s.fi.fq != node_fn.fq]
    n_parse = 0
    for s in sites:
        c = s.call
        if s.kind == "node":
            flag = kw(c, "toParseString")
            texts = [a for a in c.args[1:] if not isinstance(a, ast.Starred)]
            ttags = set()
            for a in texts:
                ttags |= prov.classify(a, s.fi)
            if flag is not None:
                n_parse += 1
                ftags = prov.classify(flag, s.fi)
                okc, fv = const_str(ctx, s.fi.module, flag)
                if okc and fv is False:
                    r2.ok(s.key, "flag is literally False", s.loc)
                else:
                    fn = {t.split("#")[1] for t in ftags if t.startswith("OUTFLAG#")}
                    tn = {t.split("#")[1] for t in ttags if t.startswith("OUTTEXT#")}
                    other_f = sorted(t for t in ftags if not t.startswith("OUTFLAG#"))
                    other_t = sorted(t for t in ttags if not t.startswith(("OUTTEXT#", "LIT")))
                    r2.check(bool(fn) and fn == tn and not other_f and not other_t, s.key,
                             "flag and text are the two components of the same insert_output_values call(s) (text may carry a literal prefix)",
                             s.loc, why_fail=f"flag {sorted(ftags)} text {sorted(ttags)}")
            else:
                bad = sorted(t for t in ttags if t.startswith(("ESC", "MARKUP", "OUTTEXT")))
                if texts:
                    r6.check(not bad, s.key + ":text", "text argument without parse flag is raw (escaped exactly once by the text writer)", s.loc,
                             why_fail=f"provenance {bad}")
            for k in c.keywords:
                if k.arg and k.arg != "toParseString":
                    tags = prov.classify(k.value, s.fi)
                    bad = sorted(t for t in tags if t.startswith(("ESC", "MARKUP", "OUTTEXT", "OUTFLAG")))
                    r6.check(not bad, f"{s.key}:@{k.arg}", "attribute value is not already escaped / markup (the attribute writer escapes)", s.loc,
                             why_fail=f"provenance {bad}")
        else:
            tags = prov.classify(c.args[1], s.fi) if len(c.args) > 1 else frozenset()
            bad = sorted(t for t in tags if t.startswith(("ESC", "MARKUP", "OUTTEXT", "OUTFLAG")))
            r6.check(not bad, f"{s.key}:value", "attribute value is not already escaped / markup", s.loc, why_fail=f"provenance {bad}")
    ctx.count("toParseString_sites", n_parse)
    rules += [r2, r6]

    # ------------------------------------------------------------------ R3
    r3 = Rule("C06", "C06.R3", "insert_output_values: escape, then substitute on the escaped text", floor=4,
              necessary="substituting on unescaped text and parsing the result turns '<' typed by the author into markup")
    iov = scls.methods.get("insert_output_values")
    TEXT = Sym("TEXT", truthy=True, pytype=str)
    log = []

    def h_esc(i, a, k, n):
        v = k.get("text", a[0] if a else None)
        log.append(("escape", v))
        return Sym("ESCAPED", truthy=True, pytype=str, tags=("ESC",), attrs={"src": v})

    def h_rwo(i, a, k, n):
        v = a[0] if a else k.get("xml_text")
        log.append(("replace_with_output", v))
        if i.decide(("instance_expr", getattr(v, "uid", 0))):
            return Sym("WITH_OUTPUT", truthy=True, pytype=str, tags=("MARKUP",), attrs={"src": v})
        return v

    def h_sub(i, a, k, n):
        log.append(("re.sub", a[2] if len(a) > 2 else None, a[0]))
        v = a[2]
        if i.decide(("has_ref", getattr(v, "uid", 0))):
            return Sym("SUBSTITUTED", truthy=True, pytype=str, tags=("MARKUP",), attrs={"src": v})
        return v

    it = ctx.interp("C06.R3", hooks={"fnname:escape_text_for_xml": h_esc, "fnname:replace_with_output": h_rwo, "ext:re.sub": h_sub})
    s_obj = Obj(scls, {}, name="survey")
    seen_pairs = set()

    def runit():
        log.clear()
        return it.call_function(iov, [s_obj, TEXT, Obj(None, {}, name="context")], {}, None, iov.node)

    for dec, out, eff, assumed in explore(it, runit):
        if out[0] != "return" or not isinstance(out[1], tuple) or len(out[1]) != 2:
            r3.fail("insert_output_values:return", "returns a (text, flag) pair", iov.loc())
            continue
        val, flag = out[1]
        placeholder = any(k[0] == "eq" and v for k, v in assumed.items() if "'-'" in repr(k))
        esc = [e for e in log if e[0] == "escape"]
        chain_ok = True
        if not placeholder:
            chain_ok = len(esc) == 1 and esc[0][1] is TEXT
            rwo = [e for e in log if e[0] == "replace_with_output"]
            chain_ok = chain_ok and len(rwo) == 1 and isinstance(rwo[0][1], Sym) and "ESC" in rwo[0][1].tags
            for e in log:
                if e[0] == "re.sub":
                    root = _root(e[1])
                    chain_ok = chain_ok and root is not None and "ESC" in root.tags
        desc = "placeholder" if placeholder else ("changed" if flag is True else "unchanged")
        if flag is True:
            root = _root(val)
            ok = isinstance(val, Sym) and "MARKUP" in val.tags and root is not None and "ESC" in root.tags and root.attrs.get("src") is TEXT and chain_ok
            r3.check(ok, f"insert_output_values[{desc}:{len(seen_pairs)}]", "(markup built on the escaped text, True)", iov.loc(),
                     why_fail=f"value={val!r} log={log!r}")
        elif flag is False:
            r3.check(val is TEXT and chain_ok, f"insert_output_values[{desc}:{len(seen_pairs)}]", "(argument unchanged, False)", iov.loc(),
                     why_fail=f"value={val!r} log={log!r}")
        else:
            r3.fail(f"insert_output_values[{desc}]", f"flag is a literal boolean (got {flag!r})", iov.loc())
        seen_pairs.add((desc, len(seen_pairs)))
    rules.append(r3)

    # ------------------------------------------------------------------ R4
    r4 = Rule("C06", "C06.R4", "the text writer escapes everything it writes", floor=1,
              necessary="raw text written into the document lets '<' and '&' in a label become markup")
    tfn = text_cls.methods["writexml"]
    for events, esc, assumed, o in eval_text_writer(ctx, "C06.R4", text_cls, ["", "", ""]):
        writes = [e[1] for e in events if e[0] == "write"]
        nonempty = any(k[0] == "truth" and v for k, v in assumed.items())
        for w in writes:
            # the escaper's own result, not something computed from it afterwards (a later rewrite can un-escape)
            is_esc = isinstance(w, Sym) and "ESC" in w.tags and "derived" not in w.tags and "derived_from" not in w.attrs
            r4.check(is_esc or not nonempty, f"{text_cls.name}.writexml[{'data' if nonempty else 'empty'}]",
                     "non-empty data is written only through the escaper", tfn.loc(), why_fail=f"raw write {w!r}")
    rules.append(r4)

    # ------------------------------------------------------------------ R5
    r5 = Rule("C06", "C06.R5", "escaper table and single pass", floor=5,
              necessary="a missing or doubly applied entity corrupts text for every label containing that character")
    want = {"&": "&amp;", "<": "&lt;", ">": "&gt;"}
    # the table is an implementation detail (checked when it exists); the decision is the escaper's behaviour over an
    # adversarial alphabet, evaluated abstractly: every string of length <= 3 over {& < > ; # a} plus entity-like,
    # CDATA-end and comment-like sequences, against the XML 1.0 text-escaping rule (single pass, every & escaped)
    try:
        subs = ctx.consts.get("pyxform.utils", "XML_TEXT_SUBS", "C06.R5")
        table = ctx.consts.get("pyxform.utils", "XML_TEXT_TABLE", "C06.R5")
    except AnalysisError:
        subs = table = None
    if isinstance(subs, dict) and table is not None:
        for ch, ent in want.items():
            r5.check(subs.get(ch) == ent, f"XML_TEXT_SUBS[{ch!r}]", f"maps to {ent}", "pyxform/utils.py", why_fail=f"got {subs.get(ch)!r}")
        r5.check(set(subs) <= set(want) | {'"', "'"} and isinstance(table, dict) and table == str.maketrans(subs), "XML_TEXT_TABLE",
                 "translate table is built from exactly that mapping (no other character is rewritten in text)", "pyxform/utils.py")
    else:
        r5.note("escaper no longer uses the XML_TEXT_SUBS/XML_TEXT_TABLE pair; decided on the evaluated behaviour alone")
    esc_fn, samples, bad = escaper_failures(ctx, "C06.R5")
    r5.check(not bad, "escape_text_for_xml[adversarial alphabet]", f"{len(samples)} strings: every &, < and > is escaped exactly once, nothing else changes", esc_fn.loc(),
             why_fail="; ".join(f"{a!r} -> {b!r} (expected {c!r})" for a, b, c in bad[:3]))
    for src in ("a&b", "a<b", "a>b", "&amp;", "]]>"):
        exp = src.replace("&", "&amp;").replace("<", "&lt;").replace(">", "&gt;")
        r5.check(not any(b[0] == src for b in bad), f"escape_text_for_xml[{src!r}]", f"single-pass result {exp!r}", esc_fn.loc())
    rules.append(r5)

    # ------------------------------------------------------------------ R9 (node factory)
    r9 = Rule("C06", "C06.R9", "node factory: text is markup only under the literal-True flag; attributes and text stored unchanged", floor=8,
              necessary="any other route from a string argument to parsed markup bypasses the escape-first discipline")
    TXT = Sym("TEXTARG", truthy=True, pytype=str)
    TAG = Sym("TAGARG", truthy=True, pytype=str)
    AV = Sym("ATTRVAL", truthy=True, pytype=str)
    for desc, kwargs in (("flag=True", {"toParseString": True}), ("flag=False", {"toParseString": False}), ("flag absent", {}),
("flag unknown bool", {"toParseString": Sym("FLAG", pytype=bool)})):
        for o, rec, parses, assumed in eval_node_factory(ctx, "C06.R9", [TAG, TXT], {**kwargs, "ref": AV}):
            if o[0] != "return":
                r9.fail(f"node[{desc}]", f"returns an element (raised {o[1].exc_name})", node_fn.loc())
                continue
            flag_true = kwargs.get("toParseString") is True or (isinstance(kwargs.get("toParseString"), Sym) and any(k[0] == "truth" and v for k, v in assumed.items()))
            kids = rec["children"]
            if flag_true:
                okp = len(parses) == 1 and _wrapper_ok(parses[0], TAG, TXT) and all(isinstance(k, Sym) and "CLONE" in k.tags for k in kids) and len(kids) == 2
                r9.check(okp, f"node[{desc}]", "text is wrapped as <T>text</T> with the same T, parsed once, and only the parsed children are attached", node_fn.loc(),
                         why_fail=f"parses={parses!r} children={kids!r}")
            else:
                okt = not parses and len(kids) == 1 and isinstance(kids[0], Obj) and kids[0].cls is text_cls and kids[0].attrs.get("data") is TXT
                r9.check(okt, f"node[{desc}]", "text becomes one escaping text node holding the argument itself; nothing is parsed", node_fn.loc(),
                         why_fail=f"parses={parses!r} children={kids!r}")
            r9.check(rec["attrs"] == [("ref", AV)] and rec["tag"] is TAG, f"node[{desc}]:attrs", "keyword arguments become attributes unchanged; flag and tag are not attributes", node_fn.loc(),
                     why_fail=f"attrs={rec['attrs']!r}")
    # two text arguments are refused
    res = eval_node_factory(ctx, "C06.R9", [TAG, TXT, Sym("TEXT2", truthy=True, pytype=str)], {})
    r9.check(all(o[0] == "raise" and "PyXFormError" in o[1].mro for o, *_ in res), "node[two texts]", "more than one text argument is rejected", node_fn.loc())
    # children order, None skipped from generators
    from ..interp import GenList
    A, B = Obj(elem_cls, {}, name="childA"), Obj(elem_cls, {}, name="childB")
    for o, rec, parses, assumed in eval_node_factory(ctx, "C06.R9", [TAG, A, GenList([None, B])], {}):
        r9.check(o[0] == "return" and rec["children"] == [A, B], "node[children]", "element children are appended in argument order; None from generators is skipped", node_fn.loc(),
                 why_fail=f"children={rec.get('children')!r}")
    rules.append(r9)
    from .c13 import cell_cleaning_rule
    rules.append(cell_cleaning_rule(ctx, "C06", "C06.R10"))
    rules.append(_splice_rule(ctx))
    from .c10 import _classifier_rule
    rules.append(_classifier_rule(ctx, "C06", "C06.R11"))
    from .c10 import static_default_verbatim
    r13 = Rule("C06", "C06.R13", "static defaults are written character for character", floor=20,
               necessary="a default rewritten on its way into the instance node (quotes stripped, trimmed, unescaped) is not the text the author typed")
    static_default_verbatim(ctx, r13, "C06.R13")
    rules.append(r13)
    from .c09 import sparse_extra_columns_obligation
    r14 = Rule("C06", "C06.R14", "extra choice columns reach their items whichever rows have them", floor=1,
               necessary="an extra-column cell that is not emitted is author text lost from the XForm")
    sparse_extra_columns_obligation(ctx, r14, "C06.R14")
    rules.append(r14)
    from .c09 import pulldata_text_obligations
    r15 = Rule("C06", "C06.R15", "function names typed in a message or label add nothing to the model", floor=3,
               necessary="an instance element declared because of words in a message is an element added by author text")
    pulldata_text_obligations(ctx, r15, "C06.R15")
    rules.append(r15)
    rules.append(_loop_substitution_rule(ctx))
    return rules


def _loop_substitution_rule(ctx):
    """`begin loop over <list>`: each child's texts are templates whose %(name)s / %(label)s placeholders are filled
    with the choice's name / label.  The choice's text is DATA: it is inserted as it is, whatever characters it holds
    (backslashes, group references, percent signs, markup characters) - evaluated on adversarial labels, for plain and
    per-language child texts and plain and per-language choice labels."""
    r = Rule("C06", "C06.R16", "loop templates are filled with the choice text as it is", floor=20,
             necessary="a choice label interpreted as a replacement template / format changes (or aborts on) text the author typed")
    bcls = ctx.repo.cls("pyxform.builder:SurveyElementBuilder")
    fn = bcls.methods["_name_and_label_substitutions"]
    LABELS = ["Plain", "C:\\new\\tables", "a\\1b", "\\g<0>", "50% or more", "&<>\"'", "100%s sure", "${ref} & co", "trailing\\"]
    for lab in LABELS:
        for kind in ("plain child text, plain choice label", "per-language child text, plain choice label", "per-language child text, per-language choice label"):
            col = {"name": "c1", "label": lab}
            tmpl = {"type": "text", "name": "q_%(name)s", "label": "Rate %(label)s now", "bind": {"relevant": "${x} = '%(name)s'"}}
            want_label = "Rate " + lab + " now"
            if kind != "plain child text, plain choice label":
                tmpl["label"] = {"en": "Rate %(label)s now", "fr": "Notez %(label)s"}
                want_label = {"en": "Rate " + lab + " now", "fr": "Notez " + lab}
            if kind == "per-language child text, per-language choice label":
                col["label"] = {"en": lab, "fr": lab + " (fr)"}
                want_label = {"en": "Rate " + lab + " now", "fr": "Notez " + lab + " (fr)"}
            it = ctx.interp("C06.R16")
            it.reset([])
            try:
                out = it.call_function(fn, [tmpl, col], {}, None, fn.node)
                got = (out.get("name"), out.get("label"), (out.get("bind") or {}).get("relevant")) if isinstance(out, dict) else out
            except Raised as e:
                got = f"raises {e.exc_name}{e.exc_args}"
            r.check(got == ("q_c1", want_label, "${x} = 'c1'"), f"loop template[{kind}; choice label {lab!r}]", "placeholders are replaced by the choice's name / label, character for character", fn.loc(),
                    why_fail=repr(got)[:200])
    return r


def _wrapper_ok(payload, TAG, TXT) -> bool:
    parts = flatten(payload)
    syms = [p for p in parts if isinstance(p, Sym)]
    lits = [p for p in parts if isinstance(p, str)]
    if [s.name for s in syms] != [TAG.name, TXT.name, TAG.name]:
        return False
    return len(lits) == 3 and lits[0].endswith("<") and lits[0].startswith("<?xml") and lits[1] == ">" and False or \
        (len(lits) == 4 and lits[0].startswith("<?xml") and lits[0].endswith("<") and lits[1] == ">" and lits[2] == "</" and lits[3] == ">")


def _root(v):
    seen = 0
    while isinstance(v, Sym) and "src" in v.attrs and seen < 10 and "ESC" not in v.tags:
        v = v.attrs["src"]
        seen += 1
    return v if isinstance(v, Sym) else None


def _anc(n):
    from ..loader import ancestors
    return list(ancestors(n))


def _owner(x, fn_node) -> bool:
    """True if statement x belongs to fn_node itself (not to a nested def)."""
    from ..loader import ancestors
    for a in ancestors(x):
        if isinstance(a, ast.FunctionDef | ast.AsyncFunctionDef | ast.Lambda):
            return a is fn_node
    return False
