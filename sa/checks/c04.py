"""C04 — survey rows map one-to-one, in order and nesting, onto instance and body (structural clauses)."""

from __future__ import annotations

import ast

from .. import cfg as cfgmod
from .. import spec_xlsform as spec
from ..astutil import call_name, const_str, guard_texts, guards_of, kw
from ..callgraph import CallGraph
from ..interp import ClassVal, NodeVal, Obj, Raised
from ..loader import AnalysisError, ancestors, norm, parent, walk_own
from ..report import Rule
from .c19 import _row_loop
from ..rowloop import param_wiring, type_context

EXPLANATION = (
    "Forward dataflow over the CFG of the row loop body with the lattice 'set of sequences of append events' "
    "(row, meta row, count helper, table-list label/header helpers, or-other companion): at every iteration exit the "
    "sequence must be one of the documented shapes and the empty sequence is allowed only on the documented skip "
    "paths; begin/end stack typestate by dominance; order-preserving traversal census (no sorted/reversed/set/slice "
    "over children or choices); abstract evaluation of the type -> class dispatch for all types of the folded type "
    "table; comparison of the folded type table with an independent XLSForm spec table; extraction of every "
    "(parameter -> section.attribute) wiring statement and of every allowed-parameter tuple, compared with the spec."
)
NOT_DECIDED = ("that arbitrary interleavings of rows produce the right nesting at run time beyond what the append/stack discipline "
               "implies; the deprecated `begin loop` expansion; appearance strings are passed through verbatim (not interpreted)")
ASSUMPTIONS = [
    "exception edges are ignored by the append-sequence dataflow (a raise means the conversion fails: no row mapping to judge)",
    "the independent spec table in sa/spec_xlsform.py was written from the public XLSForm/ODK documentation",
]

CHILD_ARRAYS = ("parent_children_array", "child_list", "meta_children")


def _row_like(w2j, name: str) -> bool:
    """name is `row` or bound to row.copy() / a helper returning a copy of the row."""
    if name == "row":
        return True
    for x in walk_own(w2j.node):
        if isinstance(x, ast.Assign) and any(isinstance(t, ast.Name) and t.id == name for t in x.targets):
            v = norm(x.value)
            if v == "row.copy()" or v.startswith("process_range_question_type(row=row"):
                return True
    return False


def _helper_kind(ctx, w2j, expr) -> str | None:
    d = expr
    if isinstance(expr, ast.Name):
        # the dict literal the name is bound to, through plain copies (`x = y`: the result variable of an expanded helper)
        todo, seen_ = [expr.id], set()
        while todo:
            nm_ = todo.pop()
            if nm_ in seen_:
                continue
            seen_.add(nm_)
            for x in walk_own(w2j.node):
                if isinstance(x, ast.Assign) and any(isinstance(t, ast.Name) and t.id == nm_ for t in x.targets):
                    if isinstance(x.value, ast.Dict):
                        d = x.value
                    elif isinstance(x.value, ast.Name):
                        todo.append(x.value.id)
    if not isinstance(d, ast.Dict):
        return None
    for k, v in zip(d.keys, d.values):
        okc, kv = const_str(ctx, w2j.module, k) if k is not None else (False, None)
        if okc and kv == "name":
            t = norm(v)
            if "generated_node_name" in t or "_count" in t:
                return "C"
            if "generated_table_list_label_" in t:
                return "L"
            if "reserved_name_for_field_list_labels_" in t:
                return "H"
            if "_other" in t:
                return "O"
            return "?"
    return None


def rowd0_label(has):
    return "GROUP LABEL" if has else None


def rowd0_hint(has):
    return "GROUP HINT" if has else None


def table_list_obligations(ctx, rule, rid, w2j, loop, g, events):
    """A group / repeat row with the table-list appearance: the keyword is replaced by field-list (other modifiers kept,
    after it), and the row's label AND hint move onto one generated note that becomes the group's first child - for
    every appearance spelling and every presence pattern of label and hint."""
    from ..rowloop import dependency_slice
    l_nodes = [g.nodes[nid].stmt for nid, ev in events.items() if ev == "L"]
    kw_nodes = [n for n in ast.walk(loop) if (isinstance(n, ast.Attribute) and n.attr == "TABLE_LIST") or (isinstance(n, ast.Constant) and n.value == "table-list")]
    if len(l_nodes) != 1 or not kw_nodes:
        rule.fail("row loop:table-list block", f"one helper-note append ({len(l_nodes)}) and the table-list keyword ({len(kw_nodes)}) are found in the loop", w2j.loc(loop))
        return

    def role(nm):
        low = nm.lower()
        if "number" in low:
            return "int"
        if "child" in low:
            return "list"
        if "json_dict" in low or low in ("row", "new_dict"):
            return "row"
        if low == "table_list":
            return "flag"
        return None
    stmts = dependency_slice(w2j, loop, [*l_nodes, *kw_nodes[:1]], lambda nm: role(nm) is not None)
    free = {n.id for st in stmts for n in ast.walk(st) if isinstance(n, ast.Name) and isinstance(n.ctx, ast.Load)}
    cases = [("table-list", "field-list"), ("table-list compact", "field-list compact"), ("minimal table-list", "field-list minimal"), ("field-list", "field-list"), (None, None), ("compact", "compact")]
    for app, want_app in cases:
        for has_label, has_hint in ((True, True), (True, False), (False, True), (False, False)):
            if app != "table-list" and not (has_label and has_hint):
                continue
            rowd = {"name": "g", "type": "group"}
            if app is not None:
                rowd["control"] = {"appearance": app}
            if has_label:
                rowd["label"] = "GROUP LABEL"
            if has_hint:
                rowd["hint"] = "GROUP HINT"
            kids = []
            env = {nm: {"int": 7, "list": kids, "row": rowd, "flag": None}[role(nm)] for nm in free if role(nm) is not None}
            itb = ctx.interp(rid)
            itb.reset([])
            desc = f"appearance={app!r} label={'yes' if has_label else 'no'} hint={'yes' if has_hint else 'no'}"
            try:
                itb.exec_block(stmts, env, w2j.module)
            except Raised as e:
                rule.fail(f"row loop:table-list[{desc}]", f"the block evaluates (raises {e.exc_name}{e.exc_args})", w2j.loc(stmts[0]))
                continue
            got_app = (rowd.get("control") or {}).get("appearance")
            is_tl = app is not None and "table-list" in app.split()
            ok = got_app == want_app
            why = f"appearance becomes {got_app!r}"
            if is_tl and (has_label or has_hint):
                h = kids[0] if len(kids) == 1 and isinstance(kids[0], dict) else {}
                ok = ok and h.get("type") == "note" and str(h.get("name", "")).startswith("generated_table_list_label_") and h.get("label") == rowd0_label(has_label) \
                    and h.get("hint") == rowd0_hint(has_hint) and "label" not in rowd and "hint" not in rowd
                why += f"; children={kids!r}; group row keeps {sorted(k for k in ('label', 'hint') if k in rowd)}"
            else:
                ok = ok and kids == [] and ("label" in rowd) == has_label and ("hint" in rowd) == has_hint
                why += f"; children={kids!r}"
            rule.check(ok, f"row loop:table-list[{desc}]",
                       (f"appearance -> {want_app!r}; " + ("one generated note carries the group's label and hint, which leave the group row" if is_tl and (has_label or has_hint) else "no helper note, label and hint stay")),
                       w2j.loc(stmts[0]), why_fail=why)


def run(ctx):
    repo = ctx.repo
    it0 = ctx.consts.interp
    rules = []
    w2j = ctx.func("pyxform.xls2json:workbook_to_json", "C04")
    loop = _row_loop(w2j)
    g = cfgmod.build(loop.body)

    # ------------------------------------------------------------------ R1
    r1 = Rule("C04", "C04.R1", "row-loop append discipline (one row -> one child, helpers in documented position)", floor=15,
              necessary="a path that appends a row twice / not at all / a helper on the wrong side changes the number or order of instance nodes")
    events: dict[int, str] = {}
    for nid, n in g.nodes.items():
        for c in cfgmod.calls_in(n.stmt):
            if call_name(c) == "append" and isinstance(c.func, ast.Attribute) and isinstance(c.func.value, ast.Name) and c.func.value.id in CHILD_ARRAYS and c.args:
                a = c.args[0]
                recv = c.func.value.id
                if isinstance(a, ast.Name) and _row_like(w2j, a.id):
                    ev = "M" if recv == "meta_children" else "R"
                else:
                    ev = _helper_kind(ctx, w2j, a) or "?"
                if ev == "R" and recv == "child_list":
                    ev = "?"
                events[nid] = ev
    r1.check("?" not in events.values() and len(events) >= 8, "row loop:append census", "every append to a children array is a row, a meta row or a recognised helper", w2j.loc(loop),
             why_fail=f"events={sorted(events.values())}")
    # forward dataflow: state[node] = set of sequences on entry
    state: dict[int, set[tuple]] = {g.entry: {()}}
    work = [g.entry]
    overflow = False
    while work:
        x = work.pop()
        outs = set()
        for seq in state.get(x, ()):
            s2 = seq + ((events[x],) if x in events else ())
            if len(s2) > 4:
                overflow = True
                s2 = s2[:4]
            outs.add(s2)
        for y, lab in g.succ[x]:
            if lab == "exc":
                continue
            if y in (g.raise_exit,):
                continue
            before = state.get(y, set())
            new = before | outs
            if new != before:
                state[y] = new
                work.append(y)
    r1.check(not overflow, "row loop:append bound", "no path appends more than four entries for one row", w2j.loc(loop))
    # the repeat-count helper node: needed unless the count cell is exactly one ${reference} (jr:count must be a node
    # path; an expression, even one containing references, needs its own calculated node)
    for nid, ev in events.items():
        if ev != "C":
            continue
        st = g.nodes[nid].stmt
        gs = [t for t, pol in guards_of(st, stop=loop) if pol]
        guard = gs[-1] if gs else None
        if guard is None:
            continue
        names = {n.id for n in ast.walk(guard) if isinstance(n, ast.Name) and isinstance(n.ctx, ast.Load)}
        locals_ = {n for n in names if w2j.module.imports.get(n) is None and n not in w2j.module.functions and n not in w2j.module.assigns}
        for text, want in (("3", True), ("${n}", False), ("${n} + 1", True), ("if(${m} > 5, 5, ${m})", True), ("count(${r})", True)):
            itg = ctx.interp("C04.R1")
            itg.reset([])
            try:
                got = itg.truth(itg.eval(guard, {nm: text for nm in locals_}, w2j.module))
            except Raised as e:
                got = f"raises {e.exc_name}"
            r1.check(got is want, f"row loop:count helper guard[{text!r}]", f"a `<repeat>_count` node is {'created' if want else 'not needed'} for this repeat_count cell", w2j.loc(st),
                     why_fail=f"guard `{norm(guard)[:60]}` evaluates to {got}")
    # the table-list block (appearance rewrite + label helper), evaluated as a dependency slice of the loop body: the
    # statements that mention the table-list keyword and build the helper note, plus the assignments they depend on
    table_list_obligations(ctx, r1, "C04.R1", w2j, loop, g, events)
    from ..rowloop import row_prologue_obligations
    row_prologue_obligations(ctx, r1, "C04.R1")
    # disabled rows produce nothing - also the second time the same dict is converted (rows handed to the loop are copies)
    from .c14 import fresh_rows_obligations
    fresh_rows_obligations(ctx, r1, "C04.R1")
    prologue_stmts = []
    for st_ in loop.body:
        if any(isinstance(n_, ast.Name) and isinstance(n_.ctx, ast.Store) and n_.id == "parameters" for n_ in ast.walk(st_)):
            break
        prologue_stmts.append(st_)
    allowed = {("R",), ("M",), ("C", "R"), ("L", "R"), ("C", "L", "R"), ("H", "R"), ("R", "O"), ("H", "R", "O")}
    skip_markers = ("aliases.yes_no.get(disabled)", "not row", "not (constants.NAME in row or constants.LABEL in row)", "settings_type", "end_control_parse")
    # per exit edge
    n_exits = 0
    for x, succs in g.succ.items():
        for y, lab in succs:
            if y != g.exit or lab == "exc":
                continue
            n_exits += 1
            node = g.nodes[x]
            seqs = set()
            for seq in state.get(x, ()):
                seqs.add(seq + ((events[x],) if x in events else ()))
            where = w2j.loc(node.stmt)
            key = f"row loop exit `{norm(node.stmt)[:40]}` @ guards {guard_texts(node.stmt, stop=loop)[-1:]}"
            nonempty = {s for s in seqs if s}
            r1.check(nonempty <= allowed, key, f"append sequence at this exit is one of the documented shapes", where,
                     why_fail=f"sequences {sorted(nonempty - allowed)}")
            if () in seqs:
                if node.stmt is not None and any(node.stmt is d_ or any(node.stmt is y_ for y_ in ast.walk(d_)) for d_ in prologue_stmts):
                    # exits of the row prologue are decided by evaluation (row_prologue_obligations above)
                    r1.ok(key + ":skip", "exit of the row prologue: which rows leave here is decided by the evaluated prologue shapes", where)
                    continue
                gts = " && ".join(guard_texts(node.stmt, stop=loop))
                r1.check(any(m in gts for m in skip_markers), key + ":skip", "a row produces nothing only on a documented skip path (disabled, empty, comment, settings-on-survey, end control)",
                         where, why_fail=f"guards: {gts[:120]}")
    ctx.count("row_loop_cfg_nodes", len(g.nodes))
    ctx.count("row_loop_exits", n_exits)
    # no append inside an inner loop (would repeat per element)
    for nid in events:
        st = g.nodes[nid].stmt
        inner = [a for a in ancestors(st) if isinstance(a, ast.For | ast.While) and a is not loop and loop in list(ancestors(a))]
        r1.check(not inner, f"row loop:{norm(st)[:50]}", "append is not inside an inner loop", w2j.loc(st))
    rules.append(r1)

    # ------------------------------------------------------------------ R2
    r2 = Rule("C04", "C04.R2", "begin/end stack typestate", floor=6,
              necessary="a frame pushed with another list, or popped without the match check, nests following rows under the wrong parent")
    pushes = [(nid, c) for nid, n in g.nodes.items() for c in cfgmod.calls_in(n.stmt) if norm(c.func) == "stack.append"]
    pops = [(nid, c) for nid, n in g.nodes.items() for c in cfgmod.calls_in(n.stmt) if norm(c.func) == "stack.pop"]
    r2.check(len(pushes) == 1 and len(pops) == 1, "row loop:stack ops", "exactly one push site and one pop site", w2j.loc(loop))
    dom = g.dominators(skip_labels=frozenset({"exc"}))
    if len(pushes) == 1:
        nid, c = pushes[0]
        frame = c.args[0] if c.args else None
        pc = None
        if isinstance(frame, ast.Dict):
            for k, v in zip(frame.keys, frame.values):
                if const_str(ctx, w2j.module, k) == (True, "parent_children"):
                    pc = v
        child_store = [x for x in walk_own(loop) if isinstance(x, ast.Assign) and isinstance(x.targets[0], ast.Subscript)
                       and const_str(ctx, w2j.module, x.targets[0].slice) == (True, "children") and isinstance(x.value, ast.Name)]
        r2.check(isinstance(pc, ast.Name) and any(cs.value.id == pc.id and norm(cs.targets[0].value) == "new_json_dict" for cs in child_store), "row loop:frame children",
                 "the pushed frame's children list is the very list stored under the new group's 'children' key", w2j.loc(c))
        r_nodes = [n2 for n2, ev in events.items() if ev == "R" and "new_json_dict" in norm(g.nodes[n2].stmt)]
        r2.check(any(r in dom.get(nid, ()) for r in r_nodes), "row loop:push after append", "the group row is appended to its parent before its frame is pushed", w2j.loc(c))
        r2.check(any("begin_control_parse" in t for t in guard_texts(g.nodes[nid].stmt, stop=loop)), "row loop:push guard", "frames are pushed only for begin-control rows", w2j.loc(c))
    if len(pops) == 1:
        nid, c = pops[0]
        tests = [t for t in dom.get(nid, ()) if g.nodes[t].kind == "test" and "len(stack) == 1" in norm(g.nodes[t].stmt) and "prev_control_type != control_type" in norm(g.nodes[t].stmt)]
        ok = False
        for t in tests:
            ts = [y for y, lab in g.succ[t] if lab == "true"]
            ok = ok or (ts and isinstance(g.nodes[ts[0]].stmt, ast.Raise))
        r2.check(ok, "row loop:pop guard", "pop is dominated by the mismatch/underflow check that raises", w2j.loc(c))
        r2.check(any("end_control_parse" in t for t in guard_texts(g.nodes[nid].stmt, stop=loop)), "row loop:pop guard2", "frames are popped only for end-control rows", w2j.loc(c))
    # leaving any group or repeat ends a table-list context: the pending list name is cleared on every path from the pop
    # to the end of the iteration (a state that survives `end repeat` forces list-nolabel on unrelated later selects)
    tl_vars = {t.id for x in walk_own(w2j.node) if isinstance(x, ast.Assign) and isinstance(x.value, ast.Constant) and x.value.value is None
               for t in x.targets if isinstance(t, ast.Name) and "table_list" in t.id}
    if len(pops) == 1 and tl_vars:
        nid, c = pops[0]
        clears = set(g.nodes_for(lambda n: isinstance(n.stmt, ast.Assign) and isinstance(n.stmt.value, ast.Constant) and n.stmt.value.value is None
                                 and any(isinstance(t, ast.Name) and t.id in tl_vars for t in n.stmt.targets)))
        r2.check(bool(clears) and g.must_pass(nid, g.exit, clears, skip_labels=frozenset({"exc"})), "row loop:table-list cleared on end",
                 "every end-control path clears the table-list state before the next row", w2j.loc(c))
    head = [x for x in loop.body[:3] if isinstance(x, ast.If)]
    # the list rows are appended to is (re)read from the top frame on every path from the top of the iteration to an append
    from ..astutil import subst_locals
    pca_nodes, pca_from_top = set(), False
    for nid_, n_ in g.nodes.items():
        x = n_.stmt
        if isinstance(x, ast.Assign) and len(x.targets) == 1 and isinstance(x.targets[0], ast.Name) and x.targets[0].id == "parent_children_array":
            val = norm(subst_locals(x.value, loop, depth=3))
            if val == "stack[-1]['parent_children']":
                pca_nodes.add(nid_)
                pca_from_top = True
            elif val == "[]":
                pca_nodes.add(nid_)
    ok_top = pca_from_top and all(g.must_pass(g.entry, nid_, pca_nodes) for nid_ in events if g.nodes[nid_].stmt is not None and "parent_children_array" in norm(g.nodes[nid_].stmt))
    r2.check(ok_top, "row loop:current parent", "rows are appended to the top frame's children list, read at the start of every iteration", w2j.loc(loop),
             why_fail=f"assignments from the top frame: {len(pca_nodes)}")
    gf = cfgmod.build(w2j.node.body)
    rets = [nid for nid, n in gf.nodes.items() if isinstance(n.stmt, ast.Return)]
    unb = [nid for nid, n in gf.nodes.items() if n.kind == "test" and norm(n.stmt) == "len(stack) != 1"]
    okret = bool(rets) and len(unb) == 1 and all(gf.must_pass(gf.entry, r, set(unb)) for r in rets)
    if okret:
        ts = [y for y, lab in gf.succ[unb[0]] if lab == "true"]
        okret = bool(ts) and isinstance(gf.nodes[ts[0]].stmt, ast.Raise)
    r2.check(okret, "workbook_to_json:unmatched begin", "the function cannot return unless the stack is back to the root frame (else PyXFormError)", w2j.loc())
    rules.append(r2)

    # ------------------------------------------------------------------ R3
    r3 = Rule("C04", "C04.R3", "children and choices are traversed in list order", floor=10,
              necessary="a sorted / reversed / de-duplicated traversal changes the order of instance nodes or body controls")
    cg = CallGraph(repo, it0)
    reach = cg.reachable(["pyxform.xls2xform:convert"])
    for fi in repo.all_functions():
        if fi.fq not in reach:
            continue
        for x in walk_own(fi.node):
            it = None
            if isinstance(x, ast.For):
                it = x.iter
            elif isinstance(x, ast.comprehension):
                it = x.iter
            if it is None:
                continue
            txt = norm(it)
            if not any(w in txt for w in (".children", "children)", "children", ".options", "(choices)", "d.get(const.CHILDREN)")):
                continue
            if "children" not in txt and "options" not in txt and "choices" not in txt:
                continue
            core = it
            if isinstance(core, ast.Call) and call_name(core) == "enumerate" and core.args:
                core = core.args[0]
            bad = None
            for n in ast.walk(it):
                if isinstance(n, ast.Call) and call_name(n) in ("sorted", "reversed", "set", "frozenset", "shuffle", "sample"):
                    bad = call_name(n)
                if isinstance(n, ast.Subscript) and isinstance(n.slice, ast.Slice) and n.slice.step is not None:
                    bad = "slice with step"
            r3.check(bad is None, f"{fi.fq}:for … in {txt[:50]}", "plain forward iteration over the list", fi.loc(it), why_fail=f"uses {bad}")
    # instance nesting, order and jr:template copies: the instance builders are evaluated (abstractly: elements are
    # attribute bags, nodes are recorded, nothing of pyxform runs) on every chain of up to three nested groups/repeats
    # around a question, each with a sibling question before and after, and compared with the documented shape
    si = ctx.func("pyxform.section:Section.xml_instance", "C04.R3")
    _template_shapes(ctx, r3, si)
    bs = ctx.func("pyxform.builder:SurveyElementBuilder._create_section_from_dict", "C04.R3")
    r3.check(any(isinstance(c, ast.Call) and call_name(c) == "add_children" for c in walk_own(bs.node)), "builder:add_children", "built children are added in iteration order", bs.loc())
    rules.append(r3)

    # ------------------------------------------------------------------ R4
    r4 = Rule("C04", "C04.R4", "every type maps to a control class; visible tags build a control, hidden ones none", floor=100,
              necessary="a type without class crashes; a visible type whose class builds no control is missing from the body")
    qtd = ctx.consts.get("pyxform.question_type_dictionary", "QUESTION_TYPE_DICT", "C04.R4")
    gq = ctx.func("pyxform.builder:SurveyElementBuilder._get_question_class", "C04.R4")
    qcls = repo.cls("pyxform.question:Question")
    base_build = qcls.methods["build_xml"]
    base_none = all(isinstance(x, ast.Return) and isinstance(x.value, ast.Constant) and x.value.value is None for x in walk_own(base_build.node) if isinstance(x, ast.Return))
    r4.check(base_none, "Question.build_xml", "the base class builds no control (used for hidden/metadata/action rows)", base_build.loc())
    it = ctx.interp("C04.R4")
    for typ, specd in sorted(qtd.items()):
        it.reset([])
        try:
            cls = it.call_function(gq, [typ, qtd], {}, None, gq.node)
        except Raised as r:
            r4.fail(f"type {typ!r}", f"maps to a question class (raised {r.exc_name}{r.exc_args})", gq.loc())
            continue
        tag = (specd.get("control") or {}).get("tag", "")
        if not isinstance(cls, ClassVal):
            r4.fail(f"type {typ!r}", "maps to a question class", gq.loc())
            continue
        bx = next((c.methods["build_xml"] for c in it0.mro(cls.ci) if "build_xml" in c.methods), None)
        visible = tag not in ("", "action")
        if visible:
            ok = bx is not None and bx is not base_build and any(isinstance(c, ast.Call) and call_name(c) == "_build_xml" for c in walk_own(bx.node))
            r4.check(ok, f"type {typ!r}", f"control tag {tag!r} -> class {cls.ci.name} builds a body control from _build_xml", gq.loc())
        else:
            r4.check(bx is base_build, f"type {typ!r}", f"no control tag -> class {cls.ci.name} builds no body control", gq.loc())
    # osm rewrite and select classes
    for typ, want in (("osm", "OsmUploadQuestion"), ("select one", "MultipleChoiceQuestion"), ("select all that apply", "MultipleChoiceQuestion"),
                      ("rank", "MultipleChoiceQuestion"), ("range", "RangeQuestion"), ("text", "InputQuestion"), ("photo", "UploadQuestion"), ("acknowledge", "TriggerQuestion")):
        it.reset([])
        cls = it.call_function(gq, [typ, qtd], {}, None, gq.node)
        r4.check(isinstance(cls, ClassVal) and cls.ci.name == want, f"class of {typ!r}", f"is {want}", gq.loc(), why_fail=f"got {cls!r}")
    # legacy spellings of the types the row loop handles specially (parameters -> attributes) are rewritten to the
    # canonical type before the loop looks at them; a spelling that keeps its own table entry but is no longer
    # rewritten converts with the right control and silently loses its parameters
    tam = ctx.consts.get("pyxform.aliases", "_type_alias_map", "C04.R4")
    for legacy, canon in (("image", "photo"), ("add image prompt", "photo"), ("add photo prompt", "photo"), ("add audio prompt", "audio")):
        r4.check(tam.get(legacy) == canon and qtd.get(canon) is not None, f"type alias {legacy!r}", f"is rewritten to {canon!r}, the spelling the parameter handling is keyed on", "pyxform/aliases.py",
                 why_fail=f"got {tam.get(legacy)!r}")
    # which rows are user-visible: a question of a visible type gets its control unless it is computed (a calculation
    # or a trigger) AND carries neither label nor hint; a `calculate` row never gets one.  All 32 combinations.
    import itertools as _it4
    xc = qcls.methods["xml_control"]
    iq = repo.cls("pyxform.question:InputQuestion")
    CONTROL = NodeVal("input")
    n_vis = 0
    for typ, has_calc, has_trig, has_label, has_hint in _it4.product(("text", "calculate"), (False, True), (False, True), (False, True), (False, True)):
        stub = Obj(None, {"get_trigger_values_for_question_name": lambda i, a, k, n: []}, name="survey")
        q = Obj(iq, {"name": "q", "type": typ, "bind": ({"type": "string", "calculate": "1+1"} if has_calc else {"type": "string"}), "trigger": ("${t}" if has_trig else None),
                     "label": ("L" if has_label else None), "hint": ("H" if has_hint else None), "media": None, "parent": None}, name="q")
        itv = ctx.interp("C04.R4", hooks={"fnname:build_xml": lambda i, a, k, n: CONTROL})
        itv.reset([])
        try:
            got = itv.call_function(xc, [q], {"survey": stub}, None, xc.node)
        except Raised as e:
            got = f"raises {e.exc_name}"
        want_control = typ != "calculate" and not ((has_calc or has_trig) and not (has_label or has_hint))
        n_vis += 1
        desc = f"type={typ} calculation={'yes' if has_calc else 'no'} trigger={'yes' if has_trig else 'no'} label={'yes' if has_label else 'no'} hint={'yes' if has_hint else 'no'}"
        r4.check((got is CONTROL) if want_control else (got is None), f"Question.xml_control[{desc}]",
                 "has a body control" if want_control else "has no body control (not user-visible)", xc.loc(), why_fail=f"got {got!r}")
    rules.append(r4)

    # ------------------------------------------------------------------ R5
    r5 = Rule("C04", "C04.R5", "type table equals the XLSForm specification", floor=37,
              necessary="a wrong control tag, media type, bind type or preload for a documented type yields the wrong widget/data type for every row of that type")
    for typ, (tag, media, btype, preload, pparams) in sorted(spec.TYPE_SPEC.items()):
        e = qtd.get(typ)
        if e is None:
            r5.fail(f"type {typ!r}", "documented type exists in the type table", "pyxform/question_type_dictionary.py")
            continue
        ctrl, bind = e.get("control") or {}, e.get("bind") or {}
        got = (ctrl.get("tag"), ctrl.get("mediatype"), bind.get("type"), bind.get("jr:preload"), bind.get("jr:preloadParams"))
        r5.check(got == (tag, media, btype, preload, pparams), f"type {typ!r}", f"(tag, mediatype, bind type, preload, params) == {(tag, media, btype, preload, pparams)}",
                 "pyxform/question_type_dictionary.py", why_fail=f"got {got}")
        extra_ctrl = set(ctrl) - {"tag", "mediatype"}
        r5.check(not extra_ctrl, f"type {typ!r}:control extras", "no undocumented default control attribute", "pyxform/question_type_dictionary.py", why_fail=f"{extra_ctrl}")
    r5.check((qtd.get("note", {}).get("bind") or {}).get("readonly") == spec.NOTE_READONLY, "type 'note':readonly", "notes are read-only", "pyxform/question_type_dictionary.py")
    for typ, act in spec.ACTIONS.items():
        r5.check(qtd.get(typ, {}).get("action") == act, f"type {typ!r}:action", f"action == {act}", "pyxform/question_type_dictionary.py", why_fail=f"got {qtd.get(typ, {}).get('action')}")
    for grp in spec.TYPE_ALIAS_GROUPS:
        for other in grp[1:]:
            r5.check(qtd.get(other) == qtd.get(grp[0]), f"alias {other!r}=={grp[0]!r}", "equivalent spellings have equal entries", "pyxform/question_type_dictionary.py")
    tam = ctx.consts.get("pyxform.aliases", "_type_alias_map", "C04.R5")
    for k, v in tam.items():
        r5.check(v in qtd, f"_type_alias_map[{k!r}]", f"alias target {v!r} is a type", "pyxform/aliases.py")
    r5.check(tam.get("image") == "photo", "_type_alias_map['image']", "image -> photo", "pyxform/aliases.py")
    sel = ctx.consts.get("pyxform.aliases", "select", "C04.R5")
    for k, v in sel.items():
        r5.check(v in qtd, f"aliases.select[{k!r}]", f"select command maps to a type of the table ({v!r})", "pyxform/aliases.py")
    rules.append(r5)

    for typ, (btype, preload, pparams) in sorted(spec.PRELOAD_SPEC.items()):
        b = (qtd.get(typ) or {}).get("bind") or {}
        got = (b.get("type"), b.get("jr:preload"), b.get("jr:preloadParams"))
        r5.check(got == (btype, preload, pparams) and not (qtd.get(typ) or {}).get("control"), f"metadata type {typ!r}", f"bind type {btype}, jr:preload={preload}, jr:preloadParams={pparams}, no control",
                 "pyxform/question_type_dictionary.py", why_fail=f"table has {got}")
    # upload controls: the media type follows from the kind of thing uploaded, whichever spelling of the type is used
    # (independent table: the word in the type name -> the MIME family)
    UPLOAD_WORDS = (("picture", "image/*"), ("photo", "image/*"), ("image", "image/*"), ("audio", "audio/*"), ("video", "video/*"), ("osm", "osm/*"), ("file", "application/*"))
    n_up = 0
    for typ, ent in sorted(qtd.items()):
        c_ = (ent or {}).get("control") or {}
        if c_.get("tag") != "upload":
            continue
        n_up += 1
        want_mt = next((mt for w_, mt in UPLOAD_WORDS if w_ in typ.split()), None)
        r5.check(want_mt is not None and c_.get("mediatype") == want_mt and ((ent.get("bind") or {}).get("type") == "binary"), f"upload type {typ!r}", f"mediatype {want_mt}, bind type binary",
                 "pyxform/question_type_dictionary.py", why_fail=f"table has mediatype {c_.get('mediatype')!r}, bind {ent.get('bind')}")
    r5.check(n_up >= 14, "upload types", "the fourteen upload spellings are in the table", "pyxform/question_type_dictionary.py", why_fail=f"{n_up}")
    # ------------------------------------------------------------------ R6
    r6 = Rule("C04", "C04.R6", "parameter / appearance wiring and allowed-parameter tuples", floor=20,
              necessary="a parameter written to the wrong attribute, accepted but ignored, or consumed without being allowed")
    fns = [w2j, ctx.func("pyxform.xls2json:process_range_question_type", "C04.R6")]
    got, _sites = param_wiring(ctx, fns, loop)
    # contexts whose whole branch is ALSO evaluated below over parameter subsets (type_branch_obligations): there the
    # evaluation decides; the data-flow extraction only adds a second opinion where the wiring has a shape it can read
    EVALUATED_WIRING = {"photo", "audio", "background-audio", "geo"}
    EVALUATED_ALLOWED = {"photo", "audio", "background-audio", "geopoint", "geoshape/geotrace"}
    for (c, p), (s, k) in sorted(spec.PARAM_WIRING.items()):
        if got.get((c, p)) is None and c in EVALUATED_WIRING:
            r6.ok(f"wiring {c}:{p}", f"parameter is written to {s}.{k} (not readable by data flow here; decided by the evaluated type branch)", w2j.loc())
            continue
        r6.check(got.get((c, p)) == (s, k), f"wiring {c}:{p}", f"parameter is written to {s}.{k}", w2j.loc(), why_fail=f"got {got.get((c, p))}")
    # wiring beyond the documented table is an additive feature unless it writes into an attribute a documented
    # parameter owns (two parameters fighting over one attribute)
    owned = {(c, sk): p for (c, p), sk in spec.PARAM_WIRING.items()}
    clash = sorted((c, p, sk) for (c, p), sk in got.items() if (c, p) not in spec.PARAM_WIRING and (c, sk) in owned)
    r6.check(not clash, "wiring:extras", "no undocumented parameter is written into an attribute owned by a documented one", w2j.loc(), why_fail=f"{clash}")
    # allowed tuples
    allowed_seen = {}
    for fn in fns:
        for c in walk_own(fn.node):
            if isinstance(c, ast.Call) and call_name(c) == "validate" and kw(c, "allowed") is not None:
                a = kw(c, "allowed")
                base = None
                if isinstance(a, ast.Name):
                    # select_params_allowed = [...] (+= [...])
                    vals = []
                    for x in walk_own(fn.node):
                        if isinstance(x, ast.Assign) and isinstance(x.targets[0], ast.Name) and x.targets[0].id == a.id:
                            okc, v = const_str(ctx, fn.module, x.value)
                            vals.append(("base", set(v) if okc else None))
                        if isinstance(x, ast.AugAssign) and isinstance(x.target, ast.Name) and x.target.id == a.id:
                            okc, v = const_str(ctx, fn.module, x.value)
                            vals.append(("plus", set(v) if okc else None, guard_texts(x, stop=loop)))
                    b = next((v[1] for v in vals if v[0] == "base"), None)
                    allowed_seen["select"] = b
                    for v in vals:
                        if v[0] == "plus" and b is not None and v[1] is not None:
                            allowed_seen["select_from_file"] = b | v[1]
                            # which commands get them is decided by evaluating the guard over the alias table (C13.R1's rule)
                            from .c13 import from_file_params_obligations
                            from_file_params_obligations(ctx, r6, "C04.R6")
                    continue
                okc, v = const_str(ctx, fn.module, a)
                if okc:
                    allowed_seen[_allowed_context(c, loop, fn)] = set(v)
    for ctxt, want in sorted(spec.ALLOWED_PARAMS.items()):
        if allowed_seen.get(ctxt) is None and ctxt in EVALUATED_ALLOWED:
            r6.ok(f"allowed:{ctxt}", f"accepted parameters == {sorted(want)} (tuple not a literal at the call; decided by the evaluated type branch: other parameters are rejected there)", w2j.loc())
            continue
        r6.check(allowed_seen.get(ctxt) == want, f"allowed:{ctxt}", f"accepted parameters == {sorted(want)}", w2j.loc(), why_fail=f"got {allowed_seen.get(ctxt)}")
    # every validate() precedes the parameters' use in its block: validate call dominates wiring statements of the same context
    # select parameters are consumed by the select control builder
    mc = ctx.func("pyxform.question:MultipleChoiceQuestion.build_xml", "C04.R6")
    lits = {n.value for n in ast.walk(mc.node) if isinstance(n, ast.Constant) and isinstance(n.value, str)}
    for p in ("randomize", "seed", "value", "label"):
        r6.check(p in lits, f"consumed:{p}", "select parameter accepted by the row loop is consumed by the select control builder", mc.loc())
    rq = repo.cls("pyxform.question:RangeQuestion").methods["build_xml"]
    r6.check(any(isinstance(c, ast.Call) and call_name(c) == "setAttribute" for c in walk_own(rq.node)) and "self.parameters" in norm(rq.node) or "params" in norm(rq.node),
             "consumed:range", "range start/end/step are written as control attributes", rq.loc())
    # table-list -> field-list is evaluated in C04.R1 (table_list_obligations); selects inside get list-nolabel
    nl = [x for x in walk_own(loop) if isinstance(x, ast.Assign) and norm(x.value) == "constants.LIST_NOLABEL"]
    r6.check(bool(nl) and any("table_list is not None" in t for t in guard_texts(nl[0], stop=loop)), "table-list:list-nolabel",
             "selects inside a table-list get the list-nolabel appearance", w2j.loc(loop))
    r6.check(ctx.consts.get("pyxform.constants", "LIST_NOLABEL") == "list-nolabel" and ctx.consts.get("pyxform.constants", "TABLE_LIST") == "table-list"
             and ctx.consts.get("pyxform.constants", "FIELD_LIST") == "field-list", "table-list:constants", "appearance keywords are spelled as documented", "pyxform/constants.py")
    from ..rowloop import type_branch_obligations
    type_branch_obligations(ctx, r6, "C04.R6")
    # body:: / bind:: columns carry the attribute's own name to the control / bind, capitals included (shared with C13.R3)
    from . import c13 as _c13
    from .c08 import _take as _take4
    _take4(r6, ctx.other(_c13), "C13.R3", lambda c: c.startswith("process_header[") and ("body::" in c or "bind::" in c or "control" in c))
    rules.append(r6)
    from .c02 import tree_agreement_rule
    rules.append(tree_agreement_rule(ctx, "C04", "C04.R7"))
    # the generated meta block (instanceID / instanceName / audit / entity) - the slice evaluated by C11.R5
    from . import c11 as _c11
    r8 = Rule("C04", "C04.R8", "the generated meta block holds exactly the documented nodes", floor=20,
              necessary="an audit row, instanceName or entity declaration missing from the meta block has no instance node and no bind")
    src = next((r_ for r_ in ctx.other(_c11) if r_.rid == "C11.R5"), None)
    for o in (src.obligations if src is not None else []):
        if o["construct"].startswith("meta["):
            o2 = dict(o)
            o2["rule"] = "C04.R8"
            o2["shared_with"] = "C11.R5"
            r8.obligations.append(o2)
    rules.append(r8)
    # the or_other block of the row loop, evaluated for select rows with and without logic cells (shared with C09.R6)
    from . import c09 as _c09o
    from .c08 import _take as _take_o
    r_oo = Rule("C04", "C04.R9", "every or_other select gets its own companion question", floor=6,
                necessary="a select without its <name>_other node loses the free-text answer")
    _take_o(r_oo, ctx.other(_c09o), "C09.R6", lambda c: c.startswith("or_other["))
    rules.append(r_oo)
    return rules


def _template_shapes(ctx, r3, si):
    import itertools

    from ..interp import NodeVal, Obj
    from ..xmlmodel import node_hook
    from .c07 import _mk
    repo = ctx.repo
    qcls = repo.cls("pyxform.question:InputQuestion")
    gcls = repo.cls("pyxform.section:GroupedSection")
    rcls = repo.cls("pyxform.section:RepeatingSection")
    scls = repo.cls("pyxform.survey:Survey")
    hooks = {"fnname:node": node_hook, "fnname:insert_xpaths": lambda i, a, k, n: (a[1] if len(a) > 1 and isinstance(a[0], Obj) and a[0].name == "survey" else a[0])}

    def build(chain):
        """data[ a0, K1[ a1, K2[ a2, ..., q ], z1 ], z0 ]"""
        def q(name):
            return _mk(ctx, qcls, name, type="text", bind={"type": "string"})
        inner = [q("leaf")]
        repeats = []
        for depth in range(len(chain), 0, -1):
            kind = chain[depth - 1]
            name = f"{kind}{depth}"
            sec = _mk(ctx, rcls if kind == "r" else gcls, name, type="repeat" if kind == "r" else "group", children=[q(f"a{depth}"), *inner, q(f"z{depth}")])
            if kind == "r":
                repeats.append(name)
            inner = [sec]
        data = _mk(ctx, scls, "data", type="survey", children=[q("a0"), *inner, q("z0")])
        def link(p):
            for ch in p.attrs.get("children") or []:
                ch.attrs["parent"] = p
                link(ch)
        link(data)
        return data, repeats

    def is_tmpl(n):
        return "jr:template" in n.attrs

    def names(n):
        return [c.tag for c in n.children if isinstance(c, NodeVal)]

    for depth in (1, 2, 3):
        for chain in itertools.product("gr", repeat=depth):
            data, repeats = build(chain)
            it = ctx.interp("C04.R3", hooks=hooks)
            it.reset([])
            desc = "data>" + ">".join(chain) + ">q"
            try:
                root = it.call_function(si, [data], {"survey": Obj(None, {}, name="survey")}, None, si.node)
            except Raised as e:
                r3.fail(f"instance[{desc}]", f"instance builder evaluates ({e.exc_name}{e.exc_args})", si.loc())
                continue
            problems = []
            seen_tmpl = {r: 0 for r in repeats}
            def walk(n, path, in_tmpl, rep_anc):
                kids = [c for c in n.children if isinstance(c, NodeVal)]
                plain = [c.tag for c in kids if not is_tmpl(c)]
                # order and completeness of the plain children (sheet order, no duplicates)
                want = None
                if n.tag == "data":
                    want = ["a0", f"{chain[0]}1", "z0"]
                elif n.tag[0] in "gr" and n.tag[1:].isdigit():
                    d = int(n.tag[1:])
                    mid = f"{chain[d]}{d + 1}" if d < len(chain) else "leaf"
                    want = [f"a{d}", mid, f"z{d}"]
                if want is not None:
                    got = plain if not in_tmpl else [c.tag for c in kids if not is_tmpl(c) or True]
                    got_names = [c.tag for c in kids]
                    dedup = [t for i, t in enumerate(got_names) if i == 0 or got_names[i - 1] != t]
                    if dedup != want:
                        problems.append(f"{path}: children {got_names} != sheet order {want}")
                for i, c in enumerate(kids):
                    if is_tmpl(c):
                        if c.tag in seen_tmpl:
                            seen_tmpl[c.tag] += 1
                    elif c.tag in seen_tmpl and not in_tmpl and not rep_anc:
                        # an outermost repeat: its template is the sibling immediately before it
                        if i == 0 or kids[i - 1].tag != c.tag or not is_tmpl(kids[i - 1]):
                            problems.append(f"{path}/{c.tag}: no jr:template sibling immediately before the outermost repeat")
                    walk(c, f"{path}/{c.tag}", in_tmpl or is_tmpl(c), rep_anc or (c.tag in seen_tmpl and not is_tmpl(c)))
            if isinstance(root, NodeVal):
                walk(root, "data", False, False)
                for r, n in seen_tmpl.items():
                    if n < 1:
                        problems.append(f"repeat {r} has no jr:template copy anywhere in the primary instance")
            else:
                problems.append(f"builder returned {root!r}")
            r3.check(not problems, f"instance[{desc}]", "rows nest in sheet order and every repeat has its jr:template copy (outermost: immediately before it)",
                     si.loc(), why_fail="; ".join(problems[:3]))


def _type_context(node, loop) -> str:
    """Which `question_type == X` block of the row loop a statement belongs to."""
    from ..astutil import guards_of
    for t, pol in guards_of(node, stop=loop):
        txt = norm(t)
        if not pol:
            continue
        if txt == "question_type == 'audit'":
            return "audit"
        if txt == "question_type == 'text'":
            return "text"
        if txt == "question_type == 'photo'":
            return "photo"
        if txt == "question_type == 'audio'":
            return "audio"
        if txt == "question_type == 'background-audio'":
            return "background-audio"
        if txt.startswith("question_type in {") and "geopoint" in txt:
            return "geo"
    return "?"


def _allowed_context(call, loop, fn) -> str:
    if fn.name == "process_range_question_type":
        return "range"
    from ..astutil import guards_of
    gs = [(norm(t), pol) for t, pol in guards_of(call, stop=loop)]
    for txt, pol in reversed(gs):
        if txt == "question_type == 'geopoint'":
            return "geopoint" if pol else "geoshape/geotrace"
    c = _type_context(call, loop)
    return c
