"""C02 — model, instance and body agree: every nodeset/ref names one existing node."""

from __future__ import annotations

import ast
import itertools

from .. import cfg as cfgmod
from ..astutil import call_name, const_str, enclosing_loops, guard_texts, kw, star_kwargs
from ..callgraph import CallGraph
from ..interp import NodeVal, Obj, Raised, Sym, explore
from ..loader import AnalysisError, ancestors, norm, parent, walk_own
from ..prov import Prov, xml_sites
from ..report import Rule

EXPLANATION = (
    "Every nodeset=/ref= of bind, control, repeat, group, setvalue and action elements must have provenance "
    "get_xpath() of the element whose method creates it (plus a literal suffix for entity attribute binds), i.e. the "
    "same ancestor-chain path that names the instance node; class table: every class the builder can place under a "
    "section builds an instance node named after itself or is skipped by the instance builder and emits no bind; "
    "who-may-write analysis of the xpath cache slot, parent links, names and children lists; CFG must-call of "
    "validate() before generation and of the uniqueness checks inside validate(), whose behaviour is evaluated "
    "abstractly on equal / case-different / distinct sibling names; generated helper rows are appended to the same "
    "children arrays that become the tree."
)
NOT_DECIDED = ("that no run-time combination of generated helper names collides with an author's name (caught at run time by "
               "the sibling check which R4 shows is always executed); resolution of references inside expressions (C03)")
ASSUMPTIONS = [
    "attribute stores on SurveyElement instances go through SurveyElement.__setattr__ unless object.__setattr__/__dict__ is used (Python data model)",
    "xml.dom.Node.__bool__ is always true (dead label-less branches of RepeatingSection.xml_control)",
]

PATH_ATTRS = ("nodeset", "ref")
ITEXT_TAGS = {"label", "hint", "value", "itemset", "output"}


def run(ctx):
    repo = ctx.repo
    rules = []
    prov = Prov(ctx)
    it0 = ctx.consts.interp
    cg = CallGraph(repo, it0)
    reach = cg.reachable(["pyxform.xls2xform:convert"])

    # ------------------------------------------------------------------ R1
    r1 = Rule("C02", "C02.R1", "every nodeset/ref is the creating element's own get_xpath()", floor=12,
              necessary="a hand-built or foreign path need not name a node of the primary instance")
    sites = [s for s in xml_sites(ctx) if s.fi.fq in reach and s.kind == "node" and s.fi.fq != "pyxform.utils:node"]
    from .c01 import _dead_site
    sites = [s for s in sites if not _dead_site(prov, s)]
    for s in sites:
        c = s.call
        ok, tag = const_str(ctx, s.fi.module, c.args[0]) if c.args and not isinstance(c.args[0], ast.Starred) else (False, None)
        if ok and tag in ITEXT_TAGS:
            continue
        pairs = [(k.arg, k.value) for k in c.keywords if k.arg in PATH_ATTRS]
        # attributes arriving through a splatted local dict: look for stores d["ref"] = ...
        for sp in star_kwargs(c):
            if isinstance(sp, ast.Name):
                for x in walk_own(s.fi.node):
                    if isinstance(x, ast.Assign) and isinstance(x.targets[0], ast.Subscript) and isinstance(x.targets[0].value, ast.Name) \
                            and x.targets[0].value.id == sp.id:
                        okk, key = const_str(ctx, s.fi.module, x.targets[0].slice)
                        if okk and key in PATH_ATTRS:
                            pairs.append((key, x.value))
                    if isinstance(x, ast.Assign) and isinstance(x.value, ast.Dict) and any(isinstance(t, ast.Name) and t.id == sp.id for t in x.targets):
                        for k, v in zip(x.value.keys, x.value.values):
                            okk, key = const_str(ctx, s.fi.module, k) if k is not None else (False, None)
                            if okk and key in PATH_ATTRS:
                                pairs.append((key, v))
        for name, val in pairs:
            tags = prov.classify(val, s.fi)
            key = f"{s.fi.fq}:{tag if ok else norm(c.args[0])[:20]}@{name}"
            xp_calls = [n for n in ast.walk(val) if isinstance(n, ast.Call) and call_name(n) == "get_xpath"]
            if isinstance(val, ast.Name):
                for kind, v2, idx in prov._assignments(s.fi, val.id):
                    if v2 is not None and not isinstance(v2, int):
                        xp_calls += [n for n in ast.walk(v2) if isinstance(n, ast.Call) and call_name(n) == "get_xpath"]
            if tags <= {"XPATH", "LIT"} and "XPATH" in tags:
                own = all(isinstance(n.func, ast.Attribute) and isinstance(n.func.value, ast.Name) and n.func.value.id == "self" for n in xp_calls)
                r1.check(own and xp_calls, key, "path is self.get_xpath() (+ literal suffix) of the element that builds the node", s.loc,
                         why_fail="get_xpath() of another receiver")
            elif tags == {"SUBST"} and s.fi.name == "nest_set_nodes":
                # trigger target: ${name} of the target question, resolved by the substituter to that element's path
                src = _subst_arg(s.fi, val)
                okt = src is not None and isinstance(src, ast.JoinedStr) and norm(src).replace(" ", "").startswith("f'${{{item[0]}}}'".replace(" ", ""))
                r1.check(okt, key, "trigger target ref is the substituter applied to a single ${target name} reference", s.loc,
                         why_fail=f"source {norm(src) if src is not None else None}")
            else:
                r1.fail(key, f"path attribute is derived from get_xpath() (provenance {sorted(tags)})", s.loc)
    # entity suffixes are from the closed set
    ed = repo.cls("pyxform.entities.entity_declaration:EntityDeclaration")
    sufs = set()
    for m in ed.methods.values():
        for c in walk_own(m.node):
            if isinstance(c, ast.BinOp) and isinstance(c.op, ast.Add) and isinstance(c.left, ast.Call) and call_name(c.left) == "get_xpath":
                okc, v = const_str(ctx, m.module, c.right)
                if okc:
                    sufs.add(v)
    for c in walk_own(ed.methods["xml_bindings"].node):
        if isinstance(c, ast.Call) and call_name(c) == "_get_bind_node" and len(c.args) >= 3:
            okc, v = const_str(ctx, ed.module, c.args[2])
            if okc:
                sufs.add(v)
            # (a suffix computed from a table is judged by evaluation: C02.R10 / C19.R1 require every bind target to be
            # an attribute or child the entity node has)
    allowed = {"/@id", "/@create", "/@update", "/@baseVersion", "/@trunkVersion", "/@branchId", "/label"}
    r1.check(bool(sufs) and sufs <= allowed, "EntityDeclaration:suffixes", f"entity bind suffixes are within {sorted(allowed)}", ed.module.relpath,
             why_fail=f"got {sorted(sufs)}")
    rules.append(r1)

    # ------------------------------------------------------------------ R2
    r2 = Rule("C02", "C02.R2", "class table: instance node / bind / control agree per element class", floor=10,
              necessary="a class that emits a bind or control but no instance node named after itself leaves a dangling nodeset/ref")
    qc = ctx.consts.get("pyxform.builder", "QUESTION_CLASSES", "C02.R2")
    sc = ctx.consts.get("pyxform.builder", "SECTION_CLASSES", "C02.R2")
    classes = {v.ci.fq: v.ci for v in [*qc.values(), *sc.values()]}
    bfn = ctx.func("pyxform.builder:SurveyElementBuilder.create_survey_element_from_dict", "C02.R2")
    for x in walk_own(bfn.node):
        if isinstance(x, ast.Return) and isinstance(x.value, ast.Call) and isinstance(x.value.func, ast.Name):
            r = repo.resolve_name(bfn.module, x.value.func.id)
            if r and r[0] == "class":
                classes[r[1].fq] = r[1]
    sec_inst = ctx.func("pyxform.section:Section.xml_instance", "C02.R2")
    skipped = set()
    for x in walk_own(sec_inst.node):
        if isinstance(x, ast.If) and isinstance(x.test, ast.Call) and call_name(x.test) == "isinstance" and x.body and isinstance(x.body[0], ast.Continue):
            skipped.add(norm(x.test.args[1]))
    for fq, ci in sorted(classes.items()):
        mro = it0.mro(ci)
        slots = _slots(ctx, ci)
        has_inst = next((c.methods["xml_instance"] for c in mro if "xml_instance" in c.methods), None)
        bind_fn = next((c.methods["xml_bindings"] for c in mro if "xml_bindings" in c.methods), None)
        emits_bind = "bind" in slots or (bind_fn is not None and bind_fn.cls.name != "SurveyElement")
        if ci.name in skipped:
            r2.check(not emits_bind, f"class {ci.name}", "skipped by the instance builder and has no bind slot / bind emitter", ci.module.relpath)
            continue
        r2.check(has_inst is not None, f"class {ci.name}:instance", "builds an instance node (xml_instance own or inherited)", ci.module.relpath)
        if has_inst is None:
            continue
        # tag of the node(s) returned
        tags_ok, why = True, ""
        n_nodes = 0
        for c in walk_own(has_inst.node):
            if isinstance(c, ast.Call) and call_name(c) == "node" and c.args and isinstance(parent(c), ast.Assign | ast.Return):
                n_nodes += 1
                t = prov.classify(c.args[0], has_inst)
                if t == {"VNAME"}:
                    rec = c.args[0]
                    if not (isinstance(rec, ast.Attribute) and isinstance(rec.value, ast.Name) and rec.value.id == "self"):
                        tags_ok, why = False, f"node named after {norm(rec)}"
                elif t == {"LIT"} and ci.name == "EntityDeclaration":
                    okc, v = const_str(ctx, has_inst.module, c.args[0])
                    if v != "entity":
                        tags_ok, why = False, f"literal tag {v!r}"
                else:
                    tags_ok, why = False, f"tag provenance {sorted(t)}"
        if n_nodes == 0 and any(isinstance(c, ast.Call) and call_name(c) == "xml_instance" for c in walk_own(has_inst.node)):
            r2.ok(f"class {ci.name}:instance.tag", "delegates node construction to the base class's xml_instance", has_inst.loc())
            continue
        r2.check(tags_ok and n_nodes > 0, f"class {ci.name}:instance.tag", "the instance node is named after the element itself (self.name)", has_inst.loc(), why_fail=why)
    rules.append(r2)

    # ------------------------------------------------------------------ R3
    r3 = Rule("C02", "C02.R3", "xpath cache, parent links, names and children lists have a closed set of writers", floor=8,
              necessary="a stale cached path (or a child without parent link) yields nodeset/ref pointing at the old position")
    extra = ctx.consts.get("pyxform.survey_element", "SURVEY_ELEMENT_EXTRA_FIELDS", "C02.R3")
    cache_slot = extra[0]
    se = repo.cls("pyxform.survey_element:SurveyElement")
    writers = {}
    for fi in repo.all_functions():
        for x in walk_own(fi.node):
            tgts = []
            if isinstance(x, ast.Assign):
                tgts = x.targets
            elif isinstance(x, ast.AugAssign | ast.AnnAssign):
                tgts = [x.target]
            for t in tgts:
                if isinstance(t, ast.Attribute) and t.attr == cache_slot:
                    writers.setdefault(fi.fq, []).append(x)
    allowed_w = {f"{se.fq}.__init__", f"{se.fq}.__setattr__", f"{se.fq}.get_xpath"}
    for w, stmts in sorted(writers.items()):
        r3.check(w in allowed_w, f"cache writer {w}", "only the initialiser, get_xpath and the parent-reset write the xpath cache", repo.func(w).loc(stmts[0]))
    sa = se.methods.get("__setattr__")
    if sa is None:
        r3.fail("SurveyElement.__setattr__", "re-parenting invalidates the cached xpath (no __setattr__ override found)", se.module.relpath)
    else:
        reset = [x for x in walk_own(sa.node) if isinstance(x, ast.Assign) and isinstance(x.targets[0], ast.Attribute) and x.targets[0].attr == cache_slot]
        okr = len(reset) == 1 and isinstance(reset[0].value, ast.Constant) and reset[0].value.value is None \
            and guard_texts(reset[0], stop=sa.node) == [f"{sa.node.args.args[1].arg} == 'parent'"]
        r3.check(okr, "SurveyElement.__setattr__:reset", "cache is reset to None exactly when the key is 'parent'", sa.loc(), why_fail=f"guards={[guard_texts(x, stop=sa.node) for x in reset]}")
        g = cfgmod.build(sa.node.body)
        sup = g.nodes_for(lambda n: any(call_name(c) == "__setattr__" for c in cfgmod.calls_in(n.stmt)))
        r3.check(len(sup) == 1 and g.must_pass(g.entry, g.exit, set(sup), skip_labels=frozenset({"exc"})), "SurveyElement.__setattr__:store",
                 "every normal path performs the real attribute store", sa.loc())
        gx = se.methods["get_xpath"]
        rd = [x for x in walk_own(gx.node) if isinstance(x, ast.Attribute) and x.attr == cache_slot and isinstance(x.ctx, ast.Load)]
        r3.check(bool(rd), "SurveyElement.get_xpath:cache", "get_xpath reads the cache slot it writes", gx.loc())
    # bypasses
    for fi in repo.all_functions():
        if fi.fq not in reach and not (fi.cls and any(k.name == "SurveyElement" for k in it0.mro(fi.cls))):
            continue
        for x in walk_own(fi.node):
            if isinstance(x, ast.Attribute) and x.attr == "__dict__":
                r3.fail(f"{fi.fq}:__dict__", "no element state is written through __dict__", fi.loc(x))
            if isinstance(x, ast.Call) and call_name(x) == "__setattr__" and isinstance(x.func, ast.Attribute):
                base = norm(x.func.value)
                if base == "object" or (base == "super()" and fi.name != "__setattr__"):
                    r3.fail(f"{fi.fq}:{norm(x)[:50]}", "no attribute store bypasses SurveyElement.__setattr__", fi.loc(x))
    r3.ok("package:setattr-bypass census", "no object.__setattr__/__dict__ bypass exists in the package", "")
    # element renames outside constructors, children list writers
    elem_names = {c.name for c in repo.all_classes() if any(k.name == "SurveyElement" for k in it0.mro(c))}
    for fi in repo.all_functions():
        if fi.fq not in reach:
            continue
        for x in walk_own(fi.node):
            tgts = x.targets if isinstance(x, ast.Assign) else ([x.target] if isinstance(x, ast.AugAssign) else [])
            for t in tgts:
                if isinstance(t, ast.Attribute) and t.attr == "name":
                    in_ctor = fi.name == "__init__" and isinstance(t.value, ast.Name) and t.value.id == "self"
                    if not in_ctor:
                        tg = prov.classify(t.value, fi)
                        r3.check("ELEM" not in tg and not (isinstance(t.value, ast.Name) and t.value.id == "self" and fi.cls and fi.cls.name in elem_names),
                                 f"{fi.fq}:{norm(x)[:50]}", "element names are not reassigned after construction", fi.loc(x))
                if isinstance(t, ast.Attribute) and t.attr == "children":
                    okw = fi.name in ("__init__", "add_child")
                    r3.check(okw, f"{fi.fq}:{norm(x)[:50]}", "children lists are assigned only by constructors / add_child", fi.loc(x))
            if isinstance(x, ast.Call) and call_name(x) in ("append", "extend", "insert") and isinstance(x.func, ast.Attribute) \
                    and isinstance(x.func.value, ast.Attribute) and x.func.value.attr == "children":
                okw = fi.name == "add_child"
                r3.check(okw, f"{fi.fq}:{norm(x)[:50]}", "children lists grow only through add_child (which sets the parent link)", fi.loc(x))
    ac = se.methods.get("add_child")
    lc = se.methods.get("_link_children")
    for fn in (ac, lc):
        if fn is None:
            r3.fail("SurveyElement.add_child/_link_children", "parent-linking helper exists", se.module.relpath)
            continue
        sets_parent = [x for x in walk_own(fn.node) if isinstance(x, ast.Assign) and isinstance(x.targets[0], ast.Attribute)
                       and x.targets[0].attr == "parent" and norm(x.value) == "self"]
        r3.check(len(sets_parent) == 1, f"SurveyElement.{fn.name}", "sets child.parent = self for every child it links", fn.loc())
    init = se.methods["__init__"]
    r3.check(any(isinstance(c, ast.Call) and call_name(c) == "_link_children" for c in walk_own(init.node)), "SurveyElement.__init__:_link_children",
             "constructor links children handed in directly", init.loc())
    # the cache is filled by get_xpath and dropped only on re-parenting: it is valid because paths are only asked for
    # once validation has passed (the names are then final for this render).  Validation itself never asks for a path:
    # a path computed for an element that is about to be refused (and then renamed by the caller) stays cached.
    vals = [f"{c.module.name}:{c.name}.validate" for c in repo.all_classes() if "validate" in c.methods and any(k.name == "SurveyElement" for k in it0.mro(c))]
    # (closure over `self.m()` / `super().m()` / `x.validate()` calls inside the element classes and over plain function calls)
    elem_classes = [c for c in repo.all_classes() if any(k.name == "SurveyElement" for k in it0.mro(c))]
    by_name = {}
    for c in elem_classes:
        for mn, mf in c.methods.items():
            by_name.setdefault(mn, []).append(mf)
    todo = [mf for mf in by_name.get("validate", [])]
    seen_v, fillers = set(), []
    while todo:
        mf = todo.pop()
        if mf.fq in seen_v:
            continue
        seen_v.add(mf.fq)
        for c in ast.walk(mf.node):
            if not isinstance(c, ast.Call):
                continue
            cn = call_name(c)
            if cn == "get_xpath":
                fillers.append(f"{mf.qualname}:{norm(c)[:30]}")
            elif isinstance(c.func, ast.Attribute) and (norm(c.func.value) in ("self", "super()") or cn == "validate"):
                todo += by_name.get(cn, [])
            elif isinstance(c.func, ast.Name):
                r_ = repo.resolve_name(mf.module, cn)
                if r_ and r_[0] == "func":
                    todo.append(r_[1])
    r3.check(bool(vals) and len(seen_v) >= 3 and not fillers, "validate():no path is computed", f"none of the {len(seen_v)} functions validation runs through asks for an element's path", se.methods["validate"].loc(),
             why_fail=f"path computed during validation: {fillers}")
    # the same holds for what runs implicitly at any moment - formatting an element for a log line or a debugger,
    # hashing or comparing it: while the tree is being assembled bottom-up such a call would cache a path that lacks the
    # ancestors attached later (only an element's OWN re-parenting drops its cache)
    IMPLICIT = ("__repr__", "__str__", "__unicode__", "__format__", "__hash__", "__eq__", "__lt__", "__bool__", "__len__")
    todo = [mf for mn in IMPLICIT for mf in by_name.get(mn, [])]
    seen_i, fillers_i = set(), []
    while todo:
        mf = todo.pop()
        if mf.fq in seen_i:
            continue
        seen_i.add(mf.fq)
        for c in ast.walk(mf.node):
            if not isinstance(c, ast.Call):
                continue
            cn = call_name(c)
            if cn == "get_xpath":
                fillers_i.append(f"{mf.qualname}:{norm(c)[:30]}")
            elif isinstance(c.func, ast.Attribute) and norm(c.func.value) in ("self", "super()"):
                todo += by_name.get(cn, [])
            elif isinstance(c.func, ast.Name):
                r_ = repo.resolve_name(mf.module, cn)
                if r_ and r_[0] == "func":
                    todo.append(r_[1])
    r3.check(bool(seen_i) and not fillers_i, "implicit methods:no path is computed", f"none of the {len(seen_i)} functions behind repr / str / hash / comparison of an element asks for its path",
             se.methods["validate"].loc(), why_fail=f"path computed (and cached) by: {fillers_i}")
    rules.append(r3)

    # ------------------------------------------------------------------ R4
    r4 = Rule("C02", "C02.R4", "validation (names, sibling / section uniqueness) dominates generation", floor=12,
              necessary="without the uniqueness checks two siblings share a path and binds/refs become ambiguous")
    scls = repo.cls("pyxform.survey:Survey")
    sxml = scls.methods["xml"]
    g = cfgmod.build(sxml.node.body)
    dom = g.dominators()
    vnodes = g.nodes_for(lambda n: isinstance(n.stmt, ast.Expr) and any(norm(c.func) == "self.validate" for c in cfgmod.calls_in(n.stmt)))
    r4.check(len(vnodes) >= 1, "Survey.xml:validate", "self.validate() is called", sxml.loc())
    if vnodes:
        gen = [nid for nid, n in g.nodes.items() if n.stmt is not None and nid not in vnodes and cfgmod.calls_in(n.stmt)]
        bad = [nid for nid in gen if not any(v in dom.get(nid, ()) for v in vnodes)]
        r4.check(not bad, "Survey.xml:validate-dominates", "every other call in Survey.xml is dominated by self.validate()", sxml.loc(),
                 why_fail=f"undominated: {[norm(g.nodes[b].stmt)[:40] for b in bad]}")
    # the only producers of the returned text reach Survey.xml
    for nm in ("_to_ugly_xml", "_to_pretty_xml"):
        fn = scls.methods[nm]
        r4.check(any(isinstance(c, ast.Call) and norm(c.func) == "self.xml" for c in walk_own(fn.node)), f"Survey.{nm}", "serialiser obtains the tree from self.xml() (which validates)", fn.loc())
    # what validate() rejects, decided on whole trees with the real methods (however the checks are distributed over
    # Survey / Section / SurveyElement): invalid names at every depth and of every kind, sibling duplicates, section-name
    # clashes; a valid tree is accepted
    tree_validation_obligations(ctx, r4, "C02.R4")
    # Option/Tag opt out of name validation; they are never used as instance node names (R2) -- recorded
    # name validator raises on an invalid XML name
    sev = se.methods["validate"]
    for valid, found in ((True, True), (False, True), (False, False)):
        # `found`: whether the secondary "which character is wrong" search finds one (a name such as `a:` is invalid
        # although each of its characters is allowed) - the name must be refused either way
        it = ctx.interp("C02.R4", hooks={"fnname:is_xml_tag": lambda i, a, k, n, v=valid: v,
                                        "ext:re.search": lambda i, a, k, n, f=found: Sym("M", truthy=True, attrs={"group": lambda i2, a2, k2, n2: "?"}) if f else None})
        it.reset([])
        o = Obj(se, {"name": Sym("NAME", truthy=True, pytype=str)}, name="el")
        desc = f"SurveyElement.validate[name {'valid' if valid else 'invalid'}{'' if found or valid else ', no single offending character'}]"
        try:
            it.call_function(sev, [o], {}, None, sev.node)
            r4.check(valid, desc, "accepts exactly valid XML names", sev.loc())
        except Raised as r:
            r4.check(not valid and "PyXFormError" in r.mro, desc, "invalid XML name raises PyXFormError", sev.loc(), why_fail=f"raised {r.exc_name}")
    # sibling uniqueness: abstract domain {equal, case-different, distinct}
    sib = repo.cls("pyxform.section:Section").methods.get("_validate_uniqueness_of_element_names")
    if sib is None:
        r4.note("Section._validate_uniqueness_of_element_names is gone; sibling uniqueness is decided by the whole-tree obligations only")
    for desc, names, expect in ((("equal", ["a", "a"], True), ("case-different", ["Age", "age"], True), ("distinct", ["a", "b"], False),
                                 ("equal non-adjacent", ["a", "b", "a"], True)) if sib is not None else ()):
        it = ctx.interp("C02.R4")
        it.reset([])
        o = Obj(None, {"children": [Obj(None, {"name": n}, name=n) for n in names], "name": "sec"}, name="section")
        try:
            it.call_function(sib, [o], {}, None, sib.node)
            raised = False
        except Raised as r:
            raised = "PyXFormError" in r.mro
        r4.check(raised == expect, f"sibling-uniqueness[{desc}]", "siblings with the same name (case-insensitively) are rejected, distinct ones accepted", sib.loc())
    # every kind of sibling takes part: a group or repeat named like a sibling question is as ambiguous as two questions
    kinds = {"question": repo.cls("pyxform.question:InputQuestion"), "group": repo.cls("pyxform.section:GroupedSection"),
             "repeat": repo.cls("pyxform.section:RepeatingSection")}
    for (k1, c1), (k2, c2) in (itertools.product(kinds.items(), kinds.items()) if sib is not None else ()):
        for n1, n2, expect in (("a", "a", True), ("a", "b", False)):
            it = ctx.interp("C02.R4")
            it.reset([])
            kids = [Obj(c1, {"name": n1, "children": [], "type": k1}, name=f"{k1}:{n1}"), Obj(c2, {"name": n2, "children": [], "type": k2}, name=f"{k2}:{n2}")]
            o = Obj(repo.cls("pyxform.section:GroupedSection"), {"children": kids, "name": "sec"}, name="section")
            try:
                it.call_function(sib, [o], {}, None, sib.node)
                raised = False
            except Raised as r:
                raised = "PyXFormError" in r.mro
            r4.check(raised == expect, f"sibling-uniqueness[{k1} {n1!r} + {k2} {n2!r}]", "a name shared by two siblings of any kind is rejected; distinct names are accepted", sib.loc())
    secn = scls.methods.get("_validate_uniqueness_of_section_names")
    for desc, names, expect in ((("two sections same name", ["data", "g", "g"], True), ("section named like the form", ["data", "data"], True),
                                 ("distinct", ["data", "g", "h"], False)) if secn is not None else ()):
        it = ctx.interp("C02.R4", hooks={"fnname:iter_descendants": lambda i, a, k, n, names=names: [Obj(None, {"name": x}, name=x) for x in names]})
        it.reset([])
        o = Obj(scls, {"name": "data"}, name="survey")
        try:
            it.call_function(secn, [o], {}, None, secn.node)
            raised = False
        except Raised as r:
            raised = "PyXFormError" in r.mro
        r4.check(raised == expect, f"section-uniqueness[{desc}]", "two sections with one name are rejected", secn.loc())
    rules.append(r4)

    # ------------------------------------------------------------------ R5
    r5 = Rule("C02", "C02.R5", "one bind per node", floor=2,
              necessary="a bind emitted inside a loop binds the same node several times")
    xb = se.methods["xml_bindings"]
    binds = [c for c in walk_own(xb.node) if isinstance(c, ast.Call) and call_name(c) == "node" and c.args
             and const_str(ctx, xb.module, c.args[0]) == (True, "bind")]
    r5.check(len(binds) == 1 and not enclosing_loops(binds[0]), "SurveyElement.xml_bindings", "exactly one bind is constructed, outside any loop", xb.loc(),
             why_fail=f"{len(binds)} bind constructions")
    # an author column `bind::nodeset` must never redirect the bind to another node: evaluated abstractly, the emitter
    # either refuses (any exception: C17 records the TypeError of the pinned tree) or keeps the element's own path
    from ..xmlmodel import SurveyStub, base_hooks
    for evil in ("/data/other", "${other}"):
        stub = SurveyStub()
        it = ctx.interp("C02.R5", hooks=base_hooks(stub))
        it.reset([])
        o = Obj(se, {"bind": {"type": "string", "nodeset": evil}, "name": "q1", "flat": None, "trigger": None}, name="q1",
                slots=("name", "label", "bind", "trigger", "flat", "type"))
        try:
            res = [n for n in (it.call_function(xb, [o], {"survey": stub.obj()}, None, xb.node) or []) if n is not None]
            ns = res[0].attrs.get("nodeset") if res and isinstance(res[0], NodeVal) else None
            own = isinstance(ns, Sym) and "XPATH" in ns.tags and ns.attrs.get("of") is o
            r5.check(own and len(res) == 1, f"xml_bindings[bind::nodeset={evil!r}]", "a nodeset supplied through the bind columns cannot replace the element's own path",
                     xb.loc(), why_fail=f"nodeset={ns!r}")
        except Raised as e:
            r5.ok(f"xml_bindings[bind::nodeset={evil!r}]", f"refused ({e.exc_name}); no bind is emitted for a foreign nodeset", xb.loc())
    xdb = scls.methods["xml_descendent_bindings"]
    calls = [c for c in walk_own(xdb.node) if isinstance(c, ast.Call) and call_name(c) == "xml_bindings"]
    r5.check(len(calls) == 1 and len(enclosing_loops(calls[0])) == 1 and "iter_descendants" in norm(enclosing_loops(calls[0])[0].iter),
             "Survey.xml_descendent_bindings", "bindings are requested once per element of one descendant traversal", xdb.loc())
    rules.append(r5)

    # ------------------------------------------------------------------ R6
    r6 = Rule("C02", "C02.R6", "generated helper rows go into the same children arrays", floor=6,
              necessary="a helper node referenced by ${name}/jr:count but not appended to the tree has no instance node")
    w2j = ctx.func("pyxform.xls2json:workbook_to_json", "C02.R6")
    child_arrays = {"parent_children_array", "child_list", "meta_children", "survey_children_array"}
    for d in walk_own(w2j.node):
        if not isinstance(d, ast.Dict):
            continue
        keys = {}
        for k, v in zip(d.keys, d.values):
            okc, kv = const_str(ctx, w2j.module, k) if k is not None else (False, None)
            if okc:
                keys[kv] = v
        if "name" not in keys or "type" not in keys:
            continue
        okc, tv = const_str(ctx, w2j.module, keys["type"])
        if (okc and tv == "survey") or isinstance(keys["type"], ast.Call):
            continue  # the JSON root / a message dict copying row cells, not a generated row
        p = parent(d)
        consumed = None
        if isinstance(p, ast.Call) and call_name(p) == "append" and isinstance(p.func.value, ast.Name):
            consumed = p.func.value.id
        elif isinstance(p, ast.Assign) and isinstance(p.targets[0], ast.Name):
            # the dict may travel through plain copies (`x = d`, the result variable of an expanded helper) before it is appended
            vars_ = {p.targets[0].id}
            grew_ = True
            while grew_:
                grew_ = False
                for a_ in walk_own(w2j.node):
                    if isinstance(a_, ast.Assign) and isinstance(a_.value, ast.Name) and a_.value.id in vars_:
                        for t_ in a_.targets:
                            if isinstance(t_, ast.Name) and t_.id not in vars_:
                                vars_.add(t_.id)
                                grew_ = True
            for c in walk_own(w2j.node):
                if isinstance(c, ast.Call) and call_name(c) == "append" and c.args and isinstance(c.args[0], ast.Name) and c.args[0].id in vars_ \
                        and isinstance(c.func.value, ast.Name):
                    consumed = c.func.value.id
        if consumed is not None and consumed not in child_arrays:
            # an alias of a children array: a local bound to one of them, or to a frame's `parent_children` / an element's `children`
            for a_ in walk_own(w2j.node):
                if isinstance(a_, ast.Assign) and any(isinstance(t_, ast.Name) and t_.id == consumed for t_ in a_.targets):
                    if ({n_.id for n_ in ast.walk(a_.value) if isinstance(n_, ast.Name)} & child_arrays) or any(isinstance(c_, ast.Constant) and c_.value in ("parent_children", "children") for c_ in ast.walk(a_.value)):
                        child_arrays.add(consumed)
        r6.check(consumed in child_arrays, f"workbook_to_json:helper {norm(keys['name'])[:50]}", "generated row is appended to a children array of the tree",
                 w2j.loc(d), why_fail=f"consumed by {consumed}")
    # jr:count redirection uses the same variable as the helper's name
    cnt = [x for x in walk_own(w2j.node) if isinstance(x, ast.Assign) and isinstance(x.targets[0], ast.Subscript)
           and const_str(ctx, w2j.module, x.targets[0].slice) == (True, "jr:count")]
    for x in cnt:
        names = {n.id for n in ast.walk(x.value) if isinstance(n, ast.Name)}
        helper_named = any(isinstance(d, ast.Dict) and any(isinstance(v, ast.Name) and v.id in names for v in d.values) for d in walk_own(w2j.node))
        r6.check(isinstance(x.value, ast.JoinedStr) and helper_named and norm(x.value).replace(" ", "").startswith("f'${{"),
                 "workbook_to_json:jr:count redirect", "the repeat count refers to ${<the generated node's name variable>}", w2j.loc(x))
    # meta block is appended to the survey's own children
    # (evaluated in C11.R5: the meta block, through the final return, appends one bodyless `meta` group to the root frame's
    # children - shared here)
    from . import c11 as _c11
    from .c08 import _take as _take2
    n6 = len(r6.obligations)
    _take2(r6, ctx.other(_c11), "C11.R5", lambda c: c.startswith("meta["))
    r6.check(len(r6.obligations) - n6 >= 8, "workbook_to_json:meta parent", "the meta-block obligations of C11.R5 were evaluated (the block goes to the root frame's children)", w2j.loc())
    st0 = [x for x in walk_own(w2j.node) if isinstance(x, ast.AnnAssign | ast.Assign) and norm(getattr(x, "target", None) or x.targets[0]) == "stack"]
    r6.check(bool(st0) and "json_dict.get(constants.CHILDREN)" in norm(st0[0].value), "workbook_to_json:root frame", "the root frame's children list is the JSON root's children list", w2j.loc())
    rules.append(r6)
    rules.append(tree_agreement_rule(ctx, "C02", "C02.R7"))
    rules.append(_fresh_elements_rule(ctx))
    rules.append(_name_map_rule(ctx, reach))
    # the entity declaration's binds name attributes of meta/entity: those attributes exist on the node the section
    # builders get from it (shared with C19.R1, which evaluates node and binds for every accepted declaration)
    from . import c19
    from .c08 import _take
    r10 = Rule("C02", "C02.R10", "entity binds name attributes the entity node has", floor=20,
               necessary="a bind on /meta/entity/@x where the node has no attribute x is a dangling bind")
    _take(r10, ctx.other(c19), "C19.R1", lambda c: c.startswith("bind-target") or "survey.entity_features=" in c)
    rules.append(r10)
    return rules


def _name_map_rule(ctx, reach):
    """Survey._xpath maps a NAME to the one element of that name (None when several share it) and is built once per
    survey object: it answers ${name} lookups, it is not a list of the form's elements.  Generation code that iterates
    it skips every element whose name repeats (and, after an edit, sees the tree as it was): only lookups are allowed."""
    r = Rule("C02", "C02.R9", "generation walks the tree; the name map is only looked up", floor=1,
             necessary="an element missing from the name map (a repeated name, an element added later) is skipped by a traversal of the map while its instance node is still built from the tree")
    n_lookup = n_iter_outside = 0
    for fi in ctx.repo.all_functions():
        for x in walk_own(fi.node):
            if not (isinstance(x, ast.Attribute) and x.attr == "_xpath" and isinstance(x.ctx, ast.Load)):
                continue
            p = parent(x)
            iterated = False
            if isinstance(p, ast.Attribute) and p.attr in ("values", "items", "keys") and isinstance(parent(p), ast.Call):
                call = parent(p)
                pp = parent(call)
                # .keys() inside a membership test is a lookup
                if isinstance(pp, ast.Compare) and any(isinstance(o, ast.In | ast.NotIn) for o in pp.ops) and call in pp.comparators:
                    iterated = False
                else:
                    iterated = True
            elif isinstance(p, ast.For | ast.comprehension) and getattr(p, "iter", None) is x:
                iterated = True
            elif isinstance(p, ast.Call) and call_name(p) in ("list", "tuple", "sorted", "set", "iter", "len", "enumerate", "chain") and x in p.args:
                iterated = call_name(p) != "len"
            if not iterated:
                n_lookup += 1
                continue
            owner = fi
            while owner.parent is not None:
                owner = owner.parent
            if fi.fq in reach or owner.fq in reach:
                r.fail(f"{fi.fq}:{norm(p)[:50]}", "the name map is looked up by name, never traversed, on the conversion path", fi.loc(x),
                       why_fail="elements whose name repeats are stored as None and elements added after the first render are absent: a traversal of the map is not a traversal of the form")
            else:
                n_iter_outside += 1
    r.check(n_lookup >= 3, "name map:lookups", f"{n_lookup} lookup uses recognised on the conversion path and elsewhere; {n_iter_outside} traversal(s) outside the conversion path (legacy SurveyInstance)", "pyxform/survey.py")
    return r


VALIDATION_TREES = [
    ("valid tree", ("data", [("q", "a"), ("g", "g1", [("q", "b"), ("r", "r1", [("q", "c")])]), ("g", "g2", [("q", "b2")])]), False),
    ("question with an invalid name in a nested group", ("data", [("g", "g1", [("g", "g2", [("q", "1q")])])]), True),
    ("question whose name has a space, in a repeat", ("data", [("r", "r1", [("q", "a b")])]), True),
    ("group with an invalid name", ("data", [("q", "a"), ("g", "1", [("q", "b")])]), True),
    ("nested group with an invalid name", ("data", [("g", "g1", [("g", "first one", [("q", "b")])])]), True),
    ("repeat with an invalid name", ("data", [("r", "r%1", [("q", "b")])]), True),
    ("duplicate sibling questions in a nested group", ("data", [("g", "g1", [("q", "a"), ("q", "a")])]), True),
    ("case-different sibling questions", ("data", [("g", "g1", [("q", "Age"), ("q", "age")])]), True),
    ("non-adjacent duplicate siblings", ("data", [("r", "r1", [("q", "a"), ("q", "b"), ("q", "a")])]), True),
    ("question and group with one name as siblings", ("data", [("g", "g1", [("q", "x"), ("g", "x", [("q", "y")])])]), True),
    ("two sections with one name under different parents", ("data", [("g", "a", [("g", "dup", [("q", "p")])]), ("g", "b", [("g", "dup", [("q", "p2")])])]), True),
    ("section named like the form", ("data", [("g", "data", [("q", "p")])]), True),
    ("two sections with one mixed-case name under different parents", ("data", [("g", "a", [("g", "innerGroup", [("q", "p")])]), ("r", "b", [("g", "innerGroup", [("q", "p2")])])]), True),
    ("two repeats named `Details` under different parents", ("data", [("g", "a", [("r", "Details", [("q", "p")])]), ("g", "b", [("r", "Details", [("q", "p2")])])]), True),
    ("section named like a mixed-case form", ("Census", [("g", "g1", [("g", "Census", [("q", "p")])])]), True),
    ("duplicate children in the generated meta group (two audit rows)", ("data", [("q", "a"), ("g", "meta", [("q", "instanceID"), ("q", "audit"), ("q", "audit")], {"control": {"bodyless": True}})]), True),
    ("invalid name inside a bodyless group", ("data", [("g", "meta", [("q", "1x")], {"control": {"bodyless": True}})]), True),
    ("duplicate children in a group with an appearance", ("data", [("g", "g1", [("q", "a"), ("q", "a")], {"control": {"appearance": "field-list"}})]), True),
    ("valid meta group next to questions", ("data", [("q", "a"), ("g", "meta", [("q", "instanceID"), ("q", "audit")], {"control": {"bodyless": True}})]), False),
    ("same question name in two groups (allowed)", ("data", [("g", "a", [("q", "p")]), ("g", "b", [("q", "p")])]), False),
]


def tree_validation_obligations(ctx, rule, rid):
    from .. import trees
    scls = ctx.repo.cls("pyxform.survey:Survey")
    val = scls.methods["validate"]
    for desc, spec, reject in VALIDATION_TREES:
        survey, _by, _all = trees.build(ctx, spec, {"id_string": "form_id"})
        it = ctx.interp(rid)
        it.reset([])
        try:
            it.call_function(val, [survey], {}, None, val.node)
            got = "accepted"
        except Raised as e:
            got = "rejected" if "PyXFormError" in e.mro else f"raises {e.exc_name}{e.exc_args}"
        rule.check(got == ("rejected" if reject else "accepted"), f"Survey.validate[{desc}]", "rejected with PyXFormError" if reject else "accepted", val.loc(), why_fail=got[:160])
    survey, _by, _all = trees.build(ctx, ("data", [("q", "a")]), {"id_string": None})
    it = ctx.interp(rid)
    it.reset([])
    try:
        it.call_function(val, [survey], {}, None, val.node)
        got = "accepted"
    except Raised as e:
        got = "rejected" if "PyXFormError" in e.mro else f"raises {e.exc_name}"
    rule.check(got == "rejected", "Survey.validate[no id_string]", "rejected with PyXFormError", val.loc(), why_fail=got)


def _fresh_elements_rule(ctx):
    """Every element the builder hands out is freshly made for the dict it was asked to build: an element has ONE parent
    link (get_xpath follows it) but sits in every children list it was appended to, so an element object handed out
    twice (memoised per section / per name / per dict) is emitted under both parents while all its binds and refs
    name only the last one.  Decided as a retention rule: no value computed from an element-creating call is stored
    in the builder's own state or in a module-level container."""
    from ..effects import writes_in
    repo = ctx.repo
    r8 = Rule("C02", "C02.R8", "the builder retains no survey elements (each build hands out fresh objects)", floor=3,
              necessary="an element object reachable from two parents is written under both in the instance but bound / referenced under one path only")
    bcls = repo.cls("pyxform.builder:SurveyElementBuilder")
    se = repo.cls("pyxform.survey_element:SurveyElement")
    elem_classes = {c.name for m in repo.modules.values() for c in m.classes.values()
                    if any(b.name == "SurveyElement" for b in ctx.consts.interp.mro(c))} | {"SurveyElement"}
    creators = {n for n in bcls.methods if n.startswith(("create_", "_create_"))} | elem_classes
    n_fn = n_writes = 0
    for name, fi in sorted(bcls.methods.items()):
        n_fn += 1
        # locals that (transitively) hold the result of a creating call
        holds = set()
        changed = True
        while changed:
            changed = False
            for x in walk_own(fi.node):
                tgt = val = None
                if isinstance(x, ast.Assign) and len(x.targets) == 1:
                    tgt, val = x.targets[0], x.value
                elif isinstance(x, ast.AnnAssign) and x.value is not None:
                    tgt, val = x.target, x.value
                elif isinstance(x, ast.For | ast.comprehension):
                    tgt, val = x.target, x.iter
                if tgt is None:
                    continue
                made = any(isinstance(c, ast.Call) and call_name(c) in creators for c in ast.walk(val)) or \
                    any(isinstance(n, ast.Name) and n.id in holds for n in ast.walk(val))
                if made:
                    for n in ast.walk(tgt):
                        if isinstance(n, ast.Name) and n.id not in holds and n.id != "self":
                            holds.add(n.id)
                            changed = True
        for kind, tgt, node in writes_in(fi.node):
            base = tgt
            while isinstance(base, ast.Subscript | ast.Attribute) and not (isinstance(base, ast.Attribute) and isinstance(base.value, ast.Name) and base.value.id == "self"):
                base = base.value
            if not (isinstance(base, ast.Attribute) and isinstance(base.value, ast.Name) and base.value.id == "self"):
                continue
            n_writes += 1
            vals = []
            if kind in ("store", "aug"):
                vals = [node.value]
            elif kind == "mutator":
                vals = list(node.args) + [k.value for k in node.keywords]
            tainted = any((isinstance(c, ast.Call) and call_name(c) in creators) or (isinstance(c, ast.Name) and c.id in holds)
                          for v in vals for c in ast.walk(v))
            r8.check(not tainted, f"{fi.qualname}:{norm(tgt)[:40]} <- {norm(vals[0])[:40] if vals else ''}", "builder state does not keep an element it has built", fi.loc(node),
                     why_fail="the stored value comes from an element-creating call: a later build can hand the same object to a second parent")
    r8.check(n_fn >= 6 and n_writes >= 3, "builder census", f"{n_fn} builder methods, {n_writes} writes to builder state examined", bcls.module.relpath)
    # lru_cache / cache on a creating method is the same retention
    for name, fi in sorted(bcls.methods.items()):
        decs = [norm(d) for d in getattr(fi.node, "decorator_list", [])]
        if name in creators:
            r8.check(not any("cache" in d for d in decs), f"{fi.qualname}:decorators", "element-creating methods are not memoised", fi.loc(), why_fail=f"decorators {decs}")
    return r8


def _subst_arg(fi, val):
    """First argument of the insert_xpaths call that produces val."""
    for n in ast.walk(val):
        if isinstance(n, ast.Call) and call_name(n) == "insert_xpaths" and n.args:
            return n.args[0]
    return None


AGREEMENT_TREES = {
    "groups and repeats": ("data", [("q", "a"), ("g", "g1", [("q", "b"), ("r", "r1", [("q", "c"), ("g", "g2", [("q", "d")])])]), ("r", "r2", [("q", "e"), ("r", "r3", [("q", "f")])]), ("q", "z")]),
    "hidden rows inside groups": ("data", [("g", "gh", [("q", "calc1", {"type": "calculate", "label": None, "bind": {"type": "string", "calculate": "1"}}),
                                                        ("g", "gi", [("q", "calc2", {"type": "calculate", "label": None, "bind": {"type": "string", "calculate": "2"}})])]), ("q", "v")]),
    "flat groups": ("data", [("g", "fg", [("q", "fa"), ("g", "fh", [("q", "fb")])]), ("q", "fz")]),
    "flat group and repeat": ("data", [("g", "fg", [("q", "fa")]), ("r", "kids", [("q", "kname")]), ("q", "fz")]),
    "nested groups with their own appearances": ("data", [("g", "page", [("q", "a"), ("g", "inner_fl", [("q", "b")], {"control": {"appearance": "field-list"}}),
                                                                        ("g", "inner_c", [("q", "c")], {"control": {"appearance": "field-list compact"}}),
                                                                        ("r", "rows", [("g", "deep", [("q", "d")], {"control": {"appearance": "field-list"}})], {"control": {"appearance": "field-list"}})],
                                                           {"control": {"appearance": "field-list"}}), ("g", "plain", [("q", "z")], {"control": {"appearance": "w4"}})]),
    "a survey nested in a survey (builder / JSON input)": ("data", [("q", "a"), ("s", "household", [("q", "b"), ("g", "g1", [("q", "c")])])]),
    "groups and repeats without rows": ("data", [("g", "empty_g", []), ("r", "empty_r", []), ("g", "outer", [("g", "inner_empty", []), ("q", "x")]), ("r", "rr", [("r", "rr_empty", [])]), ("q", "last")]),
}


def tree_agreement_rule(ctx, prop, rid, want_body=True):
    """On bounded trees the three views of a form agree: every element's own path (real get_xpath) names a node of the
    primary instance built by the real instance builders; every nodeset / ref of the body built by the real control
    builders names such a node too; and every group / repeat that is not bodyless has its own body element, nested as
    in the instance, whatever its children are."""
    from .. import trees
    from ..interp import NodeVal as NV
    from ..xmlmodel import node_hook
    r = Rule(prop, rid, "instance, element paths and body agree on bounded trees", floor=40,
             necessary="a bind / control whose path names no instance node is dangling; a group missing from the body changes the nesting the user sees")
    repo = ctx.repo
    scls = repo.cls("pyxform.survey:Survey")
    sec = repo.cls("pyxform.section:Section")
    se = repo.cls("pyxform.survey_element:SurveyElement")
    hooks = {"fnname:node": node_hook,
             "fnname:insert_xpaths": lambda i, a, k, n: next((x for x in a if isinstance(x, str)), k.get("text")),
             "fnname:insert_output_values": lambda i, a, k, n: (next((x for x in a if isinstance(x, str)), k.get("text")), False)}
    # the flat flag is the settings option (the bool True) or a cell of a `flat` column (any truthy text): the instance
    # builders and the path function must read it the same way
    variants = []
    for tname, spec in AGREEMENT_TREES.items():
        if tname.startswith("flat"):
            variants += [(tname, spec, True), (f"{tname}, flag written as a cell ('yes')", spec, "yes")]
        else:
            variants.append((tname, spec, None))
    for tname, spec, flat_value in variants:
        flat = flat_value is not None
        survey, by_name, everything = trees.build(ctx, spec)
        if flat:
            for e in everything:
                if e.attrs.get("children") is not None:
                    e.attrs["flat"] = flat_value
        it = ctx.interp(rid, hooks=hooks)
        it.reset([])
        try:
            inst = it.call_function(sec.methods["xml_instance"], [survey], {"survey": survey}, None, None)
        except Raised as e:
            if tname.startswith("a survey nested"):
                r.ok(f"tree[{tname}]:instance", f"no document is produced for this shape ({e.exc_name}): nothing to disagree", sec.methods["xml_instance"].loc())
                continue
            r.fail(f"tree[{tname}]:instance", f"instance builder evaluates ({e.exc_name}{e.exc_args})", sec.methods["xml_instance"].loc())
            continue
        paths = set()

        def walk(n, prefix):
            if not isinstance(n, NV):
                return
            p = f"{prefix}/{n.tag}"
            if "jr:template" not in n.attrs:
                paths.add(p)
            for c in n.children:
                walk(c, p)
        walk(inst, "")
        for e in everything:
            it.reset([])
            try:
                xp = it.call_function(se.methods["get_xpath"], [e], {}, None, None)
            except Raised as ex:
                r.fail(f"tree[{tname}]:{e.name}", f"get_xpath evaluates ({ex.exc_name})", se.methods["get_xpath"].loc())
                continue
            is_section = e.attrs.get("children") is not None
            if flat and is_section and e.attrs.get("type") == "group":
                continue  # a flat group has no node of its own
            r.check(xp in paths, f"tree[{tname}]:path of {e.name}", "the element's own path names a node of the primary instance", se.methods["get_xpath"].loc(),
                    why_fail=f"{xp} not among {sorted(paths)}")
        if not want_body:
            continue
        it.reset([])
        try:
            body = [c for c in it.call_function(sec.methods["xml_control"], [survey], {"survey": survey}, None, None) if isinstance(c, NV)]
        except Raised as e:
            r.fail(f"tree[{tname}]:body", f"control builders evaluate ({e.exc_name}{e.exc_args})", sec.methods["xml_control"].loc())
            continue
        refs = []

        def bwalk(n):
            for k in ("ref", "nodeset"):
                v = n.attrs.get(k)
                if isinstance(v, str) and v.startswith("/"):
                    refs.append((n.tag, k, v))
            for c in n.children:
                if isinstance(c, NV):
                    bwalk(c)
        for b in body:
            bwalk(b)
        for tag, k, v in refs:
            r.check(v in paths, f"tree[{tname}]:body <{tag} {k}={v}>", "names a node of the primary instance", sec.methods["xml_control"].loc())
        # each group's body element carries the appearance written on its own row - whatever its ancestors' appearances are
        by_ref = {}

        def gwalk(n):
            if n.tag == "group" and isinstance(n.attrs.get("ref"), str):
                by_ref[n.attrs["ref"]] = n
            for c in n.children:
                if isinstance(c, NV):
                    gwalk(c)
        for b in body:
            gwalk(b)
        for e in everything:
            own_app = (e.attrs.get("control") or {}).get("appearance") if e.attrs.get("children") is not None else None
            if own_app is None or e.attrs.get("type") != "group":
                continue
            it.reset([])
            xp = it.call_function(se.methods["get_xpath"], [e], {}, None, None)
            gnode = by_ref.get(xp)
            r.check(gnode is not None and gnode.attrs.get("appearance") == own_app, f"tree[{tname}]:appearance of {e.name}", f"the group's body element has appearance {own_app!r}",
                    sec.methods["xml_control"].loc(), why_fail=f"got {gnode.attrs.get('appearance') if gnode is not None else 'no body element'!r}")
        if not flat:
            have = {v for tag, k, v in refs if tag in ("group", "repeat")}
            for e in everything:
                if e.attrs.get("children") is not None and not ((e.attrs.get("control") or {}).get("bodyless")):
                    it.reset([])
                    xp = it.call_function(se.methods["get_xpath"], [e], {}, None, None)
                    r.check(xp in have, f"tree[{tname}]:body element of {e.name}", "every group and repeat has its own body element, whatever its children are",
                            sec.methods["xml_control"].loc(), why_fail=f"body group/repeat refs: {sorted(have)}")
    return r


def _slots(ctx, ci):
    it = ctx.consts.interp
    gs = next((c.methods["get_slot_names"] for c in it.mro(ci) if "get_slot_names" in c.methods), None)
    if gs is None:
        return ()
    for x in walk_own(gs.node):
        if isinstance(x, ast.Return):
            ok, v = const_str(ctx, gs.module, x.value)
            if ok:
                return tuple(v)
    return ()


def _must_call(rule, fn, callees, label):
    g = cfgmod.build(fn.node.body)
    for cal in callees:
        nodes = g.nodes_for(lambda n: any(norm(c.func) == cal for c in cfgmod.calls_in(n.stmt)))
        ok = bool(nodes) and g.must_pass(g.entry, g.exit, set(nodes), skip_labels=frozenset({"exc"}))
        rule.check(ok, f"{label}:{cal}", f"every normal path through {label} calls {cal}()", fn.loc())
