"""C11 — settings reach the form header verbatim (wiring, aliases, defaults, meta block)."""

from __future__ import annotations

import ast
import itertools

from .. import spec_xlsform as spec
from ..astutil import call_name, const_str, guard_texts, kw
from ..interp import GenList, NodeVal, Obj, Raised, Sym, SymStr, explore
from ..loader import AnalysisError, norm, walk_own
from ..report import Rule
from ..xmlmodel import node_hook
from .c19 import _row_loop

EXPLANATION = (
    "Abstract evaluation (distinct opaque symbol per setting) of Survey.xml, xml_model and xml_instance: every slot "
    "lands in exactly its own output position and nowhere else; folded settings alias table vs the documented one; "
    "evaluation of the slice of workbook_to_json that builds the JSON root (defaults for name, id, title, default "
    "language; settings merged over defaults) and of the slice that builds the meta block (instanceID / instanceName "
    "/ omit_instanceID / public_key), over the relevant presence/absence combinations; def-use of the fallback form "
    "name from the file stem through the backends into convert(); default-language plumbing at the three "
    "translatable sheets and the four Survey-side readers."
)
NOT_DECIDED = "that arbitrary values survive verbatim through whitespace cleaning (value-level); what the namespaces setting contains"
ASSUMPTIONS = ["slices of workbook_to_json are evaluated with the other names bound to representative inputs; statements outside the slice do not write the slice's variables (checked by a writer census)"]


def run(ctx):
    repo = ctx.repo
    rules = []
    scls = repo.cls("pyxform.survey:Survey")

    # ------------------------------------------------------------------ R1
    r1 = Rule("C11", "C11.R1", "each setting reaches exactly its own output position", floor=14,
              necessary="a swapped or dropped setting changes form identity, submission target or encryption")
    S = {k: Sym(k.upper(), truthy=True, pytype=str) for k in ("title", "style", "id_string", "version", "instance_xmlns", "prefix", "delimiter", "submission_url", "public_key", "auto_send", "auto_delete")}
    xml_fn, xm, xi = scls.methods["xml"], scls.methods["xml_model"], scls.methods["xml_instance"]
    # h:title / body class
    hooks = {"fnname:node": node_hook, "fnname:validate": lambda i, a, k, n: None, "fnname:_setup_xpath_dictionary": lambda i, a, k, n: None,
             "fnname:get_nsmap": lambda i, a, k, n: {"xmlns": "u"}, "fnname:xml_model": lambda i, a, k, n: NodeVal("model"),
             "fnname:xml_control": lambda i, a, k, n: GenList([])}
    it = ctx.interp("C11.R1", hooks=hooks)
    it.reset([])
    s = Obj(scls, {**S, "setvalues_by_triggering_ref": {}}, name="survey")
    root = it.call_function(xml_fn, [s], {}, None, xml_fn.node)
    where = _positions(root)
    r1.check(where.get("TITLE") == ["h:html/h:head/h:title#text"], "title", "form_title is the h:title text, nowhere else", xml_fn.loc(), why_fail=repr(where.get("TITLE")))
    r1.check(where.get("STYLE") == ["h:html/h:body@class"], "style", "style is the body class, nowhere else", xml_fn.loc(), why_fail=repr(where.get("STYLE")))
    r1.check(set(where) <= {"TITLE", "STYLE"}, "Survey.xml:other settings", "no other setting leaks into the html skeleton", xml_fn.loc(), why_fail=repr(sorted(where)))
    # primary instance root
    ROOT = NodeVal(Sym("FORMNAME", truthy=True, pytype=str))
    it = ctx.interp("C11.R1", hooks={"fn:pyxform.section:Section.xml_instance": lambda i, a, k, n: ROOT})
    it.reset([])
    s = Obj(scls, {**S, "attribute": {"custom": Sym("CUSTOMVAL", truthy=True)}}, name="survey")
    it.call_function(xi, [s], {}, None, xi.node)
    want = {"id": "ID_STRING", "version": "VERSION", "xmlns": "INSTANCE_XMLNS", "odk:prefix": "PREFIX", "odk:delimiter": "DELIMITER", "custom": "CUSTOMVAL"}
    got = {k: getattr(v, "name", v) for k, v in ROOT.attrs.items()}
    r1.check(got == want, "primary instance root attributes", f"id/version/xmlns/odk:prefix/odk:delimiter/custom attributes carry exactly their own setting", xi.loc(), why_fail=repr(got))
    for absent in ("version", "instance_xmlns", "prefix", "delimiter"):
        ROOT2 = NodeVal("data")
        it = ctx.interp("C11.R1", hooks={"fn:pyxform.section:Section.xml_instance": lambda i, a, k, n, R=ROOT2: R})
        it.reset([])
        s = Obj(scls, {**S, absent: None, "attribute": None}, name="survey")
        it.call_function(xi, [s], {}, None, xi.node)
        attr = {"version": "version", "instance_xmlns": "xmlns", "prefix": "odk:prefix", "delimiter": "odk:delimiter"}[absent]
        r1.check(attr not in ROOT2.attrs and "id" in ROOT2.attrs, f"primary instance root:{absent} unset", f"an unset {absent} writes no {attr} attribute (id is always written)", xi.loc(), why_fail=repr(ROOT2.attrs))
    si = repo.cls("pyxform.section:Section").methods["xml_instance"]
    from ..prov import Prov
    prov = Prov(ctx)
    nodes = [c for c in walk_own(si.node) if isinstance(c, ast.Call) and call_name(c) == "node" and c.args]
    r1.check(len(nodes) == 1 and prov.classify(nodes[0].args[0], si) == {"VNAME"} and norm(nodes[0].args[0]) == "self.name", "primary instance root name", "the root element is named after the form name (Survey.name)", si.loc())
    # submission element
    model_hooks = {"fnname:node": node_hook, "fnname:_setup_translations": lambda i, a, k, n: None, "fnname:_setup_media": lambda i, a, k, n: None,
                   "fnname:_add_empty_translations": lambda i, a, k, n: None, "fnname:itext": lambda i, a, k, n: NodeVal("itext"),
                   "fnname:xml_instance": lambda i, a, k, n: NodeVal("data"), "fnname:_generate_instances": lambda i, a, k, n: GenList([]),
                   "fnname:xml_descendent_bindings": lambda i, a, k, n: GenList([]), "fnname:xml_actions": lambda i, a, k, n: GenList([])}
    subs = ("submission_url", "public_key", "auto_send", "auto_delete")
    want_attr = {"submission_url": "action", "public_key": "base64RsaPublicKey", "auto_send": "orx:auto-send", "auto_delete": "orx:auto-delete"}
    for present in itertools.product([False, True], repeat=4):
        it = ctx.interp("C11.R1", hooks=model_hooks)
        it.reset([])
        attrs = {"_translations": {}, "entity_features": None}
        for k, p in zip(subs, present):
            attrs[k] = S[k] if p else None
        s = Obj(scls, attrs, name="survey")
        model = it.call_function(xm, [s], {}, None, xm.node)
        sub = [c for c in model.children if isinstance(c, NodeVal) and c.tag == "submission"]
        desc = ",".join(k for k, p in zip(subs, present) if p) or "none"
        if not any(present):
            r1.check(not sub, f"submission[{desc}]", "no submission element without any submission setting", xm.loc())
            continue
        exp = {want_attr[k]: S[k].name for k, p in zip(subs, present) if p}
        if present[0]:
            exp["method"] = "post"
        got = {k: getattr(v, "name", v) for k, v in sub[0].attrs.items()} if len(sub) == 1 else None
        r1.check(got == exp and model.children[0] is sub[0], f"submission[{desc}]", f"one submission element, first in the model, with exactly {sorted(exp)}", xm.loc(), why_fail=repr(got))
    rules.append(r1)

    # ------------------------------------------------------------------ R2
    r2 = Rule("C11", "C11.R2", "settings alias table", floor=5, necessary="an alias pointing elsewhere silently renames a setting")
    sh = ctx.consts.get("pyxform.aliases", "settings_header", "C11.R2")
    for k, v in spec.SETTINGS_ALIASES.items():
        r2.check(sh.get(k) == v, f"settings_header[{k!r}]", f"-> {v}", "pyxform/aliases.py", why_fail=f"got {sh.get(k)!r}")
    slots = set(ctx.consts.get("pyxform.survey", "SURVEY_FIELDS", "C11.R2"))
    # additional spellings are harmless as long as they do not capture a documented setting's own column name (that
    # would move one setting into another's place) and point at a real Survey field
    documented = {"title", "id_string", "version", "instance_xmlns", "prefix", "delimiter", "style", "submission_url", "public_key", "auto_send",
                  "auto_delete", "namespaces", "omit_instanceID", "instance_name", "default_language", "name", "instance_id", "sms_keyword"}
    extra = {k: v for k, v in sh.items() if k not in spec.SETTINGS_ALIASES}
    hijack = {k: v for k, v in extra.items() if k in documented and v != k}
    dangling = {k: v for k, v in extra.items() if not (isinstance(v, str) and v in slots)}
    r2.check(not hijack and not dangling, "settings_header:extras", "extra alias spellings neither rename a documented setting column nor point outside the Survey fields",
             "pyxform/aliases.py", why_fail=f"hijacked={hijack} dangling={dangling}")
    for need in ("title", "id_string", "version", "instance_xmlns", "prefix", "delimiter", "attribute", "style", "submission_url", "public_key", "auto_send", "auto_delete",
                 "namespaces", "omit_instanceID", "instance_name", "default_language", "name"):
        r2.check(need in slots, f"Survey slot {need}", "documented setting is a Survey field (so the column is accepted and stored)", "pyxform/survey.py")
    # the settings sheet's headers are normalised (case, spacing) against the column set handed to the header grouping at
    # the settings call site: every documented setting written with capitals / spaces must come out as its own column
    w2j2 = ctx.func("pyxform.xls2json:workbook_to_json", "C11.R2")
    scall = next((c for c in walk_own(w2j2.node) if isinstance(c, ast.Call) and call_name(c) == "dealias_and_group_headers"
                  and kw(c, "sheet_name") is not None and const_str(ctx, w2j2.module, kw(c, "sheet_name")) == (True, "settings")), None)
    if scall is None or kw(scall, "header_columns") is None:
        r2.fail("settings:header columns", "the settings sheet goes through the header grouping with an explicit column set", w2j2.loc())
    else:
        itc = ctx.interp("C11.R2")
        itc.reset([])
        env_c = {}
        for n_ in ast.walk(kw(scall, "header_columns")):
            if isinstance(n_, ast.Name) and n_.id not in env_c:
                for m_ in repo.modules.values():
                    if n_.id in m_.classes or n_.id in m_.assigns:
                        v_ = itc.module_global(m_, n_.id)
                        env_c[n_.id] = v_
                        break
        try:
            cols_c = set(itc.iterate(itc.eval(kw(scall, "header_columns"), env_c, w2j2.module), scall))
        except Raised as e:
            cols_c = None
        ph_c = ctx.func("pyxform.parsing.sheet_headers:process_header", "C11.R2")
        for canon in ("name", "title", "id_string", "version", "style", "default_language", "public_key", "submission_url", "instance_name", "namespaces", "auto_send", "auto_delete", "omit_instanceID"):
            spellings = [canon.upper(), canon.capitalize(), canon.lower(), " " + canon.replace("_", " ").title() + " "]
            if "_" in canon:  # words separated by other white space (a pasted no-break space, a tab, a line break in the cell)
                spellings += [canon.replace("_", "\u00a0").title(), canon.replace("_", "\t").title(), canon.replace("_", "\n").title()]
            for spelled in spellings:
                itc.reset([])
                try:
                    got_c = itc.call_function(ph_c, [], {"header": spelled, "use_double_colon": False, "header_aliases": sh, "header_columns": cols_c or set()}, None, ph_c.node)
                    got_name = got_c[1][0] if isinstance(got_c, tuple) and got_c[1] else None
                except Raised as e:
                    got_name = f"raises {e.exc_name}"
                r2.check(got_name == canon, f"settings header {spelled!r}", f"is read as the `{canon}` setting", w2j2.loc(scall), why_fail=f"read as {got_name!r} (the column set at the call site lacks `{canon}`)" if cols_c is not None and canon not in cols_c else f"read as {got_name!r}")
    rules.append(r2)

    # ------------------------------------------------------------------ R3
    r3 = Rule("C11", "C11.R3", "documented defaults; settings override defaults", floor=12,
              necessary="a default applied over a setting (or a wrong fallback) changes the form id/title/root name")
    w2j = ctx.func("pyxform.xls2json:workbook_to_json", "C11.R3")
    slice_names = {"form_name", "default_language", "id_string", "sms_keyword", "json_dict"}
    loop = _row_loop(w2j)
    stmts = []
    # (positions in the body, not line numbers: statements expanded from an extracted helper keep the helper's own lines)
    top_index = {}
    for i_, st_ in enumerate(w2j.node.body):
        for x_ in ast.walk(st_):
            top_index[id(x_)] = i_
    loop_i = top_index.get(id(loop), len(w2j.node.body))
    for st in w2j.node.body:
        if top_index.get(id(st), 0) >= loop_i:
            break
        tg = None
        if isinstance(st, ast.Assign) and isinstance(st.targets[0], ast.Name):
            tg = st.targets[0].id
        elif isinstance(st, ast.Expr) and isinstance(st.value, ast.Call) and isinstance(st.value.func, ast.Attribute) and isinstance(st.value.func.value, ast.Name):
            tg = st.value.func.value.id
        if tg in slice_names:
            stmts.append(st)
    # ... extended backwards by the plain top-level definitions the slice reads (a default computed into a local first)
    provided_r3 = {"form_name", "fallback_form_name", "settings", "default_language", "workbook_dict", "warnings"}
    grew = True
    while grew:
        grew = False
        reads = {n_.id for st in stmts for n_ in ast.walk(st) if isinstance(n_, ast.Name) and isinstance(n_.ctx, ast.Load)}
        for st in w2j.node.body:
            if top_index.get(id(st), 0) >= loop_i:
                break
            if st not in stmts and isinstance(st, ast.Assign) and len(st.targets) == 1 and isinstance(st.targets[0], ast.Name) \
                    and st.targets[0].id in reads and st.targets[0].id not in provided_r3:
                stmts.append(st)
                grew = True
    stmts.sort(key=lambda st: top_index.get(id(st), 0))
    # writer census: nothing else (nested) assigns the slice names before the loop
    other = []
    for x in walk_own(w2j.node):
        if isinstance(x, ast.Assign) and top_index.get(id(x), loop_i) < loop_i and x not in stmts:
            for t in x.targets:
                if isinstance(t, ast.Name) and t.id in slice_names:
                    other.append(x)
                if isinstance(t, ast.Subscript) and isinstance(t.value, ast.Name) and t.value.id == "json_dict":
                    other.append(x)
    other = [x for x in other if not (isinstance(x.targets[0], ast.Subscript) and const_str(ctx, w2j.module, x.targets[0].slice) == (True, "choices"))]
    r3.check(len(stmts) >= 5 and not other, "workbook_to_json:root slice", "the JSON root and its defaults are written only by the top-level statements of the slice", w2j.loc(),
             why_fail=f"other writers: {[norm(o)[:50] for o in other]}")
    FN, FB = "myform", "filestem"
    for form_name, fallback, settings, arg_lang in itertools.product([None, FN], [None, FB], [{}, {"id_string": "sid"}, {"title": "T", "id_string": "sid", "name": "rootname", "default_language": "fr", "version": "7"}], [None, "es"]):
        it = ctx.interp("C11.R3")
        it.reset([])
        env = {"form_name": form_name, "fallback_form_name": fallback, "settings": dict(settings), "default_language": arg_lang}
        try:
            for st in stmts:
                it.exec(st, env, w2j.module)
        except Raised as r:
            r3.fail("workbook_to_json:root slice eval", f"evaluates ({r.exc_name}{r.exc_args})", w2j.loc())
            break
        jd = env.get("json_dict", {})
        exp_id = settings.get("id_string", fallback or "data")
        exp = {"type": "survey", "name": settings.get("name", form_name or "data"), "id_string": exp_id, "title": settings.get("title", exp_id),
               "default_language": settings.get("default_language", arg_lang or "default")}
        got = {k: jd.get(k) for k in exp}
        desc = f"form_name={form_name} fallback={fallback} settings={sorted(settings)} default_language_arg={arg_lang}"
        r3.check(got == exp and all(jd.get(k) == v for k, v in settings.items()) and jd.get("children") == [], f"json root[{desc}]", f"== {exp}", w2j.loc(), why_fail=repr(got))
        # the language under which unsuffixed cells are grouped (the local handed to every sheet's header pass) is the
        # very language the Survey later treats as default: two different resolutions file the default texts under a
        # language the itext block does not mark as default
        r3.check(env.get("default_language") == exp["default_language"], f"grouping language[{desc}]", f"unsuffixed cells are grouped under {exp['default_language']!r}, the survey's default language",
                 w2j.loc(), why_fail=f"local default_language = {env.get('default_language')!r}")
    from .c20 import duplicate_id_headers
    duplicate_id_headers(ctx, r3, w2j, "C11.R3")
    # fallback form name plumbing
    gdd = ctx.func("pyxform.xls2json_backends:get_definition_data", "C11.R3")
    # (evaluated in C12.R4 over every input kind: the stem is set exactly when a file was actually read - shared here)
    from . import c12 as _c12
    from .c08 import _take as _take11
    n_before = len(r3.obligations)
    _take11(r3, ctx.other(_c12), "C12.R4", lambda c: c.startswith("get_definition_data[") and (c.endswith(":stem") or "str naming an existing file" in c))
    r3.check(len(r3.obligations) - n_before >= 5, "get_definition_data:file stem", "the fallback-name obligations of C12.R4 were evaluated", gdd.loc())
    dtd = ctx.func("pyxform.xls2json_backends:definition_to_dict", "C11.R3")
    r3.check(any(isinstance(c, ast.Call) and call_name(c) == "DefinitionData" and kw(c, "fallback_form_name") is not None and norm(kw(c, "fallback_form_name")) == "definition.file_path_stem"
                 for c in walk_own(dtd.node)), "definition_to_dict:fallback", "the stem is handed to DefinitionData.fallback_form_name", dtd.loc())
    cv = ctx.func("pyxform.xls2xform:convert", "C11.R3")
    wc = [c for c in walk_own(cv.node) if isinstance(c, ast.Call) and call_name(c) == "workbook_to_json"]
    okc = len(wc) == 1 and all(kw(wc[0], k) is not None for k in ("form_name", "fallback_form_name", "default_language", "warnings")) and norm(kw(wc[0], "form_name")) == "form_name" \
        and norm(kw(wc[0], "fallback_form_name")) == "workbook_dict.fallback_form_name" and norm(kw(wc[0], "default_language")) == "default_language"
    r3.check(okc, "convert:arguments", "convert() forwards form_name / default_language and the backend's fallback name", cv.loc())
    # the legacy entry point (SurveyReader / create_survey_from_xls): given an open file AND its name, the definition is
    # read through the name - only a path carries the file name that id and title fall back to
    pf = ctx.func("pyxform.xls2json:parse_file_to_json", "C11.R3")
    for desc, path, fobj, want_src in (("path only", "dir/my_form.xlsx", None, "dir/my_form.xlsx"), ("open file with its name", "dir/my_form.xlsx", Obj(None, {"name": "dir/my_form.xlsx"}, name="fileobj"), "dir/my_form.xlsx")):
        seen = {}

        def h_get(i, a, k, n, seen=seen):
            src = k.get("xlsform", a[0] if a else None)
            seen["src"] = src
            return Obj(None, {"fallback_form_name": ("my_form" if isinstance(src, str) else None)}, name="workbook")
        itp = ctx.interp("C11.R3", hooks={"fnname:get_xlsform": h_get, "fnname:workbook_to_json": lambda i, a, k, n: dict(k)})
        itp.reset([])
        try:
            out = itp.call_function(pf, [], {"path": path, "file_object": fobj}, None, pf.node)
            fb = out.get("fallback_form_name") if isinstance(out, dict) else None
        except Raised as e:
            fb = f"raises {e.exc_name}"
        r3.check(seen.get("src") == want_src and fb == "my_form", f"parse_file_to_json[{desc}]", "the workbook is read by its path, so the file name is available as the fallback id / title", pf.loc(),
                 why_fail=f"read from {seen.get('src')!r}; fallback name {fb!r}")
    rules.append(r3)

    # ------------------------------------------------------------------ R5
    r5 = Rule("C11", "C11.R5", "meta block: instanceID / instanceName / omit_instanceID", floor=8,
              necessary="a missing instanceID (or one that cannot be omitted), or an instanceName with another calculation")
    body_ = w2j.node.body
    li_ = next((i_ for i_, st_ in enumerate(body_) if st_ is loop), None)
    # (by position in the body, not by line number: statements expanded from an extracted helper keep the helper's lines)
    after = body_[li_ + 1:] if li_ is not None else [st for st in body_ if st.lineno > loop.end_lineno]
    first_meta = next((i for i, st in enumerate(after) if any(w in norm(st) for w in ("omit_instanceID", "instance_name", "meta_children"))), None)
    # ... together with the earlier statements (after the row loop) that define what those statements read and the
    # evaluation's environment does not provide (argument bindings of an extracted helper, hoisted locals)
    if first_meta is not None:
        import builtins as _bi
        from ..rowloop import _free_names
        provided_ = {"settings", "meta_children", "entity_declaration", "json_dict", "stack"}
        for _ in range(8):
            need_ = {n_ for n_ in _free_names(after[first_meta:], w2j.module) if n_ not in provided_ and not hasattr(_bi, n_) and repo.resolve_name(w2j.module, n_) is None}
            idx_ = [i_ for i_, st_ in enumerate(after[:first_meta]) if need_ & {x_.id for x_ in ast.walk(st_) if isinstance(x_, ast.Name) and isinstance(x_.ctx, ast.Store)}]
            if not idx_:
                break
            first_meta = min(idx_)
    tail = after[first_meta:] if first_meta is not None else []
    r5.check(len(tail) >= 2 and isinstance(tail[-1], ast.Return), "workbook_to_json:meta slice", "the statements that assemble the meta block (through the final return) were found", w2j.loc(),
             why_fail=f"{[norm(t)[:40] for t in tail]}")
    from ..interp import _Return
    from .c10 import lexer_hook
    lex_hooks = {"fnname:parse_expression": lexer_hook(ctx, "C11.R5")}
    # (instance_name in every form an author writes it: an expression, a bare path, a comparison, a literal, plain words -
    # the calculation is the setting, character for character)
    INAMES = [None, "concat(${a})", "/data/hh_id", "../hh_id", "/data/a = /data/b", "'Household'", "Household survey", "${a}", "uuid()"]
    for omit, pk, iname, iid in itertools.product([None, "yes", "no", "true()"], [None, "KEY"], INAMES, [None, "customid"]):
        settings = {}
        if omit is not None:
            settings["omit_instanceID"] = omit
        if pk:
            settings["public_key"] = pk
        if iname:
            settings["instance_name"] = iname
        if iid:
            settings["instance_id"] = iid
        it = ctx.interp("C11.R5", hooks=lex_hooks, inline=lambda fi: True)
        it.reset([])
        root_children = []
        env = {"settings": settings, "meta_children": [], "entity_declaration": None, "json_dict": {}, "stack": [{"parent_children": root_children}]}
        desc = f"omit={omit} public_key={'set' if pk else 'unset'} instance_name={'set' if iname else 'unset'} instance_id={'set' if iid else 'unset'}"
        omitted = omit in ("yes", "true()")
        try:
            try:
                it.exec_block(tail, env, w2j.module)
            except _Return:
                pass
        except Raised as r:
            r5.check(omitted and pk and "PyXFormError" in r.mro, f"meta[{desc}]", "omitting instanceID while encrypting is rejected", w2j.loc(), why_fail=f"{r.exc_name}{r.exc_args}")
            continue
        if omitted and pk:
            r5.fail(f"meta[{desc}]", "omitting instanceID while encrypting is rejected", w2j.loc())
            continue
        meta = [c for c in root_children if c.get("name") == "meta"]
        kids = meta[0]["children"] if meta else []
        names = [k.get("name") for k in kids]
        exp_names = ([] if omitted else ["instanceID"]) + (["instanceName"] if iname else [])
        ok = names == exp_names and (not exp_names or (len(meta) == 1 and meta[0].get("type") == "group" and meta[0].get("control") == {"bodyless": True}))
        r5.check(ok, f"meta[{desc}]", f"meta children == {exp_names} (bodyless group appended to the form root)", w2j.loc(), why_fail=f"{names} meta={meta[:1]}")
        for k in kids:
            if k.get("name") == "instanceID":
                r5.check(k.get("bind") == {"readonly": "true()", "jr:preload": iid or "uid"} and k.get("type") == "calculate", f"meta[{desc}]:instanceID",
                         "instanceID is a read-only preload of the instance_id setting (default uid)", w2j.loc(), why_fail=repr(k))
            if k.get("name") == "instanceName":
                r5.check(k.get("bind") == {"calculate": iname} and k.get("type") == "calculate", f"meta[{desc}]:instanceName", "instanceName calculates exactly the instance_name setting", w2j.loc(), why_fail=repr(k))
    # what the row loop collected for the meta block (an audit row) and the entity declaration are in the block whatever the
    # settings say about instanceID
    for omit_, has_audit, has_entity in itertools.product([None, "yes"], [False, True], [False, True]):
        if not (has_audit or has_entity):
            continue
        settings_ = {"omit_instanceID": omit_} if omit_ else {}
        itm = ctx.interp("C11.R5", hooks=lex_hooks, inline=lambda fi: True)
        itm.reset([])
        root_children_ = []
        audit_ = {"name": "audit", "type": "audit"}
        ent_ = {"name": "entity", "type": "entity", "parameters": {"dataset": "d"}}
        jd_ = {}
        envm = {"settings": settings_, "meta_children": ([audit_] if has_audit else []), "entity_declaration": (ent_ if has_entity else None), "json_dict": jd_,
                "stack": [{"parent_children": root_children_}]}
        descm = f"omit={omit_} audit row={'yes' if has_audit else 'no'} entity={'yes' if has_entity else 'no'}"
        try:
            try:
                itm.exec_block(tail, envm, w2j.module)
            except _Return:
                pass
            meta_ = [c for c in root_children_ if c.get("name") == "meta"]
            names_ = [k.get("name") for k in (meta_[0]["children"] if meta_ else [])]
        except Raised as r:
            names_ = f"raises {r.exc_name}"
        want_ = (["audit"] if has_audit else []) + ([] if omit_ else ["instanceID"]) + (["entity"] if has_entity else [])
        r5.check(names_ == want_ and (not has_entity or bool(jd_.get("entity_features"))), f"meta[{descm}]", f"meta children == {want_}" + ("; entity features recorded" if has_entity else ""), w2j.loc(),
                 why_fail=f"{names_} entity_features={jd_.get('entity_features')}")
    # protected attributes: custom `attribute::` columns named like a documented root attribute never replace it
    sxi = scls.methods["xml_instance"]
    evil = {"id": "EVIL", "version": "EVIL", "xmlns": "EVIL", "odk:prefix": "EVIL", "odk:delimiter": "EVIL", "custom": "kept"}
    sv_ = Obj(scls, {"attribute": dict(evil), "id_string": "real_id", "version": "v7", "instance_xmlns": "http://ex/ns", "prefix": "pp", "delimiter": "dd", "name": "data"}, name="survey")
    itp = ctx.interp("C11.R1", hooks={"fnname:node": node_hook})
    itp.reset([])
    try:
        root_ = itp.call_function(sxi, [sv_], {}, None, sxi.node) if False else None
    except Raised:
        root_ = None
    # Survey.xml_instance starts from Section.xml_instance(self, ...): model that call by a bare root node
    itp = ctx.interp("C11.R1", hooks={"fnname:node": node_hook, "call:Section.xml_instance": lambda i, a, k, n: NodeVal("data")})
    itp.reset([])
    try:
        root_ = itp.call_function(sxi, [sv_], {}, None, sxi.node)
        got_ = dict(root_.attrs) if isinstance(root_, NodeVal) else None
    except Raised as e:
        got_ = f"raises {e.exc_name}{e.exc_args}"
    want_ = {"id": "real_id", "version": "v7", "xmlns": "http://ex/ns", "odk:prefix": "pp", "odk:delimiter": "dd", "custom": "kept"}
    r1.check(got_ == want_, "root attributes[attribute:: columns named like documented ones]", "form_id / version / xmlns / prefix / delimiter win over same-named custom attributes; other custom attributes are kept",
             sxi.loc(), why_fail=f"{got_!r}")
    from .c19 import meta_sealed_rule, nsmap_table, _NS_CASES
    meta_sealed_rule(ctx, r5, "C11.R5")
    # `namespaces` setting -> root declarations, for this form only
    for desc, feats, ns, res in nsmap_table(ctx, "C11.R1"):
        if res == "shared-table-mutated":
            r1.fail("get_nsmap:shared table", desc, "pyxform/survey.py")
            continue
        want = {f"xmlns:{p_}": u for p_, u in _NS_CASES[ns]} if ns else {}
        r1.check(isinstance(res, dict) and all(res.get(k) == v for k, v in want.items()) and
                 not any(k.startswith("xmlns:") and k[6:] in {p_ for c_ in _NS_CASES.values() for p_, _u in c_} and k not in want for k in res),
                 f"namespaces[{desc}]", "exactly this form's `namespaces` setting is declared on the root, next to the standard ones", "pyxform/survey.py", why_fail=f"{res!r}"[:200])
    rules.append(r5)

    # ------------------------------------------------------------------ R6
    r6 = Rule("C11", "C11.R6", "default_language plumbing", floor=7,
              necessary="a sheet grouped with another default language files unsuffixed columns under the wrong language")
    calls = [c for c in walk_own(w2j.node) if isinstance(c, ast.Call) and call_name(c) == "dealias_and_group_headers"]
    by_sheet = {}
    for c in calls:
        okc, sn = const_str(ctx, w2j.module, kw(c, "sheet_name"))
        by_sheet[sn] = c
    for sheet in ("survey", "choices", "external_choices"):
        c = by_sheet.get(sheet)
        r6.check(c is not None and kw(c, "default_language") is not None and norm(kw(c, "default_language")) == "default_language", f"dealias_and_group_headers[{sheet}]",
                 "the translatable sheet is grouped with the resolved default language", w2j.loc(c) if c is not None else w2j.loc())
    dl = [x for x in walk_own(w2j.node) if isinstance(x, ast.Assign) and isinstance(x.targets[0], ast.Name) and x.targets[0].id == "default_language" and "settings.get" in norm(x.value)]
    first_use = min((c.lineno for c in calls if kw(c, "default_language") is not None), default=0)
    r6.check(len(dl) == 1 and dl[0].lineno < first_use, "default_language resolution order", "the setting is resolved before any sheet is grouped", w2j.loc())
    for fq, needle in (("pyxform.survey:Survey._setup_translations", "self.default_language"), ("pyxform.survey:Survey._setup_media", "self.default_language"), ("pyxform.survey:Survey.itext", "self.default_language")):
        fn = ctx.func(fq, "C11.R6")
        r6.check(needle in norm(fn.node), f"{fq.split(':')[1]}", "reads the survey's default_language", fn.loc())
    rules.append(r6)
    from .c13 import cell_cleaning_rule
    rules.append(cell_cleaning_rule(ctx, "C11", "C11.R7"))
    rules.append(_create_survey_history_rule(ctx))
    rules.append(_settings_row_rule(ctx))
    # shared with C12.R2 (readers as siblings)
    from . import c12 as _c12s
    from .c08 import _take as _take_s
    r_s = Rule("C11", "C11.R10", "the settings that reach the header are those of the sheet named settings", floor=3,
               necessary="a stray copy of the settings sheet replacing the real one changes title, id and version silently")
    _take_s(r_s, ctx.other(_c12s), "C12.R2", lambda c: c.startswith("xls_to_dict:stray sheet copy") or c.startswith("xlsx_to_dict:stray sheet copy"))
    rules.append(r_s)
    return rules


def _settings_row_rule(ctx):
    """The settings are the FIRST row under the settings headers: the settings block of workbook_to_json, evaluated as a
    block on sheets with one row, with further rows below (an old release row, a notes row), and with columns the first
    row leaves blank - what a lower row holds is never a setting of this form."""
    r = Rule("C11", "C11.R9", "the settings are the first settings row, nothing from the rows below it", floor=4,
             necessary="a value taken from a lower row puts a setting into the form that its settings row does not have")
    w2j = ctx.func("pyxform.xls2json:workbook_to_json", "C11.R9")
    blk = next((st for st in w2j.node.body if isinstance(st, ast.If) and norm(st.test) in ("workbook_dict.settings", "settings_sheet")
                and any(isinstance(c, ast.Call) and call_name(c) == "dealias_and_group_headers" for c in ast.walk(st))), None)
    if blk is None:
        r.note("the settings block of workbook_to_json was not recognised (if workbook_dict.settings: ... dealias_and_group_headers)")
        r.floor = 0
        return r
    SHEETS = {
        "one row": ([{"form_title": "T", "form_id": "I", "version": "1"}], {"title": "T", "id_string": "I", "version": "1"}),
        "an older release row below": ([{"form_title": "T", "form_id": "I", "version": "2"}, {"form_title": "Old", "form_id": "I0", "version": "1"}], {"title": "T", "id_string": "I", "version": "2"}),
        "lower row fills columns the first row leaves blank": ([{"form_title": "T", "form_id": "I"}, {"version": "9", "style": "pages", "instance_name": "concat('x')", "submission_url": "https://example.org"}], {"title": "T", "id_string": "I"}),
        "notes row below": ([{"form_title": "T"}, {"form_title": "remember to bump", "public_key": "KEY", "auto_send": "true"}], {"title": "T"}),
    }
    for desc, (rows, want) in SHEETS.items():
        data = [dict(x) for x in rows]
        hdr = {}
        for x in data:
            for k_ in x:
                hdr.setdefault(k_, None)
        wd = Obj(None, {"settings": data, "settings_header": [hdr]}, name="workbook_dict")
        env = {"workbook_dict": wd, "warnings": [], "sheet_names": ["survey", "settings"], "settings": {}}
        it = ctx.interp("C11.R9", hooks={"new:DealiasAndGroupHeadersResult": lambda i, a, k, n: Obj(None, dict(k) if k else {"headers": a[0], "data": a[1]}, name="result")})
        it.reset([])
        try:
            it.exec_block([blk], env, w2j.module)
            got = {k: v for k, v in (env.get("settings") or {}).items() if not str(k).startswith("__")}
        except AnalysisError as e:
            r.note(f"the settings block reads state this evaluation does not provide ({e}); block obligations skipped")
            r.floor = 0
            return r
        except Raised as e:
            got = f"raises {e.exc_name}{e.exc_args}"
        r.check(got == want, f"settings block[{desc}]", f"settings == {want}", w2j.loc(blk), why_fail=repr(got)[:220])
    return r


def _create_survey_history_rule(ctx):
    """builder.create_survey's id_string= / title= arguments override the section's own settings for THAT build only: the
    same parsed section built again without the arguments carries its own settings again (evaluated: two and three
    successive builds from one section dict; the element builder is a stub that records what it is handed and returns an
    object carrying the dict's id_string / title)."""
    r = Rule("C11", "C11.R8", "create_survey's id/title arguments apply to one build only (history over one section dict)", floor=6,
             necessary="an override stored in the caller's section dict is the id / title of every later build from it")
    repo = ctx.repo
    cs = ctx.func("pyxform.builder:create_survey", "C11.R8")

    def h_builder(i, a, k, n):
        def csefd(i2, a2, k2, n2):
            d = k2.get("d", a2[0] if a2 else None)
            return Obj(None, {"id_string": d.get("id_string"), "title": d.get("title"), "name": d.get("name")}, name="survey")
        return Obj(None, {"set_sections": lambda i2, a2, k2, n2: None, "create_survey_element_from_dict": csefd}, name="builder")

    SECTIONS = {"section with its own id and title": {"type": "survey", "name": "data", "id_string": "own_id", "title": "Own title", "children": []},
                "section without id and title": {"type": "survey", "name": "data", "children": []}}
    for sname, sec in SECTIONS.items():
        for hist in ((("A", "TA"), (None, None)), (("A", None), (None, "TB"), (None, None)), ((None, None), ("B", "TB"), (None, None))):
            main = {k: (list(v) if isinstance(v, list) else v) for k, v in sec.items()}
            it = ctx.interp("C11.R8", hooks={"new:SurveyElementBuilder": h_builder})
            outs = []
            try:
                for ids, ttl in hist:
                    it.reset([])
                    sv = it.call_function(cs, [], {"name_of_main_section": "main", "sections": {"main": main}, "id_string": ids, "title": ttl}, None, cs.node)
                    outs.append((sv.attrs.get("id_string"), sv.attrs.get("title")))
            except Raised as e:
                r.fail(f"create_survey[{sname}; history {hist}]", f"evaluates ({e.exc_name}{e.exc_args})", cs.loc())
                continue
            own_id = sec.get("id_string", "main")
            own_title = sec.get("title")
            want = [(ids if ids is not None else own_id, ttl if ttl is not None else own_title) for ids, ttl in hist]
            r.check(outs == want, f"create_survey[{sname}; (id, title) arguments {hist}]", "each build carries its own arguments, else the section's own settings", cs.loc(),
                    why_fail=f"builds carried {outs}, expected {want}")
    return r


def _positions(root) -> dict:
    """symbol name -> list of positions (path@attr / path#text) where it occurs in the abstract tree."""
    out = {}

    def names(v):
        if isinstance(v, Sym):
            return [v.name]
        if isinstance(v, SymStr):
            return [s.name for s in v.syms()]
        return []

    def rec(n, path):
        p = f"{path}/{n.tag}" if path else str(n.tag)
        for k, v in n.attrs.items():
            for nm in names(v):
                out.setdefault(nm, []).append(f"{p}@{k}")
        for nm in names(n.text):
            out.setdefault(nm, []).append(f"{p}#text")
        for c in n.children:
            if isinstance(c, NodeVal):
                rec(c, p)

    if isinstance(root, NodeVal):
        rec(root, "")
    return out
