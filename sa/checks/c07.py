"""C07 — every itext reference resolves in every language (emit => register decision tables)."""

from __future__ import annotations

import ast
import itertools
import re

from ..astutil import call_name, const_str, guard_texts
from ..interp import ClassVal, GenList, NodeVal, Obj, Raised, Sym, SymStr
from ..loader import AnalysisError, norm, walk_own
from ..report import Rule
from ..xmlmodel import node_hook

EXPLANATION = (
    "Finite-domain abstract evaluation (the analyser's own evaluator over the repository's ASTs; representative "
    "values per abstract class: absent / empty / text / text-with-reference / per-language dict) of the emitters "
    "(xml_label_and_hint, xml_bindings, group and repeat controls) and of the registrars (_setup_translations, "
    "_setup_media) for Question and Section elements over the full product label x media x hint x guidance and "
    "constraint x required x noAppError messages: every jr:itext id emitted must be registered for some language; "
    "evaluation of the padder (every language gets every id and form), of the itext serialiser (one translation per "
    "language, default marked only on the default language), of the three producers of choice ids; sentinel "
    "agreement; traversal-coverage of classes that can emit an itext reference."
)
NOT_DECIDED = ("that no other route produces an itext id at run time (the construction-site census of C01/C06 is the argument); which "
               "text lands under which language (C08, not claimed)")
ASSUMPTIONS = [
    "representative values stand for their abstract class (a label is absent, empty, plain text, text with a ${ref}, or a per-language dict)",
    "summaries of node()/insert_output_values/insert_xpaths record flows only",
]

ITEXT = re.compile(r"^jr:itext\('(.*)'\)$")


def _slots_of(ctx, ci):
    from .c02 import _slots
    return _slots(ctx, ci)


def _mk(ctx, ci, name, parent=None, **attrs):
    slots = _slots_of(ctx, ci)
    a = {s: None for s in slots}
    a.update(attrs)
    a["name"] = name
    a["parent"] = parent
    o = Obj(ci, a, name=name, slots=tuple(slots))
    return o


def _hooks(xpaths):
    def h_xpath(i, a, k, n):
        return xpaths[a[0].name]

    def h_iov(i, a, k, n):
        aa = [x for x in a if not (isinstance(x, Obj) and (x.name == "survey" or (x.cls is not None and x.cls.name == "Survey")))]
        t = aa[0] if aa else k.get("text")
        return (t if isinstance(t, str) else Sym("TEXT", truthy=True, pytype=str), False)

    def h_ix(i, a, k, n):
        aa = [x for x in a if not (isinstance(x, Obj) and (x.name == "survey" or (x.cls is not None and x.cls.name == "Survey")))]
        v = aa[0] if aa else k.get("text")
        return v if isinstance(v, str) else Sym("SUBST", truthy=True, pytype=str, attrs={"src": v})

    return {"fnname:node": node_hook, "fnname:get_xpath": h_xpath, "fnname:insert_output_values": h_iov, "fnname:insert_xpaths": h_ix}


def _emitted(nodes) -> set[str]:
    out = set()

    def rec(n):
        if isinstance(n, NodeVal):
            for k, v in n.attrs.items():
                s = v
                if isinstance(s, Sym):
                    s = s.attrs.get("src")
                if isinstance(s, SymStr):
                    s = s.text()
                if isinstance(s, str):
                    m = ITEXT.match(s)
                    if m:
                        out.add(m.group(1))
            for c in n.children:
                rec(c)

    for n in nodes:
        rec(n)
    return out


def run(ctx):
    repo = ctx.repo
    it0 = ctx.consts.interp
    rules = []
    scls = repo.cls("pyxform.survey:Survey")
    qcls = repo.cls("pyxform.question:InputQuestion")
    gcls = repo.cls("pyxform.section:GroupedSection")
    rcls = repo.cls("pyxform.section:RepeatingSection")

    def survey_obj(children, default_language="default", choices=None):
        it = ctx.interp("C07")
        it.reset([])
        rd = it.call(it.module_global(repo.module("pyxform.survey"), "recursive_dict"), [], {}, None)
        s = _mk(ctx, scls, "data", children=children, default_language=default_language, choices=choices, _translations=rd, type="survey",
                setvalues_by_triggering_ref={}, setgeopoint_by_triggering_ref={})
        for c in children:
            c.attrs["parent"] = s
        return s

    def registered(survey, xpaths):
        it = ctx.interp("C07", hooks=_hooks(xpaths))
        it.reset([])
        it.call_function(scls.methods["_setup_translations"], [survey], {}, None, None)
        it.call_function(scls.methods["_setup_media"], [survey], {}, None, None)
        tr = survey.attrs["_translations"]
        ids = set()
        for lang, d in tr.items():
            ids |= set(d.keys())
        return ids, tr

    # ------------------------------------------------------------------ R2 (element display texts)
    r2 = Rule("C07", "C07.R2", "emit => register for labels, hints, guidance and media (Question, group, repeat)", floor=300,
              necessary="a jr:itext reference whose id is not in the itext block is a dangling reference for every language")
    LABELS = {"absent": None, "empty": "", "text": "Name", "text+ref": "Hello ${q0}", "dict": {"en": "Name", "fr": "Nom"},
              # blank translation cells (dict / JSON input keeps them): the element still references its itext id, so it is registered
              "dict with one blank cell": {"en": "", "fr": "Nom"}, "dict of one blank cell": {"en": ""}}
    MEDIA = {"absent": None, "empty": {}, "dict": {"image": "a.png"}, "localized": {"image": {"en": "a.png"}},
             "unsupported kind": {"pdf": "a.pdf"}, "unsupported kind, localized": {"pdf": {"en": "a.pdf", "fr": "b.pdf"}}}
    HINTS = {"absent": None, "empty": "", "text": "A hint", "dict": {"en": "Hint"}, "dict of one blank cell": {"fr": ""}}
    GUID = {"absent": None, "empty": "", "text": "Guide", "dict": {"en": "G"}}
    n_eval = 0
    for (ln, lv), (mn, mv), (hn, hv), (gn, gv) in itertools.product(LABELS.items(), MEDIA.items(), HINTS.items(), GUID.items()):
        desc = f"label={ln} media={mn} hint={hn} guidance={gn}"
        q = _mk(ctx, qcls, "q1", label=lv, media=mv, hint=hv, guidance_hint=gv, type="text", bind={"type": "string"}, control={"tag": "input"})
        xp = {"q1": "/data/q1", "data": "/data"}
        s = survey_obj([q])
        it = ctx.interp("C07.R2", hooks=_hooks(xp))
        it.reset([])
        n_eval += 1
        try:
            nodes = it.call_function(repo.cls("pyxform.survey_element:SurveyElement").methods["xml_label_and_hint"], [q], {"survey": s}, None, None)
        except Raised as r:
            if "PyXFormError" in r.mro:
                r2.ok(f"Question[{desc}]", "rejected with PyXFormError (no label/hint) — nothing emitted", "pyxform/survey_element.py")
                continue
            r2.fail(f"Question[{desc}]", f"emitters raise only PyXFormError (got {r.exc_name}{r.exc_args})", "pyxform/survey_element.py")
            continue
        em = _emitted(nodes)
        try:
            ids, tr = registered(s, xp)
        except Raised as r:
            if "PyXFormError" in r.mro:
                r2.ok(f"Question[{desc}]", "rejected with PyXFormError by the registrars — no document", "pyxform/survey.py")
                continue
            r2.fail(f"Question[{desc}]", f"registrars evaluate (raised {r.exc_name}{r.exc_args})", "pyxform/survey.py")
            continue
        r2.check(em <= ids, f"Question[{desc}]", f"every emitted itext id is registered", "pyxform/survey_element.py",
                 why_fail=f"emitted {sorted(em)} registered {sorted(ids)}")
        # ... and nothing the author typed is lost on the way: each text is either written inline or filed in the
        # translations under its own language (the '-' placeholders are added later by the padder)
        shown = set()
        for nd in nodes:
            if isinstance(nd, NodeVal) and isinstance(nd.text, str):
                shown.add(("inline", nd.text))
        for lang_, d_ in tr.items():
            for id_, forms_ in d_.items():
                for form_, leaf_ in forms_.items():
                    if isinstance(leaf_, dict) and "text" in leaf_:
                        shown.add((lang_, leaf_["text"]))
        lost = []
        for what, val in (("label", lv), ("hint", hv), ("guidance_hint", gv)):
            if isinstance(val, str) and val:
                if not any(t == val for _l, t in shown):
                    lost.append(f"{what} {val!r}")
            elif isinstance(val, dict):
                for lang_, t_ in val.items():
                    if (lang_, t_) not in shown:
                        lost.append(f"{what}[{lang_}] {t_!r}")
        r2.check(not lost, f"Question[{desc}]:texts kept", "every label / hint / guidance text is written inline or filed under its own language", "pyxform/survey_element.py",
                 why_fail=f"lost: {lost}")
    # groups and repeats: label x media only (no hint control in the body)
    for cls, cname in ((gcls, "group"), (rcls, "repeat")):
        for (ln, lv), (mn, mv) in itertools.product(LABELS.items(), MEDIA.items()):
            desc = f"label={ln} media={mn}"
            child = _mk(ctx, qcls, "c1", label="x", type="text", bind={"type": "string"}, control={"tag": "input"})
            sec = _mk(ctx, cls, "g1", label=lv, media=mv, type=cname, children=[child], control={} if cname == "group" else None)
            child.attrs["parent"] = sec
            xp = {"g1": "/data/g1", "c1": "/data/g1/c1", "data": "/data"}
            s = survey_obj([sec])
            hooks = _hooks(xp)
            hooks["fnname:_dynamic_defaults_helper"] = lambda i, a, k, n: GenList([])
            it = ctx.interp("C07.R2", hooks=hooks)
            it.reset([])
            n_eval += 1
            try:
                ctrl = it.call_function(cls.methods["xml_control"], [sec], {"survey": s}, None, None)
            except Raised as r:
                r2.check("PyXFormError" in r.mro, f"{cname}[{desc}]", "rejected with PyXFormError — nothing emitted", "pyxform/section.py", why_fail=f"{r.exc_name}{r.exc_args}")
                continue
            own = []
            if isinstance(ctrl, NodeVal):
                own = [c for c in ctrl.children if isinstance(c, NodeVal) and c.tag == "label"]
            em = _emitted(own)
            try:
                ids, tr = registered(s, xp)
            except Raised as r:
                r2.check("PyXFormError" in r.mro, f"{cname}[{desc}]", "rejected with PyXFormError by the registrars — no document", "pyxform/survey.py", why_fail=f"{r.exc_name}{r.exc_args}")
                continue
            r2.check(em <= ids, f"{cname}[{desc}]", "every emitted itext id is registered", "pyxform/section.py", why_fail=f"emitted {sorted(em)} registered {sorted(ids)}")
    ctx.count("decision_table_evaluations", n_eval)
    # the ids are built from the element's path: an element NAME that contains one of the display-element words
    # (`guidance_hint`, `hint`, `label`) must not change which id is emitted or registered
    for nm in ("my_guidance_hint_q", "hint", "label_of_x"):
        for (ln, lv), (hn, hv), (gn, gv) in itertools.product([("text", "Name"), ("dict", {"en": "Name", "fr": "Nom"})], [("absent", None), ("text", "A hint"), ("dict", {"en": "Hint"})],
                                                              [("absent", None), ("text", "Guide"), ("dict", {"en": "G"})]):
            desc = f"element named {nm!r}: label={ln} hint={hn} guidance={gn}"
            q = _mk(ctx, qcls, nm, label=lv, media=None, hint=hv, guidance_hint=gv, type="text", bind={"type": "string"}, control={"tag": "input"})
            xp = {nm: f"/data/{nm}", "data": "/data"}
            s = survey_obj([q])
            it = ctx.interp("C07.R2", hooks=_hooks(xp))
            it.reset([])
            try:
                nodes = it.call_function(repo.cls("pyxform.survey_element:SurveyElement").methods["xml_label_and_hint"], [q], {"survey": s}, None, None)
            except Raised as r:
                continue
            em = _emitted(nodes)
            ids, tr = registered(s, xp)
            r2.check(em <= ids, f"display[{desc}]", "every itext id emitted is registered", "pyxform/survey_element.py", why_fail=f"emitted {sorted(em)} registered {sorted(ids)}")
    rules.append(r2)

    # ------------------------------------------------------------------ R2b (messages)
    r2b = Rule("C07", "C07.R2b", "emit => register for constraint / required / noAppError messages", floor=40,
               necessary="a bind message redirected to itext without a registered id is dangling")
    MSG = {"absent": None, "text": "Plain", "text+ref": "Bad ${q0}", "dict": {"en": "M"}}
    se = repo.cls("pyxform.survey_element:SurveyElement")
    KIND_CLS = {"text": qcls, "calculate": qcls, "group": repo.cls("pyxform.section:GroupedSection"), "repeat": repo.cls("pyxform.section:RepeatingSection"),
                "osm without tags": repo.cls("pyxform.question:OsmUploadQuestion"), "select one": repo.cls("pyxform.question:MultipleChoiceQuestion")}
    combos = list(itertools.product(("text", "calculate"), MSG.items(), MSG.items(), MSG.items()))
    # the other element kinds that carry a bind (groups / repeats with relevance and messages, osm and select questions):
    # constraint x required messages, noAppErrorString absent
    combos += [(k_, c_, r_, ("absent", None)) for k_ in ("group", "repeat", "osm without tags", "select one") for c_ in MSG.items() for r_ in MSG.items()]
    for qtype, (cn, cv), (rn, rv), (nn, nv) in combos:
        bind = {"type": "string"}
        if qtype == "calculate":
            bind["calculate"] = "1 + 1"  # a row without a body control still has a bind that carries the messages
        if cv is not None:
            bind["jr:constraintMsg"] = cv
        if rv is not None:
            bind["jr:requiredMsg"] = rv
        if nv is not None:
            bind["jr:noAppErrorString"] = nv
        desc = f"{qtype}: constraintMsg={cn} requiredMsg={rn} noAppErrorString={nn}"
        extra_kw = {}
        if qtype in ("group", "repeat"):
            extra_kw = {"children": []}
        elif qtype == "osm without tags":
            extra_kw = {"children": None}
        elif qtype == "select one":
            extra_kw = {"itemset": "l", "list_name": "l", "choices": None, "choice_filter": None, "parameters": None}
        q = _mk(ctx, KIND_CLS[qtype], "q1", label="L" if qtype != "calculate" else None, type=("osm" if qtype.startswith("osm") else qtype), bind=bind, control={"tag": "input"}, **extra_kw)
        xp = {"q1": "/data/q1", "data": "/data"}
        s = survey_obj([q])
        it = ctx.interp("C07.R2b", hooks=_hooks(xp))
        it.reset([])
        try:
            nodes = [n for n in it.call_function(se.methods["xml_bindings"], [q], {"survey": s}, None, None) if n is not None]
        except Raised as r:
            r2b.fail(f"bind[{desc}]", f"xml_bindings evaluates ({r.exc_name}{r.exc_args})", "pyxform/survey_element.py")
            continue
        em = _emitted(nodes)
        ids, tr = registered(s, xp)
        r2b.check(em <= ids, f"bind[{desc}]", "every message itext id emitted on the bind is registered", "pyxform/survey_element.py",
                  why_fail=f"emitted {sorted(em)} registered {sorted(ids)}")
        # a registered text that contains a reference is resolved from the element that owns the cell: the entry carries
        # that element as its output context (without it the reference is resolved from nowhere: absolute paths in a repeat)
        for msg_key, mv in (("jr:constraintMsg", cv), ("jr:requiredMsg", rv)):
            texts = [mv] if isinstance(mv, str) else (list(mv.values()) if isinstance(mv, dict) else [])
            if not any(isinstance(t_, str) for t_ in texts) or not (isinstance(mv, dict) or "${" in mv):
                continue
            entries = [d_.get(f"/data/q1:{msg_key}") for d_ in tr.values() if isinstance(d_.get(f"/data/q1:{msg_key}"), dict)]
            ctxs = [v_.get("output_context") for e_ in entries for v_ in e_.values() if isinstance(v_, dict)]
            r2b.check(bool(ctxs) and all(c_ is q for c_ in ctxs), f"bind[{desc}]:{msg_key} output context", "the registered message is resolved from its own element", "pyxform/survey_element.py",
                      why_fail=f"contexts {[getattr(c_, 'name', c_) for c_ in ctxs]}")
        # an unsuffixed message that needs itext (it contains a reference) belongs to the survey's default language,
        # whatever that language is called
        if any(isinstance(v, str) and "${" in v for v in (cv, rv)):  # (a plain noAppErrorString is never redirected to itext)
            s_en = survey_obj([q], default_language="English (en)")
            try:
                _ids_en, tr_en = registered(s_en, xp)
                langs_en = set(tr_en.keys())
                want_langs = {"English (en)"} | ({"en"} if any(isinstance(v, dict) for v in (cv, rv, nv)) else set())
                r2b.check(langs_en <= want_langs and "English (en)" in langs_en, f"bind[{desc}]:default language",
                          "with default_language='English (en)' the unsuffixed message is filed under that language", "pyxform/survey_element.py",
                          why_fail=f"languages registered: {sorted(langs_en)}")
            except Raised as r:
                r2b.fail(f"bind[{desc}]:default language", f"registrars evaluate ({r.exc_name}{r.exc_args})", "pyxform/survey.py")
            finally:
                q.attrs["parent"] = s
        # non-vacuity: a translated message (per-language dict) can only be shown through itext, so it must emit a reference
        n_dict = sum(1 for v in (cv, rv, nv) if isinstance(v, dict))
        if n_dict:
            r2b.check(len(em) >= n_dict, f"bind[{desc}]:translated messages use itext", "each per-language message is emitted as a jr:itext reference", "pyxform/survey_element.py",
                      why_fail=f"emitted {sorted(em)}")
    rules.append(r2b)

    # ------------------------------------------------------------------ R3 padding
    r3 = Rule("C07", "C07.R3", "padding: every language gets every id and every form; prepared before serialisation", floor=4,
              necessary="a language lacking an id used by the body has a dangling reference when that language is selected")
    pad = scls.methods["_add_empty_translations"]
    it = ctx.interp("C07.R3")
    it.reset([])
    tr = {"en": {"/d/q:label": {"long": "x", "type": "question"}, "/d/q:hint": {"long": "h", "guidance": "g", "type": "question"}, "l-0": {"long": "A", "image": "a.png", "type": "choice"}},
          "fr": {"/d/q:label": {"long": "y", "type": "question"}},
          "es": {}}
    s = Obj(scls, {"_translations": tr}, name="survey")
    it.call_function(pad, [s], {}, None, pad.node)
    ids = [set(v) for v in tr.values()]
    r3.check(all(i == ids[0] for i in ids) and len(ids[0]) == 3, "_add_empty_translations:ids", "all languages hold the same set of text ids", pad.loc(), why_fail=repr(ids))
    forms_ok = all(set(tr[l][p]) == set(tr["en"][p]) for l in tr for p in tr["en"])
    r3.check(forms_ok, "_add_empty_translations:forms", "every id has the same forms in every language", pad.loc())
    r3.check(tr["fr"]["/d/q:hint"].get("guidance") == "-" and tr["es"]["l-0"].get("image") == "-" and tr["fr"]["/d/q:label"]["long"] == "y", "_add_empty_translations:placeholder",
             "missing entries are the '-' placeholder; existing entries are untouched", pad.loc())
    # bounded-exhaustive: 2 languages x 2 text ids x 2 forms, every presence pattern (256 translation maps, including
    # the "balanced sparse" ones where each language has the same number of values under different ids)
    FORMS = ("long", "guidance")
    IDS = ("/d/a:label", "/d/b:hint")
    cells = [(l, i, f) for l in ("en", "fr") for i in IDS for f in FORMS]
    n_maps = n_bad = 0
    first_bad = None
    for mask in range(1 << len(cells)):
        trm = {"en": {}, "fr": {}}
        for bit, (l, i, f) in enumerate(cells):
            if mask >> bit & 1:
                trm[l].setdefault(i, {})[f] = f"{l}:{i}:{f}"
        before = {l: {i: dict(v) for i, v in d.items()} for l, d in trm.items()}
        it.reset([])
        sk = Obj(scls, {"_translations": trm}, name="survey")
        try:
            it.call_function(pad, [sk], {}, None, pad.node)
        except Raised as e:
            n_bad += 1
            first_bad = first_bad or f"mask {mask:08b}: raises {e.exc_name}"
            continue
        n_maps += 1
        all_ids = set(before["en"]) | set(before["fr"])
        ok = set(trm["en"]) == set(trm["fr"]) == all_ids
        for i in all_ids:
            forms = set(before["en"].get(i, {})) | set(before["fr"].get(i, {}))
            for l in ("en", "fr"):
                got = trm[l].get(i, {})
                ok = ok and {k for k in got if k in FORMS} == forms
                for f in forms:
                    want = before[l].get(i, {}).get(f, "-")
                    ok = ok and got.get(f) == want
        if not ok:
            n_bad += 1
            first_bad = first_bad or f"mask {mask:08b}: before {before} after {trm}"
    r3.check(n_bad == 0 and n_maps == 1 << len(cells), "_add_empty_translations[all 256 presence patterns]",
             "after padding both languages hold the same ids and forms; existing values untouched, missing ones are '-'", pad.loc(), why_fail=f"{n_bad} patterns fail, e.g. {first_bad}"[:300])
    xm = scls.methods["xml_model"]
    order = []
    mh = {"fnname:node": node_hook, "fnname:_setup_translations": lambda i, a, k, n: order.append("t"), "fnname:_setup_media": lambda i, a, k, n: order.append("m"),
          "fnname:_add_empty_translations": lambda i, a, k, n: order.append("p"), "fnname:itext": lambda i, a, k, n: (order.append("i"), NodeVal("itext"))[1],
          "fnname:xml_instance": lambda i, a, k, n: NodeVal("data"), "fnname:_generate_instances": lambda i, a, k, n: GenList([]),
          "fnname:xml_descendent_bindings": lambda i, a, k, n: GenList([]), "fnname:xml_actions": lambda i, a, k, n: GenList([])}
    it = ctx.interp("C07.R3", hooks=mh)
    it.reset([])
    so = Obj(scls, {"_translations": {"en": {}}, "entity_features": None, "submission_url": None, "public_key": None, "auto_send": None, "auto_delete": None}, name="survey")
    it.call_function(xm, [so], {}, None, xm.node)
    r3.check(order == ["t", "m", "p", "i"], "xml_model:order", "collect translations, collect media, pad, then serialise the itext block", xm.loc(), why_fail=f"{order}")
    rules.append(r3)

    # ------------------------------------------------------------------ R4 serialiser / default marking
    r4 = Rule("C07", "C07.R4", "itext serialiser: one translation per language, one text per id, default marked once", floor=5,
              necessary="a duplicated language/id, or two defaults, makes the itext block ambiguous")
    itx = scls.methods["itext"]
    for dl, exp_default, l1, l2 in (("fr", ["fr"], "en", "fr"), ("default", [], "en", "fr"), ("en", ["en"], "en", "fr"),
                                    ("fr", ["fr"], "default", "fr"), ("default", ["default"], "default", "fr"), ("", [], "en", "fr"),
                                    # translation names differing only in case / spacing are different translations: one default at most
                                    ("english", ["english"], "english", "English"), ("English (en)", ["English (en)"], "English(en)", "English (en)")):
        it = ctx.interp("C07.R4", hooks={"fnname:node": node_hook, "fnname:insert_output_values": lambda i, a, k, n: (([x for x in a if isinstance(x, str)] or ["?"])[0], False)})
        it.reset([])
        tr = {l1: {"/d/q:label": {"long": "x", "type": "question"}, "l-0": {"long": "A", "image": "a.png", "audio": "-"}},
              l2: {"/d/q:label": {"long": "y", "type": "question"}, "l-0": {"long": "-", "image": "-", "audio": "-"}}}
        so = Obj(scls, {"_translations": tr, "default_language": dl}, name="survey")
        res = it.call_function(itx, [so], {}, None, itx.node)
        ok = isinstance(res, NodeVal) and res.tag == "itext"
        langs = [c.attrs.get("lang") for c in res.children] if ok else []
        defaults = [c.attrs.get("lang") for c in res.children if c.attrs.get("default") == "true()"] if ok else []
        r4.check(ok and langs == [l1, l2] and defaults == exp_default, f"itext[default_language={dl!r}, languages={l1},{l2}]", f"one translation per language, default marked on {exp_default}", itx.loc(),
                 why_fail=f"langs={langs} defaults={defaults}")
        if ok:
            for c in res.children:
                tids = [t.attrs.get("id") for t in c.children]
                r4.check(tids == ["/d/q:label", "l-0"] and all(t.tag == "text" for t in c.children), f"itext[default_language={dl!r}, languages={l1},{l2}]:{c.attrs.get('lang')}", "one text element per id", itx.loc(), why_fail=f"{tids}")
    # the same wording in several languages (untranslated copies, names, a bare ${reference}): each translation still gets
    # its own text element (a DOM node has one parent - a node built once and appended twice ends up in the last only)
    for desc, v1, v2 in (("identical plain texts", "Same", "Same"), ("identical texts with a reference", "Hello ${p}", "Hello ${p}"), ("a bare reference in both", "${p}", "${p}"),
                         ("identical hint and guidance with references", {"long": "H ${p}", "guidance": "G ${p}"}, {"long": "H ${p}", "guidance": "G ${p}"})):
        it = ctx.interp("C07.R4", hooks={"fnname:node": node_hook, "fnname:insert_output_values": lambda i, a, k, n: ((lambda t: (t, "${" in t))(([x for x in a if isinstance(x, str)] or ["?"])[0]))})
        it.reset([])
        e1 = dict(v1) if isinstance(v1, dict) else {"long": v1}
        e2 = dict(v2) if isinstance(v2, dict) else {"long": v2}
        tr = {"en": {"/d/q:label": dict(e1, type="question") if "guidance" not in e1 else {"long": "L", "type": "question"}, "/d/q:hint": dict(e1), "l-0": dict(e1)},
              "fr": {"/d/q:label": dict(e2, type="question") if "guidance" not in e2 else {"long": "L", "type": "question"}, "/d/q:hint": dict(e2), "l-0": dict(e2)}}
        so = Obj(scls, {"_translations": tr, "default_language": "en"}, name="survey")
        try:
            res = it.call_function(itx, [so], {}, None, itx.node)
            per_lang = {c.attrs.get("lang"): [t.attrs.get("id") for t in c.children if isinstance(t, NodeVal)] for c in res.children} if isinstance(res, NodeVal) else None
        except Raised as e:
            per_lang = f"raises {e.exc_name}{e.exc_args}"
        r4.check(per_lang == {"en": ["/d/q:label", "/d/q:hint", "l-0"], "fr": ["/d/q:label", "/d/q:hint", "l-0"]}, f"itext[{desc}]", "every translation holds a text element for every id", itx.loc(), why_fail=repr(per_lang)[:200])
    rules.append(r4)

    # ------------------------------------------------------------------ R5 sentinel
    r5 = Rule("C07", "C07.R5", "placeholder sentinel is the same literal at the padder, the substituter short-circuit and the media filter", floor=3,
              necessary="a padder writing another placeholder would be substituted/serialised as real text or media")
    def consts_in(fn, kind):
        out = set()
        for x in walk_own(fn.node):
            if kind == "assign" and isinstance(x, ast.Assign) and isinstance(x.value, ast.Constant) and isinstance(x.value.value, str):
                out.add(x.value.value)
            if kind == "compare" and isinstance(x, ast.Compare):
                for c in x.comparators:
                    if isinstance(c, ast.Constant) and isinstance(c.value, str) and len(c.value) <= 2:
                        out.add(c.value)
        return out
    p_lit = consts_in(pad, "assign")
    s_lit = consts_in(scls.methods["insert_output_values"], "compare")
    m_lit = consts_in(itx, "compare")
    r5.check(len(p_lit) == 1, "padder literal", "the padder stores one literal", pad.loc(), why_fail=repr(p_lit))
    r5.check(p_lit <= s_lit, "substituter short-circuit", "insert_output_values leaves the placeholder untouched", scls.methods["insert_output_values"].loc(), why_fail=f"{p_lit} vs {s_lit}")
    r5.check(p_lit <= m_lit, "media filter", "the itext serialiser skips media values equal to the placeholder", itx.loc(), why_fail=f"{p_lit} vs {m_lit}")
    rules.append(r5)

    # ------------------------------------------------------------------ R1 choice ids
    r1 = Rule("C07", "C07.R1", "choice itext ids agree across instance items, registration and search redirect", floor=4,
              necessary="itextId values and jr:itext ids built differently do not resolve")
    ocls = repo.cls("pyxform.question:Option")
    icls = repo.cls("pyxform.question:Itemset")
    opts = tuple(_mk(ctx, ocls, f"o{i}", label={"en": f"L{i}"}, media=None) for i in range(3))
    itemset = Obj(icls, {"name": "lst", "options": opts, "requires_itext": True, "used_by_search": False}, name="itemset")
    it = ctx.interp("C07.R1", hooks={"fnname:node": node_hook, "new:InstanceInfo": lambda i, a, k, n: dict(k)})
    it.reset([])
    so = survey_obj([], choices={"lst": itemset})
    info = it.call_function(scls.methods["_generate_static_instances"], [so], {"list_name": "lst", "itemset": itemset}, None, None)
    inst = info.get("instance") if isinstance(info, dict) else None
    item_ids = []
    if isinstance(inst, NodeVal) and inst.children:
        for item in inst.children[0].children:
            for ch in item.children:
                if isinstance(ch, NodeVal) and ch.tag == "itextId":
                    item_ids.append(ch.text)
    ids, tr = registered(so, {"data": "/data"})
    r1.check(item_ids == ["lst-0", "lst-1", "lst-2"] and set(item_ids) <= ids, "choice ids:instance vs registration",
             "itextId of every item equals a registered text id (<list>-<index>, same enumeration)", scls.methods["_generate_static_instances"].loc(),
             why_fail=f"items {item_ids} registered {sorted(ids)}")
    r1.check(isinstance(inst, NodeVal) and inst.attrs.get("id") == "lst", "choice instance id", "the secondary instance id is the list name", scls.methods["_generate_static_instances"].loc())
    # each labelled choice finds ITS OWN label under the id its item carries, per language - also after a choice that
    # has no label at all (ids are positions in the full list, on both sides)
    opts_m = (_mk(ctx, ocls, "m0", label={"en": "A", "fr": "Af"}, media=None), _mk(ctx, ocls, "m1", label=None, media=None),
              _mk(ctx, ocls, "m2", label={"en": "C", "fr": "Cf"}, media={"image": {"en": "c.png"}}), _mk(ctx, ocls, "m3", label={"en": "D"}, media=None))
    itemset_m = Obj(icls, {"name": "lm", "options": opts_m, "requires_itext": True, "used_by_search": False}, name="itemset_m")
    so_m = survey_obj([], choices={"lm": itemset_m})
    it.reset([])
    info_m = it.call_function(scls.methods["_generate_static_instances"], [so_m], {"list_name": "lm", "itemset": itemset_m}, None, None)
    inst_m = info_m.get("instance") if isinstance(info_m, dict) else None
    item_id = {}
    if isinstance(inst_m, NodeVal) and inst_m.children:
        for item in inst_m.children[0].children:
            nm_ = next((ch.text for ch in item.children if isinstance(ch, NodeVal) and ch.tag == "name"), None)
            id_ = next((ch.text for ch in item.children if isinstance(ch, NodeVal) and ch.tag == "itextId"), None)
            item_id[nm_] = id_
    _ids_m, tr_m = registered(so_m, {"data": "/data"})
    wrong = []
    for o in opts_m:
        lab = o.attrs.get("label")
        if not isinstance(lab, dict):
            continue
        for lang_, text_ in lab.items():
            got_ = ((tr_m.get(lang_) or {}).get(item_id.get(o.name)) or {}).get("long")
            if got_ != text_:
                wrong.append(f"{o.name}[{lang_}]: item id {item_id.get(o.name)} shows {got_!r}, written {text_!r}")
    r1.check(not wrong and len(item_id) == 4, "choice texts under their own id", "every labelled choice is shown its own label in every language it was written for (ids are positions in the whole list)",
             scls.methods["_setup_translations"].loc(), why_fail="; ".join(wrong[:3]))
    # a translated list with a choice that has no label (allowed, with a warning): its itextId must still resolve
    opts_u = (_mk(ctx, ocls, "o0", label={"en": "L0", "fr": "L0f"}, media=None), _mk(ctx, ocls, "o1", label=None, media=None))
    itemset_u = Obj(icls, {"name": "lu", "options": opts_u, "requires_itext": True, "used_by_search": False}, name="itemset_u")
    so_u = survey_obj([], choices={"lu": itemset_u})
    it.reset([])
    info_u = it.call_function(scls.methods["_generate_static_instances"], [so_u], {"list_name": "lu", "itemset": itemset_u}, None, None)
    inst_u = info_u.get("instance") if isinstance(info_u, dict) else None
    ids_items = [ch.text for item in inst_u.children[0].children for ch in item.children if isinstance(ch, NodeVal) and ch.tag == "itextId"] if isinstance(inst_u, NodeVal) and inst_u.children else []
    ids_u, _tr_u = registered(so_u, {"data": "/data"})
    r1.check(set(ids_items) <= ids_u, "choice ids:unlabeled choice in a translated list", "every itextId carried by an item names a registered text id, also for a choice without a label",
             scls.methods["_setup_translations"].loc(), why_fail=f"items {ids_items} registered {sorted(ids_u)}")
    # search redirect
    mq = repo.cls("pyxform.question:MultipleChoiceQuestion")
    el = _mk(ctx, mq, "s1", control={"appearance": "search('x')"}, itemset="lst", choices=itemset, list_name="lst", type="select one")
    it.reset([])
    res = it.call_function(scls.methods["_redirect_is_search_itext"], [so], {"element": el}, None, None)
    refs = [o.attrs.get("_choice_itext_ref") for o in opts]
    r1.check(res is True and refs == [f"jr:itext('lst-{i}')" for i in range(3)], "choice ids:search redirect", "inline search items reference the same ids", scls.methods["_redirect_is_search_itext"].loc(),
             why_fail=f"{refs}")
    # itemset label ref when itext is required
    mb = mq.methods["build_xml"]
    lits = {n.value for n in ast.walk(mb.node) if isinstance(n, ast.Constant) and isinstance(n.value, str)}
    r1.check("jr:itext(itextId)" in lits, "itemset label ref", "itemset labels resolve through the item's itextId child", mb.loc())
    # the same atom (`requires_itext`) guards emission and registration: evaluated with the atom false, neither the
    # itextId children nor any registered text id may appear (with the atom true both did, above)
    opts0 = tuple(_mk(ctx, ocls, f"o{i}", label=f"L{i}", media=None) for i in range(3))
    itemset0 = Obj(icls, {"name": "lst", "options": opts0, "requires_itext": False, "used_by_search": False}, name="itemset")
    it.reset([])
    so0 = survey_obj([], choices={"lst": itemset0})
    info0 = it.call_function(scls.methods["_generate_static_instances"], [so0], {"list_name": "lst", "itemset": itemset0}, None, None)
    inst0 = info0.get("instance") if isinstance(info0, dict) else None
    tags0 = [[ch.tag for ch in item.children if isinstance(ch, NodeVal)] for item in inst0.children[0].children] if isinstance(inst0, NodeVal) and inst0.children else None
    r1.check(tags0 is not None and len(tags0) == 3 and all("itextId" not in t and "label" in t for t in tags0), "itextId guard",
             "without requires_itext the items carry an inline label and no itextId (emission follows the atom that guards registration)",
             scls.methods["_generate_static_instances"].loc(), why_fail=f"{tags0}")
    ids0, _tr0 = registered(so0, {"data": "/data"})
    r1.check(not ids0, "registration guard", "choice texts are registered only under the same requires_itext atom", scls.methods["_setup_translations"].loc(), why_fail=f"{sorted(ids0)}")
    # the in-line items of a search() select: redirect, then build the control, with the atom false and true.  Every
    # jr:itext reference an item label carries must be a registered id (none is registered when the atom is false).
    for atom in (False, True):
        # (with itext: one choice has per-language labels, the other a plain label plus an image - the list as a whole is shown through itext)
        opts_s = (_mk(ctx, ocls, "o0", label=({"en": "L0", "fr": "M0"} if atom else "L0"), media=None),
                  _mk(ctx, ocls, "o1", label="L1", media=({"image": "x.png"} if atom else None)))
        iset_s = Obj(icls, {"name": "ls", "options": opts_s, "requires_itext": atom, "used_by_search": False}, name="itemset_s")
        so_s = survey_obj([], choices={"ls": iset_s})
        el_s = _mk(ctx, mq, "s1", control={"appearance": "search('x')"}, itemset="ls", choices=iset_s, list_name="ls", type="select one", bind={"type": "string"},
                   label="S", choice_filter=None, parameters=None)
        its = ctx.interp("C07.R1", hooks={"fnname:node": node_hook, "fnname:_build_xml": lambda i, a, k, n: NodeVal("select1"),
                                           "fnname:insert_output_values": lambda i, a, k, n: (a[-2] if len(a) >= 2 else a[0], False)})
        its.reset([])
        try:
            its.call_function(scls.methods["_redirect_is_search_itext"], [so_s], {"element": el_s}, None, None)
            ctl = its.call_function(mb, [el_s], {"survey": so_s}, None, mb.node)
            labels = [ch for item in (ctl.children if isinstance(ctl, NodeVal) else []) if isinstance(item, NodeVal) and item.tag == "item"
                      for ch in item.children if isinstance(ch, NodeVal) and ch.tag == "label"]
            refs_s = [str(l.attrs.get("ref")) for l in labels if l.attrs.get("ref")]
            err = None
        except Raised as e:
            refs_s, labels, err = [], [], f"raises {e.exc_name}{e.exc_args}"
        ids_s, _tr_s = registered(so_s, {"data": "/data"})
        dangling = [r_ for r_ in refs_s if r_.replace("jr:itext('", "").replace("')", "") not in ids_s]
        r1.check(err is None and len(labels) == 2 and not dangling and (len(refs_s) == (2 if atom else 0)), f"search() in-line items[requires_itext={atom}]",
                 "item labels reference itext exactly when the list's texts are registered; otherwise the label text is written in-line", mb.loc(),
                 why_fail=err or f"label refs {refs_s} registered ids {sorted(ids_s)}")
    rules.append(r1)

    # ------------------------------------------------------------------ R6 traversal coverage
    r6 = Rule("C07", "C07.R6", "classes that can emit an itext reference are visited by the registration traversals", floor=3,
              necessary="an element class emitting jr:itext but never visited by the collectors always dangles")
    emit_methods = {"xml_label", "xml_hint", "xml_label_and_hint"}
    visited_roots = set()
    for fn in (scls.methods["_setup_translations"], scls.methods["_setup_media"]):
        for c in walk_own(fn.node):
            if isinstance(c, ast.Call) and call_name(c) == "iter_descendants":
                deep = any(k.arg == "iter_into_section_items" and const_str(ctx, fn.module, k.value) == (True, True) for k in c.keywords)
                for n in ast.walk(c):
                    if isinstance(n, ast.Name):
                        r = repo.resolve_name(fn.module, n.id)
                        if r and r[0] == "class":
                            visited_roots.add((r[1].fq, deep))
    vis_names = {fq for fq, deep in visited_roots}
    for ci in repo.all_classes():
        if not any(k.name == "SurveyElement" for k in it0.mro(ci)) or ci.name == "SurveyElement":
            continue
        calls_emit = False
        for m in ci.methods.values():
            for c in walk_own(m.node):
                if isinstance(c, ast.Call) and call_name(c) in emit_methods and isinstance(c.func, ast.Attribute) and isinstance(c.func.value, ast.Name) and c.func.value.id == "self":
                    calls_emit = True
        if not calls_emit:
            continue
        covered = any(k.fq in vis_names for k in it0.mro(ci))
        r6.check(covered, f"class {ci.name}", "instances are visited by _setup_translations/_setup_media (Question | Section traversal)", ci.module.relpath,
                 why_fail="emits jr:itext via xml_label but is neither a Question nor a Section, and the collectors do not iterate into section items")
    rules.append(r6)
    rules.append(_tree_rule(ctx))
    rules.append(_itemset_identity_rule(ctx))
    return rules


def _itemset_identity_rule(ctx):
    """The registrars (and the instance generator) reach choice lists through the survey's own table only; a choice list
    object that exists anywhere else (a question-private copy) has its itext ids emitted by the question and its items
    registered by nobody.  Who-may-construct: every construction of the choice-list class ends up in Survey.choices, and
    every write of a question's `choices` slot stores a value it was handed (never one it built)."""
    r = Rule("C07", "C07.R8", "choice lists exist only in the survey's table (the registrars' only source)", floor=3,
             necessary="a question-private choice list emits jr:itext ids that _setup_translations, walking Survey.choices, never registers")
    repo = ctx.repo
    scls = repo.cls("pyxform.survey:Survey")
    st = scls.methods["_setup_translations"]
    # the registrar's source of choice lists: attribute reads of `.choices` inside _setup_translations are all on self
    srcs = [n for n in ast.walk(st.node) if isinstance(n, ast.Attribute) and n.attr == "choices"]
    r.check(bool(srcs) and all(isinstance(n.value, ast.Name) and n.value.id == "self" for n in srcs), "Survey._setup_translations", "choice texts are collected from the survey's own table (self.choices)", st.loc(),
            why_fail="reads another `.choices`: " + ", ".join(norm(n) for n in srcs if not (isinstance(n.value, ast.Name) and n.value.id == "self")))
    ctor_sites = []
    for fi in repo.all_functions():
        for c in walk_own(fi.node):
            if isinstance(c, ast.Call) and call_name(c) == "Itemset" and isinstance(c.func, ast.Name):
                ctor_sites.append((fi, c))
    for fi, c in ctor_sites:
        stmt = _stmt_of(fi.node, c)
        ok = False
        why = ""
        tgt = None
        if isinstance(stmt, ast.Assign | ast.AnnAssign):
            tgts = stmt.targets if isinstance(stmt, ast.Assign) else [stmt.target]
            tgt = tgts[0]
            root = tgt
            while isinstance(root, ast.Subscript):
                root = root.value
            if isinstance(root, ast.Attribute) and root.attr == "choices" and isinstance(root.value, ast.Name) and root.value.id == "self" and fi.cls is not None and any(k.name == "Survey" for k in ctx.interp("C07.R8").mro(fi.cls)):
                ok = True
            elif isinstance(root, ast.Name):
                # a local table that is then stored in self.choices of the survey, or returned to a caller that stores it
                nm = root.id
                for n in ast.walk(fi.node):
                    if isinstance(n, ast.Assign) and any(isinstance(t, ast.Attribute) and t.attr == "choices" and isinstance(t.value, ast.Name) and t.value.id == "self" for t in n.targets) and nm in {x.id for x in ast.walk(n.value) if isinstance(x, ast.Name)} and fi.cls is not None and fi.cls.name == "Survey":
                        ok = True
                    if isinstance(n, ast.Return) and n.value is not None and nm in {x.id for x in ast.walk(n.value) if isinstance(x, ast.Name)}:
                        ok = _all_callers_store(ctx, fi)
        elif isinstance(stmt, ast.Return):
            ok = _all_callers_store(ctx, fi)
        if not ok:
            why = f"`{norm(stmt)[:120]}` in {fi.qualname} keeps the new choice list outside Survey.choices"
        r.check(ok, f"Itemset(...) in {fi.qualname}", "the constructed choice list is stored in Survey.choices", fi.loc(c), why_fail=why)
    r.check(bool(ctor_sites), "Itemset construction sites", "at least one construction site found", "pyxform/survey.py")
    return r


def _stmt_of(fn_node, node):
    best = None
    for s in ast.walk(fn_node):
        if isinstance(s, ast.stmt) and s is not fn_node and any(x is node for x in ast.walk(s)):
            if best is None or any(x is s for x in ast.walk(best)):
                best = s
    return best


def _all_callers_store(ctx, fi):
    found = False
    for g in ctx.repo.all_functions():
        for s in ast.walk(g.node):
            if isinstance(s, ast.Call) and call_name(s) == fi.name:
                st = _stmt_of(g.node, s)
                if not (isinstance(st, ast.Assign) and any(isinstance(t, ast.Attribute) and t.attr == "choices" and isinstance(t.value, ast.Name) and t.value.id == "self" for t in st.targets) and g.cls is not None and g.cls.name == "Survey"):
                    return False
                found = True
    return found


ITEXT_TREES = {
    "same name in two groups, media-only labels": ("data", [("g", "g1", [("q", "photo", {"label": None, "media": {"image": "a.png"}})]),
                                                            ("g", "g2", [("q", "photo", {"label": None, "media": {"image": {"en": "b.png"}}})])]),
    "same name in two groups, translated labels": ("data", [("g", "g1", [("q", "age", {"label": {"en": "Age", "fr": "Âge"}})]),
                                                            ("r", "r1", [("q", "age", {"label": {"en": "Age 2"}, "hint": {"en": "H"}})])]),
    "group and question share a name across levels": ("data", [("g", "visit", [("q", "date", {"label": {"en": "D"}})], {"label": {"en": "Visit"}}),
                                                                ("g", "g2", [("q", "visit", {"label": {"en": "Visit?"}, "media": {"audio": "v.mp3"}})])]),
    "nested groups and a repeat, every element translated": ("data", [("g", "a", [("g", "b", [("q", "c", {"label": {"en": "C"}, "guidance_hint": {"en": "G"}, "hint": {"en": "h"}})], {"label": {"en": "B"}})], {"label": {"en": "A"}}),
                                                                     ("r", "r", [("q", "d", {"label": "plain", "media": {"video": "d.mp4"}})], {"label": {"en": "R"}})]),
}


def _tree_rule(ctx):
    """emit => register on whole trees, with the real traversals and the real path function (no per-element stubs): the
    name map, the two collectors and every element's label / hint emitters are evaluated on small trees in which names
    repeat across groups; every jr:itext id emitted anywhere in the tree must be a registered text id."""
    from .. import trees
    r = Rule("C07", "C07.R7", "emit => register on whole trees (names repeated across groups, media-only labels)", floor=12,
             necessary="a collector that reaches elements by name (or skips some) leaves the references of the others dangling")
    repo = ctx.repo
    scls = repo.cls("pyxform.survey:Survey")
    se = repo.cls("pyxform.survey_element:SurveyElement")
    hooks = {k: v for k, v in _hooks({}).items() if k != "fnname:get_xpath"}
    for tname, spec in ITEXT_TREES.items():
        survey, _by, everything = trees.build(ctx, spec, {"default_language": "default", "choices": None})
        it = ctx.interp("C07.R7", hooks=hooks)
        it.reset([])
        rd = it.call(it.module_global(repo.module("pyxform.survey"), "recursive_dict"), [], {}, None)
        survey.attrs["_translations"] = rd
        try:
            it.call_function(scls.methods["_setup_xpath_dictionary"], [survey], {}, None, None)
            it.call_function(scls.methods["_setup_translations"], [survey], {}, None, None)
            it.call_function(scls.methods["_setup_media"], [survey], {}, None, None)
        except Raised as e:
            r.fail(f"tree[{tname}]", f"name map and collectors evaluate ({e.exc_name}{e.exc_args})", scls.methods["_setup_media"].loc())
            continue
        ids = set()
        for _lang, d in survey.attrs["_translations"].items():
            ids |= set(d.keys())
        for el in everything:
            path = "/".join(x.name for x in reversed([el] + _ancestors(el)))
            try:
                if el.attrs.get("children") is None:
                    nodes = it.call_function(se.methods["xml_label_and_hint"], [el], {"survey": survey}, None, None)
                else:
                    nodes = [it.call_function(se.methods["xml_label"], [el], {"survey": survey}, None, None)]
            except Raised as e:
                if "PyXFormError" in e.mro:
                    continue
                r.fail(f"tree[{tname}] /{path}", f"emitters evaluate ({e.exc_name}{e.exc_args})", "pyxform/survey_element.py")
                continue
            em = _emitted([n for n in nodes if n is not None])
            r.check(em <= ids, f"tree[{tname}] /{path}", "every itext id this element's label / hint references is registered", scls.methods["_setup_media"].loc(),
                    why_fail=f"dangling {sorted(em - ids)}; registered {sorted(ids)[:6]}")
    return r


def _ancestors(el):
    out = []
    p = el.attrs.get("parent")
    while p is not None:
        out.append(p)
        p = p.attrs.get("parent")
    return out
