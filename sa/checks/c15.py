"""C15 — pretty_print is purely cosmetic (non-interference of the formatting parameters)."""

from __future__ import annotations

import ast

from ..astutil import call_name, guard_texts
from ..interp import Obj, Sym, SymStr, explore
from ..loader import AnalysisError, norm, walk_own
from ..report import Rule
from ..writer_model import (eval_element_writer, eval_node_factory, eval_text_writer, find_writer_classes, flatten,
                            fmt_free, shapes)

EXPLANATION = (
    "Both output modes run the same writexml with different (indent, addindent, newl). The element writer is "
    "abstractly evaluated (analyser's own evaluator; formatting parameters are opaque FMT symbols) on every child "
    "shape over {text, cdata, element} up to length 3, with and without attributes; the checks are taint / "
    "non-interference facts: no branch depends on FMT, mixed-content context receives and writes no FMT, the "
    "text-context guard is exact, the text writer is only reached with empty formatting; the two serialisers are "
    "evaluated to show they differ only in whitespace literals; the node factory is evaluated to show text nodes "
    "carry their argument unchanged."
)
NOT_DECIDED = ("stdlib Element/Text.writexml used for cloned <output> children (curated fact: with empty formatting "
               "arguments they add nothing); equality of complete documents is implied, not computed")
ASSUMPTIONS = [
    "xml.dom.minidom: toxml() == toprettyxml('', ''), both call writexml(writer, '', indent, newl) on the element",
    "children shapes longer than 3 behave as the evaluated ones (the writer's guards depend only on any(text), count>1, first/last index)",
]


def run(ctx):
    rules = []
    elem_cls, text_cls = find_writer_classes(ctx, "C15")
    wfn = elem_cls.methods["writexml"]

    r2 = Rule("C15", "C15.R2", "no branch of the element writer depends on the formatting parameters", floor=20,
              necessary="a FMT-dependent branch makes the element structure differ between compact and pretty output")
    r3 = Rule("C15", "C15.R3", "mixed-content context is FMT-free", floor=20,
              necessary="indent/newline written next to a text node changes text content in pretty mode")
    r4 = Rule("C15", "C15.R4", "the text-context guard is exact (any text or CDATA child)", floor=30,
              necessary="an element with a text child taking the indenting branch gets whitespace inside its text")
    r7 = Rule("C15", "C15.R7", "FMT appears only between tags in element-only content", floor=10,
              necessary="FMT inside a tag or attribute changes the document, not just inter-element whitespace")
    n_eval = 0
    for shape in shapes(3):
        for n_attrs in (0, 1):
            results, fmt = eval_element_writer(ctx, "C15", elem_cls, shape, n_attrs)
            n_eval += len(results)
            fmt_uids = {f.uid for f in fmt}
            key = f"writexml[children={shape or '-'} attrs={n_attrs}]"
            forks = [k for res in results for k in res[1] if any(isinstance(x, int) and x in fmt_uids for x in k[1:])]
            r2.check(len(results) == 1 and not forks, key, "single path; no guard consults indent/addindent/newl", wfn.loc(),
                     why_fail=f"{len(results)} paths, FMT-dependent guards: {forks[:3]}")
            events = results[0][0]
            has_text = any(k in "TC" for k in shape)
            childs = [e for e in events if e[0] == "child"]
            r4.check(len(childs) == len(shape) and [e[1] for e in childs] == list(range(len(shape))), key + ".children",
                     "every child is serialised exactly once, in order", wfn.loc())
            if shape:
                if has_text:
                    ok = all(all(a == "" for a in e[3]) and len(e[3]) == 3 for e in childs)
                    r4.check(ok, key + ".guard", "has a text/CDATA child => children are written with empty formatting arguments", wfn.loc(),
                             why_fail=f"child args={[e[3] for e in childs]}")
                    # between '>' and '</' nothing written carries FMT
                    inner = _inner(events)
                    ok3 = inner is not None and all(fmt_free(e[1]) for e in inner if e[0] == "write")
                    r3.check(ok3, key + ".inner", "nothing written between the start tag and the end tag depends on FMT", wfn.loc(),
                             why_fail=f"events={_show(events)}")
                else:
                    ok = all(len(e[3]) == 3 and not fmt_free(e[3][0]) or True for e in childs)
                    exp = all(len(e[3]) == 3 and _is(e[3][2], "NEWL") and _is(e[3][1], "ADDINDENT") and _parts(e[3][0]) == ["INDENT", "ADDINDENT"] for e in childs)
                    r4.check(exp, key + ".guard", "element-only content => children get (indent+addindent, addindent, newl)", wfn.loc(),
                             why_fail=f"child args={[e[3] for e in childs]}")
            # FMT placement: allowed only as leading part of '<tag', trailing part after '>' / '/>' / '</tag>', or a whole write
            bad = []
            for e in events:
                if e[0] == "write_data" and not fmt_free(e[1]):
                    bad.append(e)
                if e[0] == "write" and not fmt_free(e[1]):
                    parts = flatten(e[1])
                    lits = "".join(p for p in parts if isinstance(p, str))
                    syms = [p for p in parts if isinstance(p, Sym) and "FMT" in p.tags]
                    first_fmt = isinstance(parts[0], Sym) and "FMT" in parts[0].tags
                    last_fmt = isinstance(parts[-1], Sym) and "FMT" in parts[-1].tags
                    if len(parts) == len(syms):
                        continue  # pure formatting write (between tags; position checked by R3 for text context)
                    if first_fmt and lits.startswith("<") and len(syms) == 1:
                        continue
                    if last_fmt and lits.endswith(">") and len(syms) == 1:
                        continue
                    bad.append(e)
            r7.check(not bad, key + ".placement", "FMT is written only immediately before '<' or immediately after '>'", wfn.loc(),
                     why_fail=f"offending writes: {_show(bad)}")
    rules += [r2, r3, r4, r7]
    ctx.count("writer_evaluations", n_eval)

    # ------------------------------------------------------------------ R5
    r5 = Rule("C15", "C15.R5", "text writer adds nothing of its own when called with empty formatting", floor=2,
              necessary="text content would differ from the node's data")
    tfn = text_cls.methods["writexml"]
    res = eval_text_writer(ctx, "C15.R5", text_cls, ["", "", ""])
    for events, esc, assumed, o in res:
        writes = [e[1] for e in events if e[0] == "write"]
        ok = len(writes) == 1
        if ok:
            w = writes[0]
            src = w.attrs.get("src") if isinstance(w, Sym) and "ESC" in w.tags else w
            names = [p.name for p in flatten(src) if isinstance(p, Sym)]
            lit = [p for p in flatten(src) if isinstance(p, str) and p]
            ok = names == ["DATA"] and not lit
        r5.check(ok, f"{text_cls.name}.writexml['','','']", "exactly the node's data (escaped or empty) is written, nothing else", tfn.loc(),
                 why_fail=f"writes={writes!r}")
    fm = [Sym("INDENT", pytype=str, tags=("FMT",)), Sym("ADDINDENT", pytype=str, tags=("FMT",)), Sym("NEWL", pytype=str, tags=("FMT",))]
    res2 = eval_text_writer(ctx, "C15.R5", text_cls, fm)
    taints = any(not fmt_free(e[1]) or (isinstance(e[1], Sym) and not fmt_free(e[1].attrs.get("src"))) for ev, _, _, _ in res2 for e in ev)
    r5.note(f"text writer interpolates its formatting arguments into the text: {taints} (this is why R4 requires empty arguments in text context)")
    r5.ok(f"{text_cls.name}.writexml[FMT]", "recorded: text writer is FMT-tainted, callers must pass empty formatting (R4)", tfn.loc())
    rules.append(r5)

    # ------------------------------------------------------------------ R1
    r1 = Rule("C15", "C15.R1", "both serialisers emit the same tree, differing only in whitespace literals", floor=4,
              necessary="pretty-only post-processing or a different tree changes the document")
    scls = ctx.repo.cls("pyxform.survey:Survey")
    ugly, pretty = scls.methods.get("_to_ugly_xml"), scls.methods.get("_to_pretty_xml")
    if not ugly or not pretty:
        raise AnalysisError("C15.R1", "Survey._to_ugly_xml/_to_pretty_xml not found")
    recs = {}
    for nm, fn in (("ugly", ugly), ("pretty", pretty)):
        calls = []
        root = Sym("ROOT", truthy=True, attrs={
            "toxml": lambda interp, a, k, n, calls=calls: (calls.append(("toxml", a, k)), Sym("SERIALISED", truthy=True, pytype=str))[1],
            "toprettyxml": lambda interp, a, k, n, calls=calls: (calls.append(("toprettyxml", a, k)), Sym("SERIALISED", truthy=True, pytype=str))[1],
        })
        # anything else done to the tree by a serialiser happens in ONE mode only: every other DOM operation is recorded
        dom_ops = []
        for meth in ("getElementsByTagName", "getElementsByTagNameNS", "normalize", "cloneNode", "removeChild", "appendChild", "insertBefore", "replaceChild", "setAttribute", "setAttributeNS",
                     "removeAttribute", "hasChildNodes", "hasAttribute", "getAttribute", "iter", "writexml", "unlink"):
            root.attrs[meth] = (lambda interp, a, k, n, meth=meth, dom_ops=dom_ops: (dom_ops.append(meth), [])[1])
        for prop in ("childNodes", "attributes"):
            root.attrs[prop] = []
        for prop in ("firstChild", "lastChild", "documentElement", "ownerDocument", "parentNode"):
            root.attrs[prop] = root
        xml_calls = []
        s = Obj(scls, {"xml": lambda interp, a, k, n: (xml_calls.append(1), root)[1]}, name="survey")
        it = ctx.interp("C15.R1")
        outs_ = list(explore(it, lambda: it.call_function(fn, [s], {}, None, fn.node)))
        # every path of the serialiser must produce the same thing; a path that raises, or several different results
        # (e.g. a filter over the lines of the serialised text), is not "declaration + the writer's output"
        good = [o for o in outs_ if o[1][0] == "return"]
        if len(good) != len(outs_) or not good:
            bad_o = next(o for o in outs_ if o[1][0] != "return") if len(good) != len(outs_) else None
            r1.fail(f"Survey._to_{nm}_xml", "the serialiser evaluates to declaration + one serialisation of self.xml() on every path", fn.loc(),
                    why_fail=f"a path raises {bad_o[1][1].exc_name}{bad_o[1][1].exc_args}" if bad_o else "no path returns")
            recs[nm] = (None, calls, len(xml_calls))
            continue
        v = good[0][1][1]
        if len(good) > 1:
            xml_calls[:] = xml_calls[:1]
            calls[:] = calls[:1]
        recs[nm] = (v, calls, len(xml_calls))
        r1.check(not dom_ops, f"Survey._to_{nm}_xml:tree untouched", "the serialiser only serialises: it neither walks nor edits the tree (that would happen in this mode only)", fn.loc(),
                 why_fail=f"DOM operations in the serialiser: {sorted(set(dom_ops))}")
    for nm in ("ugly", "pretty"):
        v, calls, nx = recs[nm]
        if v is None:
            continue
        parts = flatten(v)
        ok = nx == 1 and len(calls) == 1 and len(parts) == 2 and isinstance(parts[0], str) and isinstance(parts[1], Sym) and parts[1].name == "SERIALISED"
        r1.check(ok, f"Survey._to_{nm}_xml", "result is <declaration literal> + one serialisation of self.xml(), nothing else", (ugly if nm == "ugly" else pretty).loc(),
                 why_fail=f"value={v!r} calls={calls}")
    if all(recs[n][0] is not None and isinstance(flatten(recs[n][0])[0], str) for n in recs):
        du, dp = flatten(recs["ugly"][0])[0], flatten(recs["pretty"][0])[0]
        r1.check(du.strip() == dp.strip() and du.strip().startswith("<?xml") and du.strip().endswith("?>"), "Survey:xml declaration",
                 "both modes use the same XML declaration up to trailing whitespace", ugly.loc(), why_fail=f"{du!r} vs {dp!r}")
    pc = recs["pretty"][1]
    if pc:
        argvals = list(pc[0][1]) + list(pc[0][2].values())
        r1.check(all(isinstance(a, str) and a.strip() == "" for a in argvals), "Survey._to_pretty_xml:formatting args",
                 "pretty printing passes only whitespace literals", pretty.loc(), why_fail=f"args={argvals!r}")
    uc = recs["ugly"][1]
    if uc:
        argvals = list(uc[0][1]) + list(uc[0][2].values())
        r1.check(uc[0][0] == "toxml" and not argvals or all(a == "" for a in argvals), "Survey._to_ugly_xml:formatting args",
                 "compact printing passes no formatting", ugly.loc())
    # mode selection depends on pretty_print only
    pf = ctx.func("pyxform.survey:Survey.print_xform_to_file", "C15.R1")
    sel = [c for c in walk_own(pf.node) if isinstance(c, ast.Call) and call_name(c) in ("_to_pretty_xml", "_to_ugly_xml")]
    gts = {call_name(c): guard_texts(c, stop=pf.node) for c in sel}
    r1.check(gts.get("_to_pretty_xml") == ["pretty_print"] and gts.get("_to_ugly_xml") == ["not pretty_print"],
             "print_xform_to_file:mode", "the serialiser is selected by pretty_print alone", pf.loc(), why_fail=f"{gts}")
    rules.append(r1)

    # ------------------------------------------------------------------ R6
    r6 = Rule("C15", "C15.R6", "the node factory stores text unchanged (no strip / padding)", floor=3,
              necessary="whitespace-trimmed or padded text differs from what the author typed in both modes or in one")
    TXT = Sym("TEXTARG", truthy=True, pytype=str)
    for desc, args, kwargs in (("text", ["tag", TXT], {}), ("text+parse=False", ["tag", TXT], {"toParseString": False}),
                               ("number", ["tag", 5], {})):
        for o, rec, parses, assumed in eval_node_factory(ctx, "C15.R6", args, kwargs):
            kids = rec.get("children", [])
            if desc == "number":
                ok = len(kids) == 1 and isinstance(kids[0], Obj) and kids[0].attrs.get("data") == "5"
            else:
                ok = len(kids) == 1 and isinstance(kids[0], Obj) and kids[0].attrs.get("data") is TXT and kids[0].cls is text_cls
            r6.check(ok and not parses, f"node[{desc}]", "one text node of the package's text-writer class whose data is the argument itself", "pyxform/utils.py",
                     why_fail=f"children={kids!r}")
    rules.append(r6)

    # ------------------------------------------------------------------ R8
    # the two modes may run at the same time on two threads (one survey each): everything the serialisers write goes to
    # the writer they are handed or to their own locals - a buffer shared at module level interleaves the two documents
    r8 = Rule("C15", "C15.R8", "the serialiser classes keep no shared buffer (module-level state) between or across calls", floor=1,
              necessary="two serialisations sharing one buffer truncate and interleave each other")
    from .c14 import module_state_obligations
    writer_classes = {elem_cls.name, text_cls.name}

    def _in_serialiser(fi):
        owner = fi
        while owner.cls is None and owner.parent is not None:
            owner = owner.parent
        return (owner.cls is not None and owner.cls.name in writer_classes) or fi.name in ("_to_pretty_xml", "_to_ugly_xml", "node", "print_xform_to_file")
    module_state_obligations(ctx, r8, only_writers=_in_serialiser)
    for o in r8.obligations:
        o["rule"] = "C15.R8"
    rules.append(r8)
    # the two modes are two renders (often of the same survey, one after the other): what the first render leaves in a
    # memoised result the second one reads - shared with C14.R2 (memoised results and the objects drawn from them are
    # never written)
    from . import c14
    from .c08 import _take
    r9 = Rule("C15", "C15.R9", "a render leaves nothing behind in memoised results for the next render to read", floor=1,
              necessary="token positions / lists edited in a cached parse make the second serialisation of the same text differ from the first")
    _take(r9, ctx.other(c14), "C14.R2", lambda c: True)
    rules.append(r9)
    return rules


def _is(v, name):
    return isinstance(v, Sym) and v.name == name


def _parts(v):
    return [p.name if isinstance(p, Sym) else p for p in flatten(v)]


def _inner(events):
    """Events strictly between the write of '>' and the write starting with '</'."""
    start = end = None
    for i, e in enumerate(events):
        if e[0] == "write" and e[1] == ">" and start is None:
            start = i
        if e[0] == "write" and any(isinstance(p, str) and p.startswith("</") for p in flatten(e[1])):
            end = i
    if start is None or end is None or end <= start:
        return None
    return events[start + 1:end]


def _show(events):
    out = []
    for e in events:
        if e[0] == "child":
            out.append(f"child{e[1]}{e[2]}({', '.join(map(repr, e[3]))})")
        else:
            out.append(f"{e[0]}({e[1]!r})")
    return out
