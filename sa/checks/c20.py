"""C20 — advisory warnings fire exactly when their trigger is present (structural clauses)."""

from __future__ import annotations

import ast
import itertools
import os

from ..astutil import call_name, const_str, guard_texts, guards_of, kw
from ..callgraph import CallGraph
from ..interp import ClassVal, Obj, Raised, Sym
from ..loader import AnalysisError, ancestors, norm, parent, walk_own
from ..report import Rule
from .c17 import _depends_on
from .c19 import _row_loop

EXPLANATION = (
    "Non-interference of the warnings list: in library code reachable from convert() every use of a `warnings` "
    "variable is an append/extend, a pass-through or its initialisation, so no conversion result can depend on it; "
    "census of warning emission sites: the guard of each emission governs nothing but the emission (documented "
    "exceptions listed); row-level warnings are built from the row number; abstract evaluation of the translation "
    "check over ALL subsets of {label, hint, image} x {default, en, fr} (512 header sets) against an independent "
    "oracle, of the sheet-misspelling filter with the edit distance as an oracle, of the Levenshtein routine on "
    "reference pairs, and of the IANA language check with the tag files as an oracle; wiring of the checks in "
    "workbook_to_json and after XML generation."
)
NOT_DECIDED = ("the *iff* for row-level triggers placed anywhere in arbitrary forms (value-level); the contents of the shipped IANA tag files")
ASSUMPTIONS = ["call resolution by name; the independent oracles in this file restate the property text"]


def duplicate_id_headers(ctx, r2, w2j, rid):
    # the duplicate form_id / id_string headers warning depends on the HEADERS alone (a blank id_string cell under an
    # id_string header is still a duplicate header), form_id wins whatever the column order, and the id_string cell is
    # dropped: the statements between reading the settings sheet and grouping its headers are evaluated on every
    # header order x cell emptiness combination
    sblock = None
    for x in walk_own(w2j.node):
        if isinstance(x, ast.If):
            idx_a = next((i for i, st_ in enumerate(x.body) if isinstance(st_, ast.Assign) and any(isinstance(t, ast.Name) and t.id == "settings_sheet" for t in st_.targets)), None)
            idx_b = next((i for i, st_ in enumerate(x.body) if any(isinstance(c_, ast.Call) and call_name(c_) == "dealias_and_group_headers" for c_ in ast.walk(st_))), None)
            if idx_a is not None and idx_b is not None and idx_a < idx_b:
                sblock = [st_ for st_ in x.body[idx_a + 1: idx_b] if not isinstance(st_, ast.Import | ast.ImportFrom)]
                break
    if sblock is None:
        r2.fail("duplicate id headers", "the settings-sheet block is found", w2j.loc())
    else:
        import itertools as _it4
        for order, (fid, sid) in _it4.product((("form_id", "id_string"), ("id_string", "form_id")), _it4.product(("F", None), ("S", None))):
            hdr = {h: None for h in order}
            rowd = {h: v for h, v in zip(("form_id", "id_string"), (fid, sid)) if v is not None}
            rowd = {h: rowd[h] for h in order if h in rowd}
            rowd["version"] = "1"
            itd = ctx.interp(rid)
            itd.reset([])
            wlist = []
            env = {"settings_sheet_headers": [hdr], "settings_sheet": [rowd], "warnings": wlist}
            try:
                for st_ in sblock:
                    itd.exec(st_, env, w2j.module)
                row_after = env["settings_sheet"][0]
                okd = len(wlist) == 1 and "id_string" not in row_after and row_after.get("form_id") == fid and "id_string" not in env["settings_sheet_headers"][0]
                why = f"{len(wlist)} warnings, row {row_after}, headers {list(env['settings_sheet_headers'][0])}"
            except Raised as e:
                okd, why = False, f"raises {e.exc_name}{e.exc_args}"
            r2.check(okd, f"duplicate id headers[columns {order[0]},{order[1]}; form_id cell {'filled' if fid else 'blank'}, id_string cell {'filled' if sid else 'blank'}]",
                     "one warning; the id_string column is dropped, form_id is kept", w2j.loc(sblock[0]) if sblock else w2j.loc(), why_fail=why)
        for only in ("form_id", "id_string"):
            itd = ctx.interp(rid)
            itd.reset([])
            wlist = []
            env = {"settings_sheet_headers": [{only: None, "version": None}], "settings_sheet": [{only: "X", "version": "1"}], "warnings": wlist}
            try:
                for st_ in sblock:
                    itd.exec(st_, env, w2j.module)
                oko = not wlist and env["settings_sheet"][0].get(only) == "X"
            except Raised as e:
                oko = False
            r2.check(oko, f"duplicate id headers[only {only}]", "no warning, nothing dropped", w2j.loc())


def choice_list_obligations(ctx, rule, rid):
    """validate_choice_list over every list of up to 3 choices drawn from {a, a-without-label, b, b-without-label} and both
    settings of allow_choice_duplicates: each choice without a label gets its own row-citing warning (whether or not its
    name repeats), and a repeated name is an error exactly when duplicates are not allowed (whether or not the rows
    have labels)."""
    import itertools as _it
    from ..interp import Raised
    vc = ctx.func("pyxform.validators.pyxform.choices:validate_choice_list", rid)
    kinds = {"a": {"name": "a", "label": "A"}, "a-": {"name": "a"}, "b": {"name": "b", "label": {"en": "B"}}, "b-": {"name": "b", "media": {"image": "b.png"}}}
    n = 0
    bad = []
    for k in (1, 2, 3):
        for combo in _it.product(kinds, repeat=k):
            for allow in (False, True):
                opts = [dict(kinds[c], __row=i + 2) for i, c in enumerate(combo)]
                names = [o["name"] for o in opts]
                dup_rows = [o["__row"] for i, o in enumerate(opts) if o["name"] in names[:i]]
                nolabel_rows = [o["__row"] for o in opts if "label" not in o]
                w = []
                it = ctx.interp(rid)
                it.reset([])
                try:
                    it.call_function(vc, [], {"options": opts, "warnings": w, "allow_duplicates": allow}, None, vc.node)
                    outcome = "ok"
                except Raised as e:
                    outcome = "error" if "PyXFormError" in e.mro else f"raises {e.exc_name}"
                    msg = str(e.exc_args[0]) if e.exc_args else ""
                n += 1
                want = "error" if (dup_rows and not allow) else "ok"
                if outcome != want:
                    bad.append(f"{combo} allow_duplicates={allow}: {outcome}, expected {want}")
                elif outcome == "error":
                    if not all(f"[row : {r_}]" in msg for r_ in dup_rows):
                        bad.append(f"{combo}: the duplicate error does not cite rows {dup_rows}: {msg[:80]!r}")
                else:
                    cited = sorted(r_ for r_ in range(2, 6) if any(f"[row : {r_}]" in str(x) for x in w))
                    if cited != nolabel_rows or len(w) != len(nolabel_rows):
                        bad.append(f"{combo} allow_duplicates={allow}: warnings cite rows {cited}, choices without a label are on rows {nolabel_rows}")
    rule.check(not bad and n >= 150, "validate_choice_list[all lists of <= 3 choices x allow_duplicates]", f"{n} lists: one warning per unlabeled choice; a repeated name is an error iff duplicates are not allowed",
               vc.loc(), why_fail="; ".join(bad[:3]))


def warning_census_rule(ctx, prop="C20", rid="C20.R6"):
    """Which advisories exist is part of the contract (same form, same warnings): the set of warning messages the
    conversion path can emit is compared, by message skeleton, with the table frozen from the pinned tree
    (sa/warnings.json, regenerated by tools/gen_warnings.py when a `fix:` commit adds or rewords one)."""
    import json
    import os
    from ..warncensus import warning_skeletons
    r = Rule(prop, rid, "no advisory exists that the reference table does not list", floor=10,
             necessary="a new kind of warning makes forms that converted silently (or with other warnings) warn differently")
    table = json.load(open(os.path.join(os.path.dirname(os.path.dirname(os.path.abspath(__file__))), "warnings.json"), encoding="utf-8"))
    known = set(table["skeletons"])
    sk = warning_skeletons(ctx)
    for k, sites in sorted(sk.items()):
        fi, c = sites[0]
        if k == "{}":
            r.check(len(sites) <= table.get("opaque_sites", 0), "warning sites whose text is computed elsewhere", f"{len(sites)} such site(s), as in the reference", fi.loc(c),
                    why_fail=f"{len(sites)} sites append a message built elsewhere; the reference has {table.get('opaque_sites', 0)}: " + "; ".join(f_.qualname for f_, _c in sites))
            continue
        r.check(k in known, f"warning `{k[:70]}`", "is one of the advisories of the reference table", fi.loc(c),
                why_fail=f"new advisory emitted by {fi.qualname}: forms that met its condition used to convert without it")
    return r


def run(ctx):
    repo = ctx.repo
    it0 = ctx.consts.interp
    rules = []
    cg = CallGraph(repo, it0)
    reach = cg.reachable(["pyxform.xls2xform:convert"])

    # ------------------------------------------------------------------ R1
    r1 = Rule("C20", "C20.R1", "the warnings list is write-only in library code", floor=25,
              necessary="a branch or value that reads the warnings list lets an advisory message alter the conversion result")
    n_use = 0
    for fi in repo.all_functions():
        if fi.fq not in reach:
            continue
        for n in walk_own(fi.node):
            if not (isinstance(n, ast.Name) and n.id in ("warnings", "_warnings") and isinstance(n.ctx, ast.Load)):
                continue
            r = repo.resolve_name(fi.module, n.id)
            if r and r[0] in ("ext", "mod"):
                continue  # the stdlib `warnings` module
            n_use += 1
            p = parent(n)
            ok = False
            why = norm(p)[:60]
            if isinstance(p, ast.Attribute) and p.attr in ("append", "extend") and isinstance(parent(p), ast.Call):
                ok = True
            elif isinstance(p, ast.keyword) or (isinstance(p, ast.Call) and n in p.args):
                callee = parent(p) if isinstance(p, ast.keyword) else p
                ok = call_name(callee) not in ("len", "bool", "any", "all", "str", "list", "sorted", "join", "print")
            elif isinstance(p, ast.Compare) and len(p.comparators) == 1 and isinstance(p.comparators[0], ast.Constant) and p.comparators[0].value is None:
                ok = True  # `warnings is None` initialisation test
            elif isinstance(p, ast.Return):
                ok = True  # the list itself is handed back
            r1.check(ok, f"{fi.fq}:{why}", "use of the warnings list is append/extend, pass-through, None-initialisation or returning the list", fi.loc(n))
    ctx.count("warnings_uses", n_use)
    cv = ctx.func("pyxform.xls2xform:convert", "C20.R1")
    res = [c for c in walk_own(cv.node) if isinstance(c, ast.Call) and call_name(c) == "ConvertResult"]
    r1.check(len(res) == 1 and norm(kw(res[0], "warnings")) == "warnings", "convert:warnings", "the accumulated list is returned as ConvertResult.warnings", cv.loc())
    rules.append(r1)

    # ------------------------------------------------------------------ R2 / R3
    r2 = Rule("C20", "C20.R2", "the guard of a warning governs nothing but the warning", floor=12,
              necessary="a guard that also skips, drops or rewrites data makes the 'advisory' warning change the result")
    r3 = Rule("C20", "C20.R3", "row-level warnings cite the row", floor=6, necessary="a warning about one row without its number does not name the right subject")
    documented = {
        "disabled": "a disabled row is skipped by design (documented: rows marked disabled produce nothing)",
        "Row without name": "a row without type, name and label is a comment row and is skipped by design",
        "form_id and id_string": "the duplicate id_string header is dropped so that form_id wins (documented duplicate-header handling)",
        "INVALID_HEADER": "choices columns with invalid headers are removed from the choice items (documented)",
        "Could not export itemsets.csv": "without an external_choices sheet there is nothing to export: returning no itemsets is the documented result, the message explains it",
    }
    w2j = ctx.func("pyxform.xls2json:workbook_to_json", "C20.R2")
    loop = _row_loop(w2j)
    sites = []
    for fi in repo.all_functions():
        if fi.fq not in reach:
            continue
        for c in walk_own(fi.node):
            if isinstance(c, ast.Call) and isinstance(c.func, ast.Attribute) and c.func.attr in ("append", "extend") and isinstance(c.func.value, ast.Name) and c.func.value.id == "warnings":
                sites.append((fi, c))
    for fi, c in sites:
        st = c
        while not isinstance(st, ast.stmt):
            st = parent(st)
        blk = parent(st)
        body = None
        if isinstance(blk, ast.If):
            body = blk.body if st in blk.body else blk.orelse
        key = f"{fi.fq}:{norm(c.args[0])[:60] if c.args else norm(c)[:60]}"
        if c.func.attr == "extend":
            r2.ok(key, "extends the list with a validator's warnings", fi.loc(c))
            continue
        if body is None:
            r2.ok(key, "unconditional within its function (the function itself is the check)", fi.loc(c))
        else:
            others = [s for s in body if s is not st and not _is_message_building(s, st)]
            # (the message may be a module constant: documented exceptions are recognised by the folded message text)
            okm_, msg_ = const_str(ctx, fi.module, c.args[0]) if c.args else (False, None)
            folded_ = msg_ if (okm_ and isinstance(msg_, str)) else ""
            doc = next((v for k, v in documented.items() if k in norm(st) or k in folded_ or any(k in norm(o) for o in others) or k in " ".join(guard_texts(st, stop=fi.node))), None)
            if not others:
                r2.ok(key, "the guarded block only emits the warning", fi.loc(c))
            elif doc:
                r2.ok(key, f"documented exception: {doc}", fi.loc(c))
            else:
                r2.fail(key, "the block that emits the warning also does something else", fi.loc(c), why_fail=f"{[norm(o)[:40] for o in others]}")
        # row citation
        if fi is w2j and any(a is loop for a in ancestors(c)):
            r3.check(_depends_on(w2j.node, c.args[0], {"row_number"}), key, "row-loop warning is built from the row number", fi.loc(c))
        # (the choices validator's row citation is decided by evaluation: choice_list_obligations, C20.R2)
    ctx.count("warning_sites", len(sites))
    # the unlabeled group / repeat warning: its guard is evaluated on the row shapes the documentation lists
    from ..astutil import guards_of as _guards_of
    nolabel = [x for x in walk_own(loop) if isinstance(x, ast.Call) and call_name(x) == "append" and isinstance(x.func, ast.Attribute) and norm(x.func.value) == "warnings"
               and "has no label" in norm(x)]
    if len(nolabel) == 1:
        gs = [t for t, pol in _guards_of(nolabel[0], stop=loop) if pol]
        guard = gs[-1] if gs else None
        GROUP = ctx.consts.get("pyxform.constants", "GROUP", "C20.R2")
        REPEAT = ctx.consts.get("pyxform.constants", "REPEAT", "C20.R2")
        shapes = [
            ("unlabeled group", {"type": "begin group", "name": "g"}, GROUP, True),
            ("unlabeled repeat", {"type": "begin repeat", "name": "r"}, REPEAT, True),
            ("labeled group", {"type": "begin group", "name": "g", "label": "G"}, GROUP, False),
            ("translated label", {"type": "begin group", "name": "g", "label": {"en": "G"}}, GROUP, False),
            ("group with media only", {"type": "begin group", "name": "g", "media": {"image": "a.png"}}, GROUP, False),
            ("unlabeled group with a calculation", {"type": "begin group", "name": "g", "bind": {"calculate": "1"}}, GROUP, False),
            ("unlabeled repeat with a dynamic default", {"type": "begin repeat", "name": "r", "default": "${q0}"}, REPEAT, False),
            ("unlabeled group with a static default", {"type": "begin group", "name": "g", "default": "x"}, GROUP, True),
            ("unlabeled field-list group", {"type": "begin group", "name": "g", "control": {"appearance": "field-list"}}, GROUP, False),
            ("unlabeled field-list repeat", {"type": "begin repeat", "name": "r", "control": {"appearance": "field-list"}}, REPEAT, True),
        ]
        for desc, row_, ctype, want in shapes:
            itg = ctx.interp("C20.R2", hooks={"fnname:default_is_dynamic": lambda i, a, k, n: isinstance(a[0], str) and "${" in a[0]})
            itg.reset([])
            try:
                got = itg.truth(itg.eval(guard, {"row": row_, "question_type": row_["type"], "control_type": ctype}, w2j.module)) if guard is not None else None
            except Raised as e:
                got = f"raises {e.exc_name}{e.exc_args}"
            r2.check(got is want, f"no-label warning[{desc}]", f"{'warned' if want else 'not warned'}", w2j.loc(nolabel[0]), why_fail=f"guard evaluates to {got}")
    else:
        r2.fail("no-label warning", "one warning site for unlabeled groups / repeats in the row loop", w2j.loc(loop), why_fail=f"{len(nolabel)} sites")
    duplicate_id_headers(ctx, r2, w2j, "C20.R2")
    choice_list_obligations(ctx, r2, "C20.R2")
    from ..rowloop import row_prologue_obligations
    row_prologue_obligations(ctx, r2, "C20.R2")
    from ..rowloop import type_branch_obligations
    type_branch_obligations(ctx, r2, "C20.R2")
    rules += [r2, r3]
    rules.append(warning_census_rule(ctx))

    # ------------------------------------------------------------------ R4
    r4 = Rule("C20", "C20.R4", "misspelling and IANA checks: thresholds, exclusions and wiring", floor=16,
              necessary="a threshold off by one, a missing exclusion or a check that is not called changes when the warning fires")
    fm = ctx.func("pyxform.validators.pyxform.sheet_misspellings:find_sheet_misspellings", "C20.R4")
    dist = {"surveys": 1, "Survey": 0, "survye": 2, "sruveyy": 3, "_survey": 1, "choices": 5, "settings": 6, "xyz": 6, "SURVEYS": 1}
    it = ctx.interp("C20.R4", hooks={"fnname:levenshtein_distance": lambda i, a, k, n: dist[next(kk for kk in dist if kk.lower() == a[0])]})
    it.reset([])
    msg = it.call_function(fm, [], {"key": "survey", "keys": list(dist)}, None, fm.node)
    named = sorted(k for k in dist if isinstance(msg, str) and f"'{k}'" in msg)
    r4.check(named == sorted(["surveys", "Survey", "survye", "SURVEYS"]), "find_sheet_misspellings[distances 0..6]",
             "names within edit distance 2 are suggested, except exact supported names and underscore-prefixed names", fm.loc(), why_fail=f"named {named}: {msg!r}")
    it.reset([])
    r4.check(it.call_function(fm, [], {"key": "survey", "keys": ["xyz", "_survey", "choices"]}, None, fm.node) is None, "find_sheet_misspellings[no candidate]", "no candidate -> no message", fm.loc())
    it.reset([])
    r4.check(it.call_function(fm, [], {"key": "survey", "keys": []}, None, fm.node) is None, "find_sheet_misspellings[no sheets]", "no sheet names -> no message", fm.loc())
    # a sheet that IS there under its exact supported name (but, say, without data rows) is never a misspelling - of
    # itself or of another supported name; evaluated with the real distance function
    it_real = ctx.interp("C20.R4")
    for key_ in ("survey", "choices", "settings", "external_choices", "entities"):
        it_real.reset([])
        try:
            msg_ = it_real.call_function(fm, [], {"key": key_, "keys": ["survey", "choices", "settings", "external_choices", "entities", "osm"]}, None, fm.node)
        except Raised as e:
            msg_ = f"raises {e.exc_name}"
        r4.check(msg_ is None, f"find_sheet_misspellings[all sheets exactly named, looking for {key_}]", "no suggestion: every sheet carries a supported name", fm.loc(), why_fail=repr(msg_)[:160])
    it_real.reset([])
    msg_ = it_real.call_function(fm, [], {"key": "settings", "keys": ["survey", "setings", "choices"]}, None, fm.node)
    r4.check(isinstance(msg_, str) and "'setings'" in msg_ and "'survey'" not in msg_, "find_sheet_misspellings[one misspelt sheet among exact ones]", "only the misspelt name is suggested", fm.loc(), why_fail=repr(msg_)[:160])
    lv = ctx.func("pyxform.utils:levenshtein_distance", "C20.R4")
    it = ctx.interp("C20.R4")
    for a, b, want in (("kitten", "sitting", 3), ("survey", "surveys", 1), ("", "abc", 3), ("abc", "", 3), ("abc", "abc", 0), ("choices", "chioces", 2), ("settings", "setting", 1), ("a", "b", 1), ("flaw", "lawn", 2)):
        it.reset([])
        got = it.call_function(lv, [a, b], {}, None, lv.node)
        r4.check(got == want, f"levenshtein_distance[{a!r},{b!r}]", f"== {want}", lv.loc(), why_fail=f"got {got}")
    # bounded-exhaustive: every pair of strings over {a, b} up to length 4 (961 pairs, all overlap patterns of repeated
    # letters) against the textbook recurrence
    def _lev(x, y):
        prev = list(range(len(y) + 1))
        for i, cx in enumerate(x, 1):
            cur = [i]
            for j, cy in enumerate(y, 1):
                cur.append(min(prev[j] + 1, cur[j - 1] + 1, prev[j - 1] + (cx != cy)))
            prev = cur
        return prev[-1]
    import itertools as _it2
    words = [""] + ["".join(t) for n_ in (1, 2, 3, 4) for t in _it2.product("ab", repeat=n_)]
    wrong = []
    it.max_steps = max(getattr(it, "max_steps", 0), 50_000_000)
    for a, b in _it2.product(words, words):
        it.reset([])
        try:
            got = it.call_function(lv, [a, b], {}, None, lv.node)
        except Raised as e:
            got = f"raises {e.exc_name}"
        if got != _lev(a, b):
            wrong.append((a, b, got, _lev(a, b)))
    r4.check(not wrong, "levenshtein_distance[all pairs over {a,b}, length <= 4]", f"{len(words) ** 2} pairs equal the textbook edit distance", lv.loc(),
             why_fail="; ".join(f"d({a!r},{b!r})={g} (expected {w})" for a, b, g, w in wrong[:3]))
    # which sheets are spell-checked, and how
    calls = [c for c in walk_own(w2j.node) if isinstance(c, ast.Call) and call_name(c) == "find_sheet_misspellings"]
    keys = {}
    for c in calls:
        kx = kw(c, "key")
        okc, kv = const_str(ctx, w2j.module, kx)
        if not okc and isinstance(kx, ast.Name):
            # (the name's definitions, not line numbers: statements expanded from a helper keep the helper's own lines)
            defs_ = [x for x in walk_own(w2j.node) if isinstance(x, ast.Assign) and isinstance(x.targets[0], ast.Name) and x.targets[0].id == kx.id]
            near_ = [x for x in defs_ if x.lineno < c.lineno and c.lineno - x.lineno < 6] or defs_
            vals_ = {const_str(ctx, w2j.module, x.value) for x in near_}
            if len(vals_) == 1:
                okc, kv = next(iter(vals_))
        keys.setdefault(kv, []).append(c)
    r4.check(set(keys) == {"survey", "settings", "entities", "external_choices", "choices"}, "workbook_to_json:spell-checked sheets", "survey, choices, external_choices (in the error) and settings, entities (as warning) are checked",
             w2j.loc(), why_fail=repr(sorted(map(str, keys))))
    for sheet in ("settings", "entities"):
        for c in keys.get(sheet, []):
            gts = guard_texts(c, stop=w2j.node)
            r4.check(any(g.startswith("not workbook_dict." + sheet) for g in gts), f"workbook_to_json:misspelling({sheet})", "checked only when the sheet is missing", w2j.loc(c), why_fail=repr(gts))
    # IANA
    gl = ctx.func("pyxform.validators.pyxform.iana_subtags.validation:get_languages_with_bad_tags", "C20.R4")
    tags = {"iana_subtags_2_characters.txt": {"en", "fr", "pt"}, "iana_subtags_3_or_more_characters.txt": {"tlh", "pt-BR", "zh-Hant"}}
    it = ctx.interp("C20.R4", hooks={"fnname:read_tags": lambda i, a, k, n: tags[a[0]] if a else set().union(*tags.values())})
    it.reset([])
    langs = ["default", "English (en)", "French", "Klingon (tlh)", "ab", "Elvish (qya)", "Português (pt-BR)", "Bad(en) x", "en"]
    got = it.call_function(gl, [langs], {}, None, gl.node)
    r4.check(got == ["French", "Elvish (qya)", "Bad(en) x"], "get_languages_with_bad_tags", "languages without a trailing '(code)' or with an unknown code are reported; 'default' and labels under 3 characters are skipped", gl.loc(), why_fail=repr(got))
    # the reader of the shipped subtag lists, evaluated on the shipped files themselves (data of the package, read here as
    # text): every line of a list is a subtag - the first, the last (the files do not end with a newline), all between
    import pathlib as _pl
    rtg = ctx.func("pyxform.validators.pyxform.iana_subtags.validation:read_tags", "C20.R4")
    pkg_dir = os.path.dirname(rtg.module.path)

    def _real_text(path_, enc_):
        p_ = os.path.realpath(str(path_))
        if not p_.startswith(os.path.realpath(pkg_dir) + os.sep):
            raise AnalysisError("C20.R4", f"read_tags opens {p_}, outside the package's subtag directory")
        with open(p_, encoding=enc_ or "utf-8") as fh_:
            return fh_.read()

    def h_open(i, a, k, n):
        text_ = _real_text(a[0], k.get("encoding"))
        lines_ = text_.splitlines(keepends=True)
        f_ = Sym("FILE", truthy=True, attrs={"iter": lines_, "read": lambda i2, a2, k2, n2: text_, "readlines": lambda i2, a2, k2, n2: list(lines_),
                                              "close": lambda i2, a2, k2, n2: None})
        return f_
    rt_hooks = {"ext:pathlib.Path": lambda i, a, k, n: _pl.PurePosixPath(*a), "ext:builtins.open": h_open,
                "method:read_text": lambda i, base, a, k, n: _real_text(base, k.get("encoding")) if isinstance(base, _pl.PurePath) else NotImplemented,
                "method:open": lambda i, base, a, k, n: h_open(i, [base], k, n) if isinstance(base, _pl.PurePath) else NotImplemented}
    for fname in ("iana_subtags_2_characters.txt", "iana_subtags_3_or_more_characters.txt"):
        want_tags = {ln.strip() for ln in open(os.path.join(pkg_dir, fname), encoding="utf-8").read().split("\n")} - {""}
        itr = ctx.interp("C20.R4", hooks=rt_hooks)
        itr.reset([])
        try:
            got_tags = itr.call_function(rtg, [fname], {}, None, rtg.node)
            got_tags = set(itr.iterate(got_tags, rtg.node)) - {""}
            why_ = f"missing {sorted(want_tags - got_tags)[:5]} extra {sorted(got_tags - want_tags)[:5]}"
        except Raised as e:
            got_tags, why_ = None, f"raises {e.exc_name}{e.exc_args}"
        except AnalysisError as e:
            r4.note(f"read_tags could not be evaluated on {fname} ({e})")
            continue
        r4.check(got_tags == want_tags and len(want_tags) > 100, f"read_tags[{fname}]", f"yields every one of the {len(want_tags)} subtags the shipped file lists (first and last line included)", rtg.loc(), why_fail=why_)
    pf = ctx.func("pyxform.survey:Survey.print_xform_to_file", "C20.R4")
    ic = [c for c in walk_own(pf.node) if isinstance(c, ast.Call) and call_name(c) == "get_languages_with_bad_tags"]
    # the call as written, evaluated for a form whose *default language* is itself a language name without a code:
    # only the literal placeholder language `default` is exempt from the check
    if len(ic) == 1:
        tr_ = {"French": {}, "English (en)": {}, "default": {}}
        sv_ = Obj(repo.cls("pyxform.survey:Survey"), {"default_language": "French", "_translations": tr_}, name="survey")
        it.reset([])
        try:
            got2 = it.eval(ic[0], {"self": sv_, "translations": tr_}, pf.module)
        except Raised as e:
            got2 = f"raises {e.exc_name}"
        r4.check(got2 == ["French"], "print_xform_to_file:IANA check[default_language='French']", "a default language without a valid code is reported like any other; only `default` is skipped",
                 pf.loc(ic[0]), why_fail=repr(got2))
    # evaluated: the language check runs once on every successful path - whatever validators are requested and whether
    # or not they had something to say - and adds exactly one advisory iff some language has a bad tag
    from .. import printxform
    for validate_, enketo_, has_tr, bad_, vw_ in itertools.product((False, True), (False, True), (True, False), ([], ["French", "Elvish (qya)"]), ([], ["ODK Validate Warnings: x"])):
        if vw_ and not validate_:
            continue
        res_ = printxform.run(ctx, "C20.R4", pretty_print=True, validate=validate_, enketo=enketo_, translations=({"French": {}, "English (en)": {}} if has_tr else {}), bad=bad_, odk_warnings=vw_)
        desc_ = f"validate={validate_} enketo={enketo_} translations={'yes' if has_tr else 'none'} bad tags={bad_} validator warnings={len(vw_)}"
        lang_ws = [w_ for w_ in res_.warnings if not (isinstance(w_, str) and w_.startswith("ODK Validate"))]
        want_n = 1 if (has_tr and bad_) else 0
        okw = res_.outcome == "return" and len(lang_ws) == want_n and (not want_n or all(b_ in str(lang_ws[0]) for b_ in bad_)) and [w_ for w_ in res_.warnings if w_ not in lang_ws] == list(vw_)
        r4.check(okw, f"print_xform_to_file[{desc_}]:language advisory", f"{want_n} language advisory naming the bad languages; the validators' warnings are kept", pf.loc(),
                 why_fail=f"{res_.outcome}; warnings {[str(w_)[:60] for w_ in res_.warnings]}")
        if has_tr:
            r4.check(res_.calls.count("language check") == 1, f"print_xform_to_file[{desc_}]:language check runs", "the check runs exactly once", pf.loc(), why_fail=repr(res_.calls))
    rules.append(r4)

    # ------------------------------------------------------------------ R5
    r5 = Rule("C20", "C20.R5", "translation checks: missing-translation sets over all header subsets; wiring", floor=500,
              necessary="a wrong missing set warns about a translated column or stays silent about a missing one")
    tcls = repo.cls("pyxform.validators.pyxform.translations_checks:Translations")
    trans_cols = ctx.consts.get("pyxform.aliases", "TRANSLATABLE_SURVEY_COLUMNS", "C20.R5")
    # which columns count as translatable, per sheet (independent table): on the choices sheet only the label and the
    # media columns are - `hint`, `guidance_hint` and the messages are plain data columns there
    ch_cols = ctx.consts.get("pyxform.aliases", "TRANSLATABLE_CHOICES_COLUMNS", "C20.R5")
    r5.check(isinstance(ch_cols, dict) and set(ch_cols) == {"label", "image", "big-image", "audio", "video"}, "TRANSLATABLE_CHOICES_COLUMNS", "choices: label, image, big-image, audio, video", "pyxform/aliases.py",
             why_fail=repr(sorted(ch_cols) if isinstance(ch_cols, dict) else ch_cols))
    r5.check(isinstance(trans_cols, dict) and set(trans_cols) == {"label", "hint", "guidance_hint", "image", "big-image", "audio", "video", "jr:constraintMsg", "jr:requiredMsg"}, "TRANSLATABLE_SURVEY_COLUMNS",
             "survey: label, hint, guidance_hint, the media columns and the two bind messages", "pyxform/aliases.py", why_fail=repr(sorted(trans_cols) if isinstance(trans_cols, dict) else trans_cols))
    COLS = [("label", ("label",)), ("hint", ("hint",)), ("image", ("media", "image"))]
    LANGS = [None, "en", "fr"]
    pairs = [(c, l) for c in COLS for l in LANGS]
    n = 0
    bad = []
    for mask in range(1 << len(pairs)):
        headers = []
        seen = {}
        for i, ((cname, path), lang) in enumerate(pairs):
            if mask >> i & 1:
                headers.append((*path, lang) if lang else tuple(path))
                seen.setdefault(lang or "default", set()).add(cname)
        allcols = set().union(*seen.values()) if seen else set()
        if not seen or set(seen) == {"default"}:
            expect = {}
        else:
            expect = {l: sorted(allcols - cs) for l, cs in seen.items() if allcols - cs}
        it = ctx.interp("C20.R5")
        it.reset([])
        try:
            o = it.call(ClassVal(tcls), [], {"sheet_data": tuple(headers), "translatable_columns": trans_cols}, None)
        except Raised as r:
            bad.append((headers, f"raised {r.exc_name}"))
            continue
        miss = {l: sorted(v) for l, v in dict(o.attrs.get("missing", {})).items() if v}
        n += 1
        hs = ",".join("::".join(h) for h in headers) or "(no translatable column)"
        r5.check(miss == expect, f"Translations[{hs}]", "missing map == (columns seen anywhere) minus (columns seen for that language); empty when only the default language is used",
                 tcls.module.relpath, why_fail=f"missing={miss} expected={expect}")
    for headers, why in bad:
        r5.fail(f"Translations[{headers}]", f"evaluates ({why})", tcls.module.relpath)
    ctx.count("translation_header_sets_evaluated", n)
    # wiring
    stc = [c for c in walk_own(w2j.node) if isinstance(c, ast.Call) and call_name(c) == "SheetTranslations"]
    r5.check(len(stc) == 1 and norm(kw(stc[0], "survey_sheet")) == "survey_sheet.headers" and norm(kw(stc[0], "choices_sheet")) == "choices_headers", "workbook_to_json:SheetTranslations",
             "receives the survey and choices header tuples", w2j.loc())
    mc = [c for c in walk_own(w2j.node) if isinstance(c, ast.Call) and call_name(c) == "missing_check"]
    oc = [c for c in walk_own(w2j.node) if isinstance(c, ast.Call) and call_name(c) == "or_other_check"]
    r5.check(len(mc) == 1 and len(oc) == 1 and mc[0].lineno < loop.lineno < oc[0].lineno and not guard_texts(mc[0], stop=w2j.node) and not guard_texts(oc[0], stop=w2j.node), "workbook_to_json:check order",
             "missing-translation check before the row loop, or_other check after it, both unconditional", w2j.loc())
    oos = [x for x in walk_own(w2j.node) if isinstance(x, ast.Assign) and norm(x.targets[0]) == "sheet_translations.or_other_seen"]
    r5.check(len(oos) == 1 and any("specify_other" in g for g in guard_texts(oos[0], stop=loop)), "workbook_to_json:or_other_seen", "set only on the specify-other path", w2j.loc())
    stcls = repo.cls("pyxform.validators.pyxform.translations_checks:SheetTranslations")
    ooc = stcls.methods["or_other_check"]
    for seen_flag, sdef, cdef, want in ((True, True, True, 0), (True, False, True, 1), (True, True, False, 1), (False, False, False, 0)):
        it = ctx.interp("C20.R5")
        it.reset([])
        w = []
        mk = lambda d: Obj(None, {"seen_default_only": lambda i, a, k, n, d=d: d}, name="t")
        o = Obj(stcls, {"or_other_seen": seen_flag, "survey": mk(sdef), "choices": mk(cdef)}, name="st")
        it.call_function(ooc, [o], {"warnings": w}, None, ooc.node)
        r5.check(len(w) == want, f"or_other_check[seen={seen_flag} survey_default_only={sdef} choices_default_only={cdef}]", f"{want} warning(s)", ooc.loc(), why_fail=repr(w))
    # the same check with real language maps: for every pair of {default, fr, en}-subsets seen on the two sheets, the
    # warning is due iff an or_other select exists and some sheet has a language other than `default`
    tcls = repo.cls("pyxform.validators.pyxform.translations_checks:Translations")
    import itertools as _it3
    LANGS = ("default", "French (fr)", "English (en)")
    subsets = [tuple(l for l, b in zip(LANGS, bits) if b) for bits in _it3.product((0, 1), repeat=3)]
    bad_oo = []
    for seen_flag, ssv, sch in _it3.product((True, False), subsets, subsets):
        it = ctx.interp("C20.R5")
        it.reset([])
        w = []
        mk = lambda ls: Obj(tcls, {"seen": {l: ["label"] for l in ls}, "columns_seen": {"label"} if ls else set(), "missing": {}}, name="t")
        o = Obj(stcls, {"or_other_seen": seen_flag, "survey": mk(ssv), "choices": mk(sch)}, name="st")
        try:
            it.call_function(ooc, [o], {"warnings": w}, None, ooc.node)
        except Raised as e:
            bad_oo.append((seen_flag, ssv, sch, f"raises {e.exc_name}"))
            continue
        translated = any(l != "default" for l in (*ssv, *sch))
        want = 1 if (seen_flag and translated) else 0
        if len(w) != want:
            bad_oo.append((seen_flag, ssv, sch, f"{len(w)} warnings, expected {want}"))
    r5.check(not bad_oo, "or_other_check[all language subsets on both sheets]", "128 combinations: warns iff or_other is used and a non-default language exists on either sheet",
             ooc.loc(), why_fail="; ".join(f"or_other={a} survey={b} choices={c}: {d}" for a, b, c, d in bad_oo[:3]))
    rules.append(r5)
    # shared with C12.R2 (readers as siblings)
    from . import c12 as _c12s
    from .c08 import _take as _take_s
    r_s = Rule("C20", "C20.R7", "every sheet of a Markdown workbook, also one that is a name only, is offered to the misspelling check", floor=3,
               necessary="a misspelt sheet that is never registered gets no 'similar names' advisory")
    _take_s(r_s, ctx.other(_c12s), "C12.R2", lambda c: c.startswith("md_to_dict:sheet names["))
    rules.append(r_s)
    return rules


def _is_message_building(s, emit_stmt) -> bool:
    """Assignments whose targets are only used by the emitting statement (msg = …)."""
    if isinstance(s, ast.Assign) and all(isinstance(t, ast.Name) for t in s.targets):
        names = {t.id for t in s.targets}
        used = {n.id for n in ast.walk(emit_stmt) if isinstance(n, ast.Name)}
        return bool(names & used)
    return False
